// C03 - Aliased parameters track their source through every update, copy and renaming.
//
// A test double deriving from AbstractParameterAliasable (2..6 parameters, optional namespace, interval
// constraints) is driven through generated histories next to a shadow model (alias forest, values, one
// interval per parameter).  After EVERY call all live objects (the original, its copies, assignment
// targets) are audited against their own model: values, independent list (names, identity with the objects
// of getParameters()), getAliases / getAlias / getFrom, acceptance of every constraint on a probe grid.
//
// The model states what the property states, nothing more:
//  * value semantics: an update that changes X sets X and every parameter aliased to X (directly or through a
//    chain) to the new value; everything else keeps its value.  Where the statement leaves the behaviour open
//    the audit accepts every allowed outcome and adopts the one observed: the aliased parameter may take its
//    source's value at alias time or only at the source's next change (the documentation says the latter);
//    an update that does not change X may or may not re-synchronise X's aliases.
//  * constraints: both ends of a fresh link accept exactly the intersection of the constraints they had; when
//    only the aliased end was constrained the source gets that constraint; when only the source was
//    constrained the aliased end may stay unconstrained.  "Exactly" is meant: group `near` links constraints
//    whose bounds differ by a few ulps .. 1e-9 only and probes acceptance between and next to those bounds.
//    Group `flags` links constraints with the SAME bound value included by one and excluded by the other: they
//    are different constraints, the shared one excludes that bound.
//  * refusals (double alias, cycle of any length incl. self alias) must raise and leave every observable of
//    every live object unchanged.
#include "vrt.h"

#include <Bpp/Numeric/AbstractParameterAliasable.h>
#include <Bpp/Numeric/Constraints.h>
#include <Bpp/Exceptions.h>

#include <algorithm>
#include <cmath>
#include <limits>
#include <map>
#include <memory>
#include <set>

using namespace bpp;
using namespace std;
using vrt::str;

namespace
{
const char* KNOWN_STALE = "C03-chain-stale-when-mid-equal";

// ---------------------------------------------------------------- intervals (model side)
struct Itv
{
  bool has;
  double lo, hi;
  bool il, iu;
};
const double INF = numeric_limits<double>::infinity();
const Itv NONE = { false, -INF, INF, false, false };

bool okI(const Itv& c, double x)
{
  if (!c.has) return true;
  return (c.il ? x >= c.lo : x > c.lo) && (c.iu ? x <= c.hi : x < c.hi);
}
bool sameI(const Itv& a, const Itv& b)
{
  if (a.has != b.has) return false;
  if (!a.has) return true;
  return a.lo == b.lo && a.hi == b.hi && a.il == b.il && a.iu == b.iu;
}
Itv interI(const Itv& a, const Itv& b)
{
  if (!a.has) return b;
  if (!b.has) return a;
  Itv r = a;
  if (b.lo > a.lo) { r.lo = b.lo; r.il = b.il; }
  else if (b.lo == a.lo) r.il = a.il && b.il;
  if (b.hi < a.hi) { r.hi = b.hi; r.iu = b.iu; }
  else if (b.hi == a.hi) r.iu = a.iu && b.iu;
  return r;
}
string showI(const Itv& c)
{
  if (!c.has) return "none";
  return string(c.il ? "[" : "]") + str(c.lo) + ";" + str(c.hi) + (c.iu ? "]" : "[");
}

// All bound values are distinct across the pool: an intersection never has to choose between two
// different open/closed flags at equal bounds (that case belongs to C01).  Every interval contains the
// core [0.5, 3.5].
const vector<Itv>& pool()
{
  static const vector<Itv> p = {
    NONE,
    { true, -5, 6, true, true },
    { true, -4, 7, false, false },
    { true, -3, 8, true, false },
    { true, -2, 9, false, true },
    { true, -1, 5, true, false },
    { true, -6, 4, false, true },
    { true, 0.5, INF, true, false },
    { true, -INF, 3.5, false, true },
  };
  return p;
}
shared_ptr<ConstraintInterface> mkCon(const Itv& c)
{
  if (!c.has) return nullptr;
  return make_shared<IntervalConstraint>(c.lo, c.hi, c.il, c.iu);
}
const vector<double>& probeGrid()
{
  static vector<double> g;
  if (g.empty())
  {
    for (const Itv& c : pool())
      if (c.has)
        for (double b : { c.lo, c.hi })
          if (std::isfinite(b)) { g.push_back(b - 0.125); g.push_back(b); g.push_back(b + 0.125); }
    for (double x : { -1e6, -100.0, 0.0, 2.0, 100.0, 1e6 }) g.push_back(x);
    sort(g.begin(), g.end());
    g.erase(unique(g.begin(), g.end()), g.end());
  }
  return g;
}
const vector<double>& valueGrid()
{
  static vector<double> g;
  if (g.empty())
    for (int i = -26; i <= 38; ++i) g.push_back(0.25 * i);
  return g;
}

// Case-local additions to the two grids (group `near`: bounds that differ by a few ulps .. 1e-9 need probes
// and values between and next to them).  Emptied by every World, so the other groups see the fixed grids.
vector<double>& xProbe() { static vector<double> v; return v; }
vector<double>& xValue() { static vector<double> v; return v; }

// two different bounds closer than the default precision of an interval (1e-12) or a little more
bool nearBound(double a, double b) { return a != b && std::fabs(a - b) <= 1e-11; }

// ---------------------------------------------------------------- the test double
class TD : public AbstractParameterAliasable
{
public:
  unsigned fired;
  TD(const string& prefix) : AbstractParameterAliasable(prefix), fired(0) {}
  TD* clone() const override { return new TD(*this); }
  void fireParameterChanged(const ParameterList&) override { ++fired; }
  void add(Parameter* p) { addParameter_(p); }
};

// ---------------------------------------------------------------- the shadow model
struct Model
{
  string ns;
  vector<string> nm;   // names without namespace, in position order
  vector<double> val;
  vector<Itv> con;
  vector<Itv> con0;    // the constraints the parameters were created with
  vector<int> par;     // source of the alias link, -1 = independent

  int n() const { return static_cast<int>(nm.size()); }
  string full(int i) const { return ns + nm[static_cast<size_t>(i)]; }
  string strip(const string& s) const
  {
    if (!ns.empty() && s.size() >= ns.size() && s.compare(0, ns.size(), ns) == 0) return s.substr(ns.size());
    return s;
  }
  int find(const string& shortName) const
  {
    for (int i = 0; i < n(); ++i) if (nm[static_cast<size_t>(i)] == shortName) return i;
    return -1;
  }
  // resolves a name given with or without the namespace
  int resolve(const string& s) const
  {
    int i = find(s);
    if (i >= 0) return i;
    if (!ns.empty() && s.size() > ns.size() && s.compare(0, ns.size(), ns) == 0) return find(s.substr(ns.size()));
    return -1;
  }
  bool isAnc(int a, int d) const // a is a strict ancestor of d
  {
    int steps = 0;
    for (int x = par[static_cast<size_t>(d)]; x >= 0 && steps <= n(); x = par[static_cast<size_t>(x)], ++steps)
      if (x == a) return true;
    return false;
  }
  vector<int> kids(int i) const
  {
    vector<int> k;
    for (int j = 0; j < n(); ++j) if (par[static_cast<size_t>(j)] == i) k.push_back(j);
    return k;
  }
  vector<int> desc(int i) const
  {
    vector<int> d;
    for (int j = 0; j < n(); ++j) if (j != i && isAnc(i, j)) d.push_back(j);
    return d;
  }
  vector<int> ancs(int i) const
  {
    vector<int> a;
    for (int j = 0; j < n(); ++j) if (j != i && isAnc(j, i)) a.push_back(j);
    return a;
  }
  int depthBelow(int a, int d) const // number of links from a down to d (a ancestor of d), 0 if a == d
  {
    int k = 0;
    for (int x = d; x != a && x >= 0; x = par[static_cast<size_t>(x)]) ++k;
    return k;
  }
  int root(int i) const
  {
    int x = i, steps = 0;
    while (par[static_cast<size_t>(x)] >= 0 && steps++ <= n()) x = par[static_cast<size_t>(x)];
    return x;
  }
  int nLinks() const
  {
    int k = 0;
    for (int p : par) if (p >= 0) ++k;
    return k;
  }
  int maxDepth() const
  {
    int d = 0;
    for (int i = 0; i < n(); ++i) d = max(d, depthBelow(root(i), i));
    return d;
  }
  // values accepted by i and by everything aliased to i
  vector<double> domain(int i) const
  {
    vector<int> d = desc(i);
    d.push_back(i);
    vector<double> out;
    for (int pass = 0; pass < 2; ++pass)
      for (double x : (pass == 0 ? valueGrid() : xValue()))
      {
        bool ok = true;
        for (int j : d) ok = ok && okI(con[static_cast<size_t>(j)], x);
        if (ok) out.push_back(x);
      }
    return out;
  }
  string dump() const
  {
    string s = "ns='" + ns + "' {";
    for (int i = 0; i < n(); ++i)
    {
      if (i) s += ", ";
      s += nm[static_cast<size_t>(i)] + "=" + str(val[static_cast<size_t>(i)]) + " " + showI(con[static_cast<size_t>(i)]);
      if (par[static_cast<size_t>(i)] >= 0) s += " <-" + nm[static_cast<size_t>(par[static_cast<size_t>(i)])];
    }
    return s + "}";
  }
};

// what the listener mechanism does (an unchanged parameter forwards nothing)
void eventSet(vector<double>& val, const Model& m, int i, double v)
{
  if (val[static_cast<size_t>(i)] == v) return;
  val[static_cast<size_t>(i)] = v;
  for (int k : m.kids(i)) eventSet(val, m, k, v);
}
// what the statement says (a change of i reaches everything aliased to i)
void stmtSet(vector<double>& val, const Model& m, int i, double v, bool syncWhenUnchanged)
{
  if (val[static_cast<size_t>(i)] == v && !syncWhenUnchanged) return;
  val[static_cast<size_t>(i)] = v;
  for (int k : m.desc(i)) val[static_cast<size_t>(k)] = v;
}

// ---------------------------------------------------------------- live objects
struct Obj
{
  unique_ptr<TD> real;
  Model m;
  string tag;
};

// what an operation allows for the object it acted on
struct Expect
{
  vector<vector<double>> valCands;      // allowed value vectors (first = the documented behaviour); empty = model values
  map<int, pair<Itv, Itv>> conLU;       // parameter -> (must accept at least, may accept at most); absent = exactly the model
  int focus;                            // the parameter the operation acted on (witness class), -1 none
  bool blocked;                         // the update meets a chain member that already holds the new value
  Expect() : valCands(), conLU(), focus(-1), blocked(false) {}
};

struct World
{
  vrt::Case& c;
  vector<unique_ptr<Obj>> live;
  vector<string> hist;
  int nextTag;
  bool avoidStale;
  bool near;            // group `near`: the constraints come from `family`
  vector<Itv> family;   // intervals whose lower and/or upper bounds are pairwise different but almost equal
  World(vrt::Case& cc) : c(cc), live(), hist(), nextTag(0), avoidStale(vrt::known(KNOWN_STALE)), near(false), family()
  {
    xProbe().clear();
    xValue().clear();
  }
  string history() const
  {
    string s;
    for (size_t i = 0; i < hist.size(); ++i) s += (i ? " ; " : "") + hist[i];
    return s;
  }
  void op(const string& text)
  {
    hist.push_back(text);
    vrt::step(text);
  }
};

string nsKey(const Model& m) { return m.ns.empty() ? "ns0" : "ns1"; }

string relation(const Model& m, int focus, int i)
{
  if (focus < 0) return "n/a";
  if (i == focus) return "target";
  if (m.par[static_cast<size_t>(i)] == focus) return "child";
  if (m.isAnc(focus, i)) return "deeper";
  if (m.isAnc(i, focus)) return "ancestor";
  return "unrelated";
}

set<string> stripAll(const Model& m, const vector<string>& v)
{
  set<string> s;
  for (const string& x : v) s.insert(m.strip(x));
  return s;
}
string showSet(const set<string>& s)
{
  string r = "{";
  for (const string& x : s) r += (r.size() > 1 ? "," : "") + x;
  return r + "}";
}

Itv readItv(const Parameter& p)
{
  if (!p.hasConstraint()) return NONE;
  const IntervalConstraint* ic = dynamic_cast<const IntervalConstraint*>(p.getConstraint().get());
  if (!ic) return NONE;
  Itv r = { true, ic->getLowerBound(), ic->getUpperBound(), !ic->strictLowerBound(), !ic->strictUpperBound() };
  return r;
}

// lazy variant of vrt::expect: the class and the witness are only built on failure
template<class C, class W> inline bool chk(bool ok, const char* clause, C cls, W wit)
{
  if (ok) { vrt::counted(clause); return true; }
  vrt::expect(false, clause, cls(), std::function<std::string()>(wit));
  return false;
}

// Compare every observable of one object with its model.  Returns false on the first divergence (the
// history is then abandoned: the model can no longer be trusted).
bool audit(World& w, Obj& o, const string& after, const Expect* ex)
{
  Model& m = o.m;
  const string tag = "after=" + after;
  string api = "getParameters";
  auto wit = [&](const string& what) { return w.history() + " => " + o.tag + ": " + what + " ; model " + m.dump(); };
  try
  {
    const ParameterList& pl = o.real->getParameters();
    // ---- names and values
    if (!chk(pl.size() == static_cast<size_t>(m.n()) && o.real->getNumberOfParameters() == pl.size(), "frame.names", [&] { return string(tag); },
        [&] { return wit("number of parameters " + str(pl.size()) + " expected " + str(m.n())); })) return false;
    vector<double> rv(static_cast<size_t>(m.n()));
    for (int i = 0; i < m.n(); ++i)
    {
      size_t ui = static_cast<size_t>(i);
      if (!chk(pl[ui].getName() == m.full(i), "frame.names", [&] { return string(tag); },
          [&] { return wit("parameter " + str(i) + " is named '" + pl[ui].getName() + "' expected '" + m.full(i) + "'"); })) return false;
      rv[ui] = pl[ui].getValue();
      api = "getParameterValue";
      double byName = o.real->getParameterValue(m.nm[ui]);
      if (!chk(byName == rv[ui] || (std::isnan(byName) && std::isnan(rv[ui])), "frame.names", [&] { return string(tag + ",getParameterValue"); },
          [&] { return wit("getParameterValue('" + m.nm[ui] + "') = " + str(byName) + " but getParameters()[" + str(i) + "] holds " + str(rv[ui])); })) return false;
      api = "hasParameter";
      if (!chk(o.real->hasParameter(m.nm[ui]), "frame.names", [&] { return string(tag + ",hasParameter"); },
          [&] { return wit("hasParameter('" + m.nm[ui] + "') is false"); })) return false;
    }
    {
      vector<vector<double>> cands;
      if (ex && !ex->valCands.empty()) cands = ex->valCands;
      else cands.push_back(m.val);
      int hit = -1;
      for (size_t k = 0; k < cands.size() && hit < 0; ++k) if (cands[k] == rv) hit = static_cast<int>(k);
      if (hit < 0)
      {
        int bad = 0;
        for (int i = 0; i < m.n(); ++i) if (cands[0][static_cast<size_t>(i)] != rv[static_cast<size_t>(i)]) { bad = i; break; }
        string cls = tag + ",who=" + relation(m, ex ? ex->focus : -1, bad) + ((ex && ex->blocked) ? ",mid-already-equal" : "");
        vrt::expect(false, "track.value", cls,
            [&] { return wit("values " + vrt::vecStr(rv) + " expected " + vrt::vecStr(cands[0]) + (cands.size() > 1 ? " (or " + vrt::vecStr(cands[1]) + ")" : "") + ", first difference at '" + m.nm[static_cast<size_t>(bad)] + "'"); });
        return false;
      }
      vrt::counted("track.value", static_cast<vrt::u64>(m.n()));
      if (hit > 0) vrt::tally("open-behaviour:value-candidate-" + str(hit) + ":" + after);
      m.val = cands[static_cast<size_t>(hit)];
    }
    // ---- the independent list
    api = "getIndependentParameters";
    const ParameterList& ip = o.real->getIndependentParameters();
    size_t nInd = o.real->getNumberOfIndependentParameters();
    vector<string> inames = ip.getParameterNames();
    set<string> expInd, gotInd(inames.begin(), inames.end());
    for (int i = 0; i < m.n(); ++i) if (m.par[static_cast<size_t>(i)] < 0) expInd.insert(m.full(i));
    if (!chk(gotInd == expInd && inames.size() == expInd.size() && nInd == inames.size(), "indep.names", [&] { return string(tag); },
        [&] { return wit("independent parameters " + vrt::vecStr(inames) + " (count " + str(nInd) + ") expected " + showSet(expInd)); })) return false;
    for (size_t j = 0; j < ip.size(); ++j)
    {
      int i = m.resolve(inames[j]);
      const Parameter* viaList = ip.getParameter(j).get();
      const Parameter* own = pl.getParameter(static_cast<size_t>(i)).get();
      if (!chk(viaList == own, "indep.identity", [&] { return string(tag); },
          [&] { return wit("independent entry '" + inames[j] + "' is not the object held by getParameters() (value there " + str(own->getValue()) + ", in the independent list " + str(viaList->getValue()) + ")"); })) return false;
    }
    api = "hasIndependentParameter";
    for (int i = 0; i < m.n(); ++i)
    {
      bool h = o.real->hasIndependentParameter(m.nm[static_cast<size_t>(i)]);
      if (!chk(h == (m.par[static_cast<size_t>(i)] < 0), "indep.names", [&] { return string(tag + ",hasIndependentParameter"); },
          [&] { return wit("hasIndependentParameter('" + m.nm[static_cast<size_t>(i)] + "') = " + str(h)); })) return false;
    }
    // ---- alias relations
    api = "getAliases";
    {
      map<string, string> al = o.real->getAliases();
      set<string> keys, expKeys;
      bool valuesOk = true;
      string shown = "{";
      for (auto& kv : al)
      {
        shown += kv.first + "->" + kv.second + " ";
        keys.insert(m.strip(kv.first));
        int k = m.resolve(kv.first), f = m.resolve(kv.second);
        if (k < 0 || f < 0 || !m.isAnc(f, k)) valuesOk = false;
      }
      shown += "}";
      for (int i = 0; i < m.n(); ++i) if (m.par[static_cast<size_t>(i)] >= 0) expKeys.insert(m.nm[static_cast<size_t>(i)]);
      if (!chk(keys == expKeys && keys.size() == al.size() && valuesOk, "links.getAliases", [&] { return string(tag + (keys == expKeys ? ",source" : (keys.size() > expKeys.size() ? ",extra" : ",missing"))); },
          [&] { return wit("getAliases() = " + shown + " expected aliased set " + showSet(expKeys) + " each mapped to one of its sources"); })) return false;
    }
    for (int i = 0; i < m.n(); ++i)
    {
      size_t ui = static_cast<size_t>(i);
      api = "getAlias";
      vector<string> ga = o.real->getAlias(m.nm[ui]);
      set<string> got = stripAll(m, ga), expD;
      vector<int> d = m.desc(i);
      for (int j : d) expD.insert(m.nm[static_cast<size_t>(j)]);
      bool chain = d.size() != m.kids(i).size();
      if (!chk(got == expD && ga.size() == expD.size(), "links.getAlias", [&] { return string(tag + "," + nsKey(m) + (chain ? ",chain" : ",direct")); },
          [&] { return wit("getAlias('" + m.nm[ui] + "') = " + vrt::vecStr(ga) + " expected " + showSet(expD)); })) return false;
      api = "getFrom";
      string f1 = m.strip(o.real->getFrom(m.full(i)));
      string f2 = m.strip(o.real->getFrom(m.nm[ui]));
      string expF = m.par[ui] >= 0 ? m.nm[static_cast<size_t>(m.par[ui])] : "";
      bool okF = (f1 == expF || f2 == expF) && (f1 == expF || f1.empty()) && (f2 == expF || f2.empty());
      if (!chk(okF, "links.getFrom", [&] { return string(tag + "," + nsKey(m) + (expF.empty() ? ",independent" : ",aliased")); },
          [&] { return wit("getFrom('" + m.full(i) + "') = '" + f1 + "', getFrom('" + m.nm[ui] + "') = '" + f2 + "' expected '" + expF + "'"); })) return false;
    }
    if (m.ns.empty())
    {
      for (int i = 0; i < m.n(); ++i)
      {
        size_t ui = static_cast<size_t>(i);
        ParameterList one;
        one.addParameter(new Parameter(m.full(i), 0.));
        api = "getAliasedParameters";
        set<string> gotA = stripAll(m, o.real->getAliasedParameters(one).getParameterNames()), expA;
        for (int j : m.desc(i)) expA.insert(m.nm[static_cast<size_t>(j)]);
        gotA.erase(m.nm[ui]);
        if (!chk(gotA == expA, "links.getAliasedParameters", [&] { return string(tag); },
            [&] { return wit("getAliasedParameters({" + m.nm[ui] + "}) = " + showSet(gotA) + " expected " + showSet(expA)); })) return false;
        api = "getFromParameters";
        set<string> gotF = stripAll(m, o.real->getFromParameters(one).getParameterNames()), expF;
        for (int j : m.ancs(i)) expF.insert(m.nm[static_cast<size_t>(j)]);
        gotF.erase(m.nm[ui]);
        if (!chk(gotF == expF, "links.getFromParameters", [&] { return string(tag); },
            [&] { return wit("getFromParameters({" + m.nm[ui] + "}) = " + showSet(gotF) + " expected " + showSet(expF)); })) return false;
      }
    }
    // ---- constraints: acceptance on the probe grid
    api = "getConstraint";
    for (int i = 0; i < m.n(); ++i)
    {
      size_t ui = static_cast<size_t>(i);
      Itv L = m.con[ui], U = m.con[ui];
      if (ex)
      {
        auto it = ex->conLU.find(i);
        if (it != ex->conLU.end()) { L = it->second.first; U = it->second.second; }
      }
      const Parameter& p = o.real->parameter(m.nm[ui]);
      bool has = p.hasConstraint();
      Itv rb = readItv(p);
      const vector<double>& grid0 = probeGrid();
      const vector<double>& grid1 = xProbe();
      const size_t nProbe = grid0.size() + grid1.size();
      std::shared_ptr<const ConstraintInterface> rc = p.getConstraint();
      for (size_t g = 0; g < nProbe; ++g)
      {
        double x = g < grid0.size() ? grid0[g] : grid1[g - grid0.size()];
        bool r = !has || rc->isCorrect(x);
        bool tooNarrow = okI(L, x) && !r, tooWide = r && !okI(U, x);
        if (tooNarrow || tooWide)
        {
          string end = (ex && ex->focus == i) ? "aliased-end" : (ex && ex->focus >= 0 && m.par[static_cast<size_t>(ex->focus)] == i) ? "source-end" : "other";
          vrt::expect(false, "constraint.acceptance", tag + ",end=" + end + (tooWide ? ",too-wide" : ",too-narrow"),
              [&] { return wit("'" + m.nm[ui] + "' with constraint " + (has ? rc->getDescription() : string("none")) + (r ? " accepts " : " rejects ") + str(x) + "; expected " + showI(L) + (sameI(L, U) ? "" : " up to " + showI(U))); });
          return false;
        }
        if (r != okI(rb, x))
        {
          vrt::expect(false, "constraint.acceptance", tag + ",bounds-accessors-disagree",
              [&] { return wit("'" + m.nm[ui] + "': isCorrect(" + str(x) + ")=" + str(r) + " disagrees with its bounds " + showI(rb)); });
          return false;
        }
      }
      vrt::counted("constraint.acceptance", 2 * nProbe);
      m.con[ui] = rb;
    }
  }
  catch (bpp::Exception& e)
  {
    vrt::expect(false, "observe.raised", tag + ",api=" + api, [&] { return wit(api + " raised " + vrt::typeName(typeid(e)) + ": " + e.what()); });
    return false;
  }
  catch (std::exception& e)
  {
    vrt::expect(false, "observe.raised", tag + ",api=" + api, [&] { return wit(api + " raised " + vrt::typeName(typeid(e)) + ": " + e.what()); });
    return false;
  }
  return true;
}

// audit every live object; `target` is the one the operation acted on
bool auditAll(World& w, Obj* target, const string& after, const Expect* ex)
{
  for (auto& o : w.live)
  {
    bool isT = o.get() == target;
    if (!audit(w, *o, isT ? after : after + "@bystander", isT ? ex : nullptr)) return false;
  }
  return true;
}

// ---------------------------------------------------------------- construction
const vector<string>& namePool()
{
  static const vector<string> p = { "a", "b", "c", "d", "e", "f", "alpha", "kappa", "p1", "p2", "theta", "x", "mu", "rate" };
  return p;
}
const vector<string>& nsPool()
{
  static const vector<string> p = { "", "ns.", "m1.", "ns.sub." };
  return p;
}

// ---- group `near`: a family of six intervals around one base interval.  On the "near" side(s) the six bounds are
// pairwise different but differ from the base by 0, a few ulps, 1e-15 .. 9e-13 (inside the default precision of
// an interval, 1e-12), sometimes 2e-12 or 1e-9; on a "far" side they are either one common bound with one common
// flag, or clearly different.  Open/closed flags are free (no two members share a bound on a near side).  Also
// fills the case-local probes (every bound, its two neighbours, the midpoints between neighbouring bounds, i.e.
// values inside one member and outside the other) and values (bounds, neighbours, interior points).
// six pairwise different bounds around `base`: 0, a few ulps, 1e-15 .. 9e-13, sometimes 2e-12 or 1e-9 away
vector<double> perturbedBounds(vrt::Rng& r, double base, size_t N)
{
  static const double absDeltas[] = { 1e-15, 1e-14, 1e-13, 3e-13, 5e-13, 9e-13 };
  vector<double> out;
  for (int tries = 0; out.size() < N && tries < 200; ++tries)
  {
    double b = base;
    double k = r.unit();
    bool up = r.chance(0.5);
    if (k < 0.12) {}
    else if (k < 0.45)
    {
      static const int steps[] = { 1, 2, 3, 7 };
      int s = steps[r.below(4)];
      for (int q = 0; q < s; ++q) b = std::nextafter(b, up ? INF : -INF);
    }
    else if (k < 0.88) b = base + (up ? 1. : -1.) * absDeltas[r.below(6)];
    else b = base + (up ? 1. : -1.) * (r.chance(0.5) ? 2e-12 : 1e-9);
    if (find(out.begin(), out.end(), b) == out.end()) out.push_back(b);
  }
  return out;
}

// case-local probes (every finite bound, its two neighbouring doubles, the midpoints between neighbouring bounds,
// base +-1e-11, +-0.125, three interior points) and values (bounds, neighbours, midpoints, interior points)
void fillCaseGrids(const vector<double>& los, const vector<double>& his, double bL, double bH)
{
  vector<double>& xp = xProbe();
  vector<double>& xv = xValue();
  for (int side = 0; side < 2; ++side)
  {
    vector<double> b = side == 0 ? los : his;
    double base = side == 0 ? bL : bH;
    sort(b.begin(), b.end());
    b.erase(unique(b.begin(), b.end()), b.end());
    for (size_t i = 0; i < b.size(); ++i)
    {
      if (!std::isfinite(b[i])) continue;
      for (double x : { std::nextafter(b[i], -INF), b[i], std::nextafter(b[i], INF) }) { xp.push_back(x); xv.push_back(x); }
      if (i + 1 < b.size() && std::isfinite(b[i + 1])) { double mid = b[i] + 0.5 * (b[i + 1] - b[i]); xp.push_back(mid); xv.push_back(mid); }
    }
    for (double x : { base - 0.125, base - 1e-11, base + 1e-11, base + 0.125 }) xp.push_back(x);
  }
  for (double t : { 0.25, 0.5, 0.75 }) { double x = bL + t * (bH - bL); xp.push_back(x); xv.push_back(x); }
  sort(xp.begin(), xp.end());
  xp.erase(unique(xp.begin(), xp.end()), xp.end());
  sort(xv.begin(), xv.end());
  xv.erase(unique(xv.begin(), xv.end()), xv.end());
}

void makeFamily(World& w)
{
  vrt::Rng& r = w.c.rng;
  static const double lowBases[] = { 0., 0., 1e-9, -3e-8, 2.5e-7, 0.75, -1.5, 0.1 };
  static const double upBases[] = { 0., 0., -1e-9, 3e-8, -2.5e-7, 3.25, 4.5, 0.3 };
  const size_t N = 6;
  int shape = static_cast<int>(r.below(5)); // 0,1: lower side near; 2,3: upper side near; 4: both
  bool nearL = shape <= 1 || shape == 4, nearH = shape >= 2;
  double bL, bH;
  if (nearL && nearH)
  {
    if (r.chance(0.25)) { bL = -3e-8; bH = 3e-8; }
    else { bL = lowBases[r.below(7)]; bH = r.chance(0.5) ? 3.25 : 4.5; }
  }
  else if (nearL) { bL = lowBases[r.below(8)]; bH = 4.25; }
  else { bH = upBases[r.below(8)]; bL = -4.25; }
  auto perturbed = [&](double base) { return perturbedBounds(r, base, N); };
  auto farSide = [&](double base, double dir) {
      vector<double> out;
      int kind = static_cast<int>(r.below(3)); // one common bound, clearly different bounds, no bound
      for (size_t i = 0; i < N; ++i) out.push_back(kind == 0 ? base : kind == 1 ? base + dir * 0.5 * static_cast<double>(i) : dir * INF);
      return out;
    };
  vector<double> los = nearL ? perturbed(bL) : farSide(bL, -1.), his = nearH ? perturbed(bH) : farSide(bH, 1.);
  bool farFlag = r.chance(0.5);
  w.family.clear();
  for (size_t i = 0; i < N && i < los.size() && i < his.size(); ++i)
  {
    Itv c = { true, los[i], his[i], nearL ? r.chance(0.5) : (std::isfinite(los[i]) && farFlag), nearH ? r.chance(0.5) : (std::isfinite(his[i]) && farFlag) };
    // a far side made of clearly different bounds may have any flags
    if (!nearL && std::isfinite(los[i]) && los[0] != los[N - 1]) c.il = r.chance(0.5);
    if (!nearH && std::isfinite(his[i]) && his[0] != his[N - 1]) c.iu = r.chance(0.5);
    w.family.push_back(c);
  }
  fillCaseGrids(los, his, bL, bH);
}

// ---- group `flags`: a family of six intervals that share a bound VALUE on one or both sides and differ there only
// in the open/closed flag (drawn per member, so identical members occur too).  The other side is again a shared
// bound (flags free), one common bound with one common flag, clearly different bounds (flags free), unbounded, or
// almost equal bounds (as in group `near`).  The intersection of two members with an equal bound includes that
// bound only if both do (interI); every audit probes each bound and its two neighbouring doubles, and the update
// values include the bounds themselves.
void makeFlagFamily(World& w)
{
  vrt::Rng& r = w.c.rng;
  static const double bases[][2] = { { 0., 1. }, { -1.5, 4.5 }, { 0.75, 3.25 }, { -3e-8, 3e-8 }, { 0., 4.25 }, { -4.25, 0. }, { 1e-9, 2. }, { 0.5, 3.5 }, { 0.1, 0.3 } };
  const size_t N = 6;
  const size_t bi = r.below(sizeof(bases) / sizeof(bases[0]));
  const double bL = bases[bi][0], bH = bases[bi][1];
  int shape = static_cast<int>(r.below(4)); // 0: lower side shared, 1: upper side shared, 2,3: both
  // side modes: 0 shared bound / flags free, 1 common bound / common flag, 2 clearly different / flags free,
  //             3 unbounded, 4 almost equal / flags free
  int modeL = (shape == 0 || shape >= 2) ? 0 : 1 + static_cast<int>(r.below(4));
  int modeH = (shape >= 1) ? 0 : 1 + static_cast<int>(r.below(4));
  auto side = [&](int mode, double base, double dir) {
      if (mode == 4) return perturbedBounds(r, base, N);
      vector<double> out;
      for (size_t i = 0; i < N; ++i) out.push_back(mode <= 1 ? base : mode == 2 ? base + dir * 0.5 * static_cast<double>(i) : dir * INF);
      return out;
    };
  vector<double> los = side(modeL, bL, -1.), his = side(modeH, bH, 1.);
  bool commonL = r.chance(0.5), commonH = r.chance(0.5);
  w.family.clear();
  for (size_t i = 0; i < N && i < los.size() && i < his.size(); ++i)
  {
    bool fl = r.chance(0.5), fh = r.chance(0.5);
    Itv c = { true, los[i], his[i],
              modeL == 3 ? false : modeL == 1 ? commonL : fl,
              modeH == 3 ? false : modeH == 1 ? commonH : fh };
    w.family.push_back(c);
  }
  fillCaseGrids(los, his, bL, bH);
}

Obj* makeObject(World& w, int n, const string& ns, bool constrained)
{
  vrt::Rng& r = w.c.rng;
  unique_ptr<Obj> o(new Obj());
  o->tag = "o" + str(w.nextTag++);
  o->m.ns = ns;
  vector<string> names = namePool();
  r.shuffle(names);
  o->real.reset(new TD(ns));
  string text = o->tag + " = new('" + ns + "'";
  vector<size_t> fam;
  if (w.near)
  {
    for (size_t i = 0; i < w.family.size(); ++i) fam.push_back(i);
    r.shuffle(fam);
  }
  for (int i = 0; i < n; ++i)
  {
    Itv c;
    vector<double> cand;
    if (w.near)
    {
      // members of the family, each at most once per object (group near: their bounds are pairwise different;
      // group flags: they differ in the open/closed flags of a shared bound, or not at all); values mostly
      // inside every member so that most alias requests are inside the quantifier
      c = r.chance(0.12) ? NONE : w.family[fam[static_cast<size_t>(i) % fam.size()]];
      bool common = r.chance(0.8);
      for (int pass = 0; pass < 2; ++pass)
        for (double x : (pass == 0 ? valueGrid() : xValue()))
        {
          bool ok = okI(c, x);
          if (common) for (const Itv& f : w.family) ok = ok && okI(f, x);
          if (ok) cand.push_back(x);
        }
      if (cand.empty())
        for (int pass = 0; pass < 2; ++pass)
          for (double x : (pass == 0 ? valueGrid() : xValue())) if (okI(c, x)) cand.push_back(x);
    }
    else
    {
      c = constrained ? pool()[r.below(pool().size())] : NONE;
      bool core = r.chance(0.7);
      for (double x : valueGrid()) if (okI(c, x) && (!core || (x >= 0.5 && x <= 3.5))) cand.push_back(x);
    }
    double v = cand[r.below(cand.size())];
    o->m.nm.push_back(names[static_cast<size_t>(i)]);
    o->m.val.push_back(v);
    o->m.con.push_back(c);
    o->m.con0.push_back(c);
    o->m.par.push_back(-1);
    o->real->add(new Parameter(ns + names[static_cast<size_t>(i)], v, mkCon(c)));
    text += ", " + names[static_cast<size_t>(i)] + "=" + str(v) + " " + showI(c);
  }
  text += ")";
  w.op(text);
  Obj* raw = o.get();
  w.live.push_back(std::move(o));
  return raw;
}

// ---------------------------------------------------------------- operations
// pairwise alias: p2 becomes aliased to p1
bool opAlias(World& w, Obj& o, int p1, int p2)
{
  Model& m = o.m;
  size_t u1 = static_cast<size_t>(p1), u2 = static_cast<size_t>(p2);
  bool dbl = m.par[u2] >= 0;
  bool cyc = p1 == p2 || m.isAnc(p2, p1);
  int len = cyc ? m.depthBelow(p2, p1) + 1 : 0;
  w.op(o.tag + ".aliasParameters(" + m.nm[u1] + "," + m.nm[u2] + ")");
  // Two different constraints whose descriptions (6 significant digits) read the same - only possible with
  // almost equal bounds.  They are different constraints all the same: the pair has its own witness class
  // (cons=both-same-description) and is judged like every other pair (both ends accept exactly the intersection).
  bool sameDesc = false;
  if (m.con[u1].has && m.con[u2].has && !sameI(m.con[u1], m.con[u2]))
    vrt::capture([&] {
        sameDesc = o.real->parameter(m.nm[u1]).getConstraint()->getDescription() == o.real->parameter(m.nm[u2]).getConstraint()->getDescription();
      });
  vrt::Outcome oc = vrt::capture([&] { o.real->aliasParameters(m.nm[u1], m.nm[u2]); });
  if (dbl || cyc)
  {
    string cls;
    if (dbl) cls = string("double:") + (m.par[u2] == p1 ? "same-source" : "other-source") + (cyc ? "+cycle" : "");
    else cls = string("cycle:") + (len == 1 ? "self" : len == 2 ? "len2" : "len>=3");
    vrt::cover("alias:refused:" + cls + ":" + nsKey(m));
    vrt::tally("refusal-outcome:" + (oc.returned() ? string("returned") : oc.type));
    if (!vrt::expect(!oc.returned(), "refuse.raises", cls,
        [&] { return w.history() + " => the request was accepted (" + (dbl ? string("'") + m.nm[u2] + "' is already aliased" : "it closes a cycle of " + str(len) + " link(s)") + ") ; model " + m.dump(); })) return false;
    return auditAll(w, &o, "alias-refused:" + cls, nullptr);
  }
  bool c1 = m.con[u1].has, c2 = m.con[u2].has;
  bool nearPair = c1 && c2 && (nearBound(m.con[u1].lo, m.con[u2].lo) || nearBound(m.con[u1].hi, m.con[u2].hi));
  // the same bound value on some side, included by one constraint and excluded by the other (only group `flags`
  // builds such pairs): different constraints, the intersection excludes that bound
  bool flagPair = c1 && c2 && ((m.con[u1].lo == m.con[u2].lo && m.con[u1].il != m.con[u2].il) || (m.con[u1].hi == m.con[u2].hi && m.con[u1].iu != m.con[u2].iu));
  string kind = c1 && c2 ? (sameI(m.con[u1], m.con[u2]) ? "both-same" : sameDesc ? "both-same-description" : flagPair ? "both-equal-bound-other-flag" : nearPair ? "both-near" : "both") : c1 ? "source-only" : c2 ? "aliased-only" : "none";
  vrt::cover("alias:valid:cons=" + kind + ":srcdepth" + str(min(3, m.depthBelow(m.root(p1), p1))) + ":subtree" + str(min<size_t>(3, m.desc(p2).size())) + ":" + nsKey(m));
  if (!vrt::expect(oc.returned(), "alias.accepts-valid", "cons=" + kind, [&] { return w.history() + " => " + oc.text() + " ; model " + m.dump(); })) return false;
  Expect ex;
  ex.focus = p2;
  Itv nc = interI(m.con[u1], m.con[u2]);
  if (c1 && c2) { ex.conLU[p1] = make_pair(nc, nc); ex.conLU[p2] = make_pair(nc, nc); }
  else if (c2) { ex.conLU[p1] = make_pair(m.con[u2], m.con[u2]); }
  else if (c1) { ex.conLU[p2] = make_pair(m.con[u1], NONE); }
  m.par[u2] = p1;
  ex.valCands.push_back(m.val);
  if (m.val[u1] != m.val[u2])
  {
    vector<double> synced = m.val;
    stmtSet(synced, m, p2, m.val[u1], false);
    ex.valCands.push_back(synced);
  }
  if (!auditAll(w, &o, "alias:cons=" + kind, &ex)) return false;
  if (c1 && c2)
  {
    string d1 = o.real->parameter(m.nm[u1]).getConstraint()->getDescription(), d2 = o.real->parameter(m.nm[u2]).getConstraint()->getDescription();
    if (!vrt::expect(d1 == d2, "constraint.shared-description", "cons=" + kind, [&] { return w.history() + " => descriptions '" + d1 + "' and '" + d2 + "' differ"; })) return false;
  }
  return true;
}

bool opUnalias(World& w, Obj& o, int p1, int p2)
{
  Model& m = o.m;
  size_t u1 = static_cast<size_t>(p1), u2 = static_cast<size_t>(p2);
  bool linked = m.par[u2] == p1;
  w.op(o.tag + ".unaliasParameters(" + m.nm[u1] + "," + m.nm[u2] + ")");
  vrt::Outcome oc = vrt::capture([&] { o.real->unaliasParameters(m.nm[u1], m.nm[u2]); });
  if (!linked)
  {
    vrt::cover("unalias:not-linked:" + string(m.par[u2] >= 0 ? "aliased-elsewhere" : m.par[u1] == p2 ? "reversed" : "independent"));
    vrt::tally("unalias-not-linked-outcome:" + (oc.returned() ? string("returned") : oc.type));
    return auditAll(w, &o, "unalias-not-linked", nullptr);
  }
  vrt::cover("unalias:srcdepth" + str(min(3, m.depthBelow(m.root(p1), p1))) + ":subtree" + str(min<size_t>(3, m.desc(p2).size())) + ":siblings" + str(min<size_t>(2, m.kids(p1).size() - 1)) + ":" + nsKey(m));
  if (!vrt::expect(oc.returned(), "unalias.accepts-valid", "linked", [&] { return w.history() + " => " + oc.text() + " ; model " + m.dump(); })) return false;
  Expect ex;
  ex.focus = p2;
  ex.conLU[p1] = make_pair(m.con[u1], NONE);
  ex.conLU[p2] = make_pair(m.con[u2], NONE);
  m.par[u2] = -1;
  return auditAll(w, &o, "unalias", &ex);
}

// one or several (parameter, value) assignments through one of the update routes
struct Assign { int i; double v; };

bool opSet(World& w, Obj& o, const string& route, const vector<Assign>& as)
{
  Model& m = o.m;
  // the three readings of the request
  vector<double> ev = m.val, st = m.val, sy = m.val;
  for (const Assign& a : as) { eventSet(ev, m, a.i, a.v); stmtSet(st, m, a.i, a.v, false); stmtSet(sy, m, a.i, a.v, true); }
  Expect ex;
  ex.focus = as.empty() ? -1 : as[0].i;
  ex.blocked = ev != st;
  ex.valCands.push_back(st);
  if (sy != st) ex.valCands.push_back(sy);
  string text = o.tag + "." + route + "(";
  for (size_t k = 0; k < as.size(); ++k) text += (k ? "," : "") + m.nm[static_cast<size_t>(as[k].i)] + "=" + str(as[k].v);
  w.op(text + ")");
  bool changes = st != m.val;
  if (!as.empty())
  {
    int i = as[0].i;
    vrt::cover("set:" + route + ":" + (m.par[static_cast<size_t>(i)] < 0 ? "independent" : "aliased") + ":below" + str(min<size_t>(3, m.desc(i).size())) + ":depth" + str(min(3, m.maxDepth())) + (changes ? "" : ":nochange") + ":" + nsKey(m));
  }
  auto plOf = [&](bool withUnknown) {
      ParameterList pl;
      for (const Assign& a : as) pl.addParameter(new Parameter(m.full(a.i), a.v));
      if (withUnknown) pl.addParameter(new Parameter(m.ns + "unknown", 1.));
      return pl;
    };
  vrt::Outcome oc;
  if (route == "setParameterValue")
    oc = vrt::capture([&] { o.real->setParameterValue(m.nm[static_cast<size_t>(as[0].i)], as[0].v); });
  else if (route == "setParametersValues")
    oc = vrt::capture([&] { ParameterList pl = plOf(false); o.real->setParametersValues(pl); });
  else if (route == "setAllParametersValues")
    oc = vrt::capture([&] { ParameterList pl = plOf(false); o.real->setAllParametersValues(pl); });
  else if (route == "matchParametersValues")
    oc = vrt::capture([&] { ParameterList pl = plOf(true); o.real->matchParametersValues(pl); });
  else if (route == "independent-handle")
    oc = vrt::capture([&] {
        // write through the object listed by getIndependentParameters()
        const ParameterList& ip = o.real->getIndependentParameters();
        ip.getParameter(m.full(as[0].i))->setValue(as[0].v);
      });
  else if (route == "independent-copy-match")
    oc = vrt::capture([&] {
        // the optimiser idiom: copy the independent list, change the copy, match it back
        ParameterList pl(o.real->getIndependentParameters());
        pl.setParameterValue(m.full(as[0].i), as[0].v);
        o.real->matchParametersValues(pl);
      });
  else
    throw Exception("harness: unknown route " + route);
  if (!vrt::expect(oc.returned(), "update.returns", "route=" + route, [&] { return w.history() + " => " + oc.text() + " ; model " + m.dump(); })) return false;
  return auditAll(w, &o, "set:" + route, &ex);
}

bool opNamespace(World& w, Obj& o, const string& ns)
{
  Model& m = o.m;
  w.op(o.tag + ".setNamespace('" + ns + "')");
  vrt::cover("ns:" + string(m.ns.empty() ? "empty" : "set") + "->" + (ns.empty() ? "empty" : ns == m.ns ? "same" : ns.compare(0, m.ns.size(), m.ns) == 0 ? "extended" : "other") + ":links" + str(min(3, m.nLinks())));
  vrt::Outcome oc = vrt::capture([&] { o.real->setNamespace(ns); });
  if (!vrt::expect(oc.returned(), "namespace.returns", "setNamespace", [&] { return w.history() + " => " + oc.text(); })) return false;
  m.ns = ns;
  return auditAll(w, &o, "setNamespace", nullptr);
}

bool opCopy(World& w, Obj& src, bool viaClone)
{
  unique_ptr<Obj> o(new Obj());
  o->tag = "o" + str(w.nextTag++);
  o->m = src.m;
  w.op(o->tag + (viaClone ? " = clone(" : " = copy(") + src.tag + ")");
  vrt::cover("copy:links" + str(min(3, src.m.nLinks())) + ":depth" + str(min(3, src.m.maxDepth())) + ":" + nsKey(src.m));
  vrt::Outcome oc = vrt::capture([&] { o->real.reset(viaClone ? src.real->clone() : new TD(*src.real)); });
  if (!vrt::expect(oc.returned(), "copy.returns", "copy-construct", [&] { return w.history() + " => " + oc.text(); })) return false;
  Obj* raw = o.get();
  w.live.push_back(std::move(o));
  return auditAll(w, raw, "copy-construct", nullptr);
}

bool opAssign(World& w, Obj& dst, Obj& src)
{
  w.op(dst.tag + " = " + src.tag);
  bool self = &dst == &src;
  vrt::cover("assign:" + string(self ? "self" : "other") + ":srclinks" + str(min(3, src.m.nLinks())) + ":dstlinks" + str(min(3, dst.m.nLinks())) +
      (dst.m.n() == src.m.n() ? ":samesize" : dst.m.n() < src.m.n() ? ":grow" : ":shrink") + (dst.m.ns == src.m.ns ? "" : ":otherns"));
  vrt::Outcome oc = vrt::capture([&] { *dst.real = *src.real; });
  if (!vrt::expect(oc.returned(), "copy.returns", "assign", [&] { return w.history() + " => " + oc.text(); })) return false;
  if (!self) dst.m = src.m;
  return auditAll(w, &dst, self ? "self-assign" : "assign", nullptr);
}

bool opDestroy(World& w, size_t k)
{
  w.op("destroy " + w.live[k]->tag);
  vrt::cover("destroy:links" + str(min(3, w.live[k]->m.nLinks())));
  w.live.erase(w.live.begin() + static_cast<ptrdiff_t>(k));
  return auditAll(w, nullptr, "destroy", nullptr);
}

// ---- bulk aliasing from a map (key = aliased parameter, value = its source)
struct BulkPlan
{
  map<string, string> mp;
  string shape;     // structural class
  bool valid;       // every name known, every key independent, no cycle
  string reason;    // why not valid
  vector<pair<int, int>> links; // (key, source) for resolvable entries
};

void classifyBulk(const Model& m, BulkPlan& bp)
{
  bp.valid = true;
  bp.links.clear();
  bool unknown = false, dbl = false, self = false;
  vector<int> par = m.par;
  for (auto& kv : bp.mp)
  {
    int k = m.resolve(kv.first), s = m.resolve(kv.second);
    if (k < 0 || s < 0) { unknown = true; continue; }
    bp.links.push_back(make_pair(k, s));
    if (m.par[static_cast<size_t>(k)] >= 0) { dbl = true; continue; }
    if (k == s) self = true;
    par[static_cast<size_t>(k)] = s;
  }
  bool cyc = false;
  for (int i = 0; i < m.n(); ++i)
  {
    int x = i, steps = 0;
    while (x >= 0 && steps <= m.n() + 1) { x = par[static_cast<size_t>(x)]; ++steps; }
    if (x >= 0) cyc = true;
  }
  // does some entry have to wait for another entry of the map (source is a key handled later, or never)?
  bool deferred = false;
  {
    set<string> pending;
    for (auto& kv : bp.mp) pending.insert(kv.first);
    for (auto& kv : bp.mp)
    {
      if (pending.count(kv.second)) deferred = true;
      else pending.erase(kv.first);
    }
  }
  if (unknown) { bp.valid = false; bp.reason = "unknown-name"; }
  else if (dbl) { bp.valid = false; bp.reason = "double"; }
  else if (self) { bp.valid = false; bp.reason = "cycle:self"; }
  else if (cyc) { bp.valid = false; bp.reason = "cycle"; }
  else bp.reason = "valid";
  bp.shape = "bulk:" + bp.reason + (bp.mp.empty() ? ":empty" : deferred ? ":deferred" : ":inorder") + ":" + nsKey(m);
}

// in-quantifier test for a valid plan: every current value of a final component lies inside the
// intersection of all constraints of that component
bool bulkInQuantifier(const Model& m, const BulkPlan& bp)
{
  // components of the undirected graph made of the existing links and every resolvable entry of the map
  // (also the entries of a map that must be refused: some of them may be performed before the refusal)
  vector<int> comp(static_cast<size_t>(m.n()));
  for (int i = 0; i < m.n(); ++i) comp[static_cast<size_t>(i)] = i;
  auto join = [&](int a, int b) {
      int ca = comp[static_cast<size_t>(a)], cb = comp[static_cast<size_t>(b)];
      if (ca != cb) for (int& x : comp) if (x == cb) x = ca;
    };
  for (int i = 0; i < m.n(); ++i) if (m.par[static_cast<size_t>(i)] >= 0) join(i, m.par[static_cast<size_t>(i)]);
  for (auto& l : bp.links) join(l.first, l.second);
  for (int i = 0; i < m.n(); ++i)
    for (int j = 0; j < m.n(); ++j)
      if (comp[static_cast<size_t>(i)] == comp[static_cast<size_t>(j)] && !okI(m.con[static_cast<size_t>(j)], m.val[static_cast<size_t>(i)])) return false;
  return true;
}

// value vectors for "every key takes its source's value" in the two mechanisms
void bulkSync(const Model& after, const vector<pair<int, int>>& links, vector<double>& st, vector<double>& ev)
{
  // topological order: sources first
  vector<pair<int, int>> todo = links, order;
  set<int> pendingKeys;
  for (auto& l : todo) pendingKeys.insert(l.first);
  while (!todo.empty())
  {
    bool progress = false;
    for (size_t k = 0; k < todo.size();)
    {
      if (!pendingKeys.count(todo[k].second)) { order.push_back(todo[k]); pendingKeys.erase(todo[k].first); todo.erase(todo.begin() + static_cast<ptrdiff_t>(k)); progress = true; }
      else ++k;
    }
    if (!progress) break;
  }
  for (auto& l : order)
  {
    stmtSet(st, after, l.first, st[static_cast<size_t>(l.second)], false);
    eventSet(ev, after, l.first, ev[static_cast<size_t>(l.second)]);
  }
}

bool opBulk(World& w, Obj& o, BulkPlan& bp, bool verbose)
{
  Model& m = o.m;
  string text = o.tag + ".aliasParameters({";
  for (auto& kv : bp.mp) text += kv.first + "->" + kv.second + " ";
  text += "})";
  vrt::describe(bp.shape, "history with a bulk alias; state before it: " + m.dump() + " ; request " + text);
  w.op(text);
  vrt::cover(bp.shape + ":entries" + str(min<size_t>(4, bp.mp.size())) + ":prelinks" + str(min(2, m.nLinks())));
  map<string, string> arg = bp.mp;
  vrt::Outcome oc = vrt::capture([&] { o.real->aliasParameters(arg, verbose); });
  vrt::counted("bulk.terminates");
  vrt::tally("bulk-outcome:" + bp.reason + ":" + nsKey(m) + ":" + (oc.returned() ? string("returned") : oc.type));
  // which links were performed
  vector<pair<int, int>> done;
  if (oc.returned())
  {
    if (!vrt::expect(bp.valid, "refuse.bulk", bp.reason, [&] { return w.history() + " => returned although the map is not performable (" + bp.reason + ") ; model " + m.dump(); })) return false;
    done = bp.links;
  }
  else
  {
    if (bp.valid && m.ns.empty() && !bp.mp.empty())
    {
      vrt::expect(false, "bulk.performs-valid", "valid", [&] { return w.history() + " => " + oc.text() + " for a performable map ; model " + m.dump(); });
      return false;
    }
    vrt::counted("bulk.performs-valid", 0);
    for (auto& l : bp.links)
    {
      bool indepNow = true;
      vrt::Outcome q = vrt::capture([&] { indepNow = o.real->hasIndependentParameter(m.nm[static_cast<size_t>(l.first)]); });
      if (m.par[static_cast<size_t>(l.first)] < 0 && q.returned() && !indepNow) done.push_back(l);
    }
    // the performed part must itself be a forest
    Model t = m;
    for (auto& l : done) t.par[static_cast<size_t>(l.first)] = l.second;
    bool loop = false;
    for (int i = 0; i < t.n(); ++i)
    {
      int x = i, steps = 0;
      while (x >= 0 && steps <= t.n() + 1) { x = t.par[static_cast<size_t>(x)]; ++steps; }
      if (x >= 0) loop = true;
    }
    if (!vrt::expect(!loop, "refuse.bulk", bp.reason + ",partial-state-has-cycle", [&] { return w.history() + " => " + oc.text() + " but the links performed before raising form a cycle ; model " + m.dump(); })) return false;
  }
  if (oc.returned() && bp.valid) vrt::counted("bulk.performs-valid");
  Expect ex;
  Model before = m;
  for (auto& l : done) m.par[static_cast<size_t>(l.first)] = l.second;
  // constraints: between the intersection over the final component and what each end had
  set<int> touched;
  for (auto& l : done) { touched.insert(m.root(l.first)); }
  for (int i = 0; i < m.n(); ++i)
  {
    if (!touched.count(m.root(i))) continue;
    Itv all = NONE;
    for (int j = 0; j < m.n(); ++j) if (m.root(j) == m.root(i)) all = interI(all, before.con[static_cast<size_t>(j)]);
    ex.conLU[i] = make_pair(all, before.con[static_cast<size_t>(i)]);
  }
  for (auto& l : done)
  {
    const Itv& ck = before.con[static_cast<size_t>(l.first)];
    const Itv& cs = before.con[static_cast<size_t>(l.second)];
    if (ck.has) ex.conLU[l.second].second = interI(ex.conLU[l.second].second, ck);
    if (ck.has && cs.has) ex.conLU[l.first].second = interI(ex.conLU[l.first].second, cs);
  }
  vector<double> st = m.val, ev = m.val;
  bulkSync(m, done, st, ev);
  ex.blocked = st != ev;
  if (oc.returned()) { ex.valCands.push_back(st); if (st != m.val) ex.valCands.push_back(m.val); }
  else { ex.valCands.push_back(m.val); if (st != m.val) ex.valCands.push_back(st); }
  ex.focus = done.empty() ? -1 : done[0].first;
  return auditAll(w, &o, oc.returned() ? "bulk-alias" : "bulk-alias-raised", &ex);
}

// ---------------------------------------------------------------- generators
bool aliasInQuantifier(const Model& m, int p1, int p2)
{
  size_t u1 = static_cast<size_t>(p1), u2 = static_cast<size_t>(p2);
  Itv nc = interI(m.con[u1], m.con[u2]);
  if (m.con[u2].has) return okI(nc, m.val[u1]) && okI(nc, m.val[u2]);
  return true;
}

bool genAlias(World& w, Obj& o, bool forceValid = false)
{
  vrt::Rng& r = w.c.rng;
  Model& m = o.m;
  int n = m.n();
  double k = r.unit();
  if (forceValid) k = 0.;
  for (int attempt = 0; attempt < 12; ++attempt)
  {
    int p1 = static_cast<int>(r.below(static_cast<size_t>(n))), p2 = static_cast<int>(r.below(static_cast<size_t>(n)));
    bool dbl = m.par[static_cast<size_t>(p2)] >= 0, cyc = p1 == p2 || m.isAnc(p2, p1);
    if (k < 0.55) { if (dbl || cyc) continue; }                              // valid link
    else if (k < 0.72) { if (dbl || !cyc) continue; }                        // closes a cycle
    else if (k < 0.85) { if (!dbl) continue; }                               // aliased twice
    if (!dbl && !cyc && !aliasInQuantifier(m, p1, p2)) { vrt::tally("skipped:alias-values-outside-intersection"); continue; }
    return opAlias(w, o, p1, p2);
  }
  return true;
}

bool genUnalias(World& w, Obj& o)
{
  vrt::Rng& r = w.c.rng;
  Model& m = o.m;
  vector<int> linked;
  for (int i = 0; i < m.n(); ++i) if (m.par[static_cast<size_t>(i)] >= 0) linked.push_back(i);
  if (!linked.empty() && r.chance(0.8))
  {
    int p2 = linked[r.below(linked.size())];
    return opUnalias(w, o, m.par[static_cast<size_t>(p2)], p2);
  }
  int p1 = static_cast<int>(r.below(static_cast<size_t>(m.n()))), p2 = static_cast<int>(r.below(static_cast<size_t>(m.n())));
  return opUnalias(w, o, p1, p2);
}

// a value for parameter i inside the constraints of i and of everything aliased to i
bool pickValue(World& w, const Model& m, int i, double& v)
{
  vector<double> d = m.domain(i);
  if (d.empty()) return false;
  vrt::Rng& r = w.c.rng;
  // bias: values already present in the object (no-change updates, chain members that already hold the value)
  if (r.chance(0.25))
  {
    double x = m.val[r.below(m.val.size())];
    if (find(d.begin(), d.end(), x) != d.end()) { v = x; return true; }
  }
  v = d[r.below(d.size())];
  return true;
}

bool staleCorner(const Model& m, const vector<Assign>& as)
{
  vector<double> ev = m.val, st = m.val;
  for (const Assign& a : as) { eventSet(ev, m, a.i, a.v); stmtSet(st, m, a.i, a.v, false); }
  return ev != st;
}

bool genSet(World& w, Obj& o)
{
  vrt::Rng& r = w.c.rng;
  Model& m = o.m;
  int n = m.n();
  double k = r.unit();
  for (int attempt = 0; attempt < 8; ++attempt)
  {
    vector<Assign> as;
    string route;
    if (k < 0.40)
    {
      route = "setParameterValue";
      Assign a;
      a.i = static_cast<int>(r.below(static_cast<size_t>(n)));
      if (!pickValue(w, m, a.i, a.v)) continue;
      as.push_back(a);
    }
    else if (k < 0.56)
    {
      // through the independent list
      route = k < 0.48 ? "independent-handle" : "independent-copy-match";
      vector<int> ind;
      for (int i = 0; i < n; ++i) if (m.par[static_cast<size_t>(i)] < 0) ind.push_back(i);
      Assign a;
      a.i = ind[r.below(ind.size())];
      if (!pickValue(w, m, a.i, a.v)) continue;
      as.push_back(a);
    }
    else
    {
      route = k < 0.74 ? "setParametersValues" : k < 0.90 ? "matchParametersValues" : "setAllParametersValues";
      // a subset in random order; a parameter below a listed one that changes gets the same value
      vector<int> idx;
      for (int i = 0; i < n; ++i) if (route == "setAllParametersValues" || r.chance(0.5)) idx.push_back(i);
      if (idx.empty()) idx.push_back(static_cast<int>(r.below(static_cast<size_t>(n))));
      r.shuffle(idx);
      map<int, double> chosen;
      // top-down so that descendants see their ancestors' decision
      vector<int> byDepth = idx;
      sort(byDepth.begin(), byDepth.end(), [&](int a, int b) { return m.depthBelow(m.root(a), a) < m.depthBelow(m.root(b), b); });
      bool ok = true;
      for (int i : byDepth)
      {
        bool forced = false;
        for (int a : m.ancs(i))
        {
          auto it = chosen.find(a);
          if (it != chosen.end() && it->second != m.val[static_cast<size_t>(a)])
          {
            // the nearest changing listed ancestor decides
            if (!forced || m.depthBelow(a, i) < 1000) { chosen[i] = it->second; forced = true; }
          }
        }
        if (forced)
        {
          // take the value of the nearest changing ancestor
          int best = -1;
          for (int a : m.ancs(i))
          {
            auto it = chosen.find(a);
            if (it != chosen.end() && it->second != m.val[static_cast<size_t>(a)] && (best < 0 || m.depthBelow(a, i) < m.depthBelow(best, i))) best = a;
          }
          chosen[i] = chosen[best];
          continue;
        }
        double v;
        if (route == "setAllParametersValues" && r.chance(0.4)) v = m.val[static_cast<size_t>(i)];
        else if (!pickValue(w, m, i, v)) { ok = false; break; }
        chosen[i] = v;
      }
      if (!ok) continue;
      // all changing ancestors of one parameter must agree (they do when they are on one path and top-down forced)
      for (int i : idx) { Assign a; a.i = i; a.v = chosen[i]; as.push_back(a); }
      if (route == "setAllParametersValues") sort(as.begin(), as.end(), [](const Assign& a, const Assign& b) { return a.i < b.i; });
      // the request must not contradict itself: replaying it in the listed order gives every listed parameter its listed value
      vector<double> st = m.val;
      for (const Assign& a : as) stmtSet(st, m, a.i, a.v, false);
      bool consistent = true;
      for (const Assign& a : as) if (st[static_cast<size_t>(a.i)] != a.v) consistent = false;
      if (!consistent) { vrt::tally("skipped:self-contradictory-bulk-set"); continue; }
    }
    // every value must be accepted by everything it reaches
    {
      vector<double> st = m.val;
      for (const Assign& a : as) stmtSet(st, m, a.i, a.v, true);
      bool inside = true;
      for (int i = 0; i < n; ++i) if (!okI(m.con[static_cast<size_t>(i)], st[static_cast<size_t>(i)])) inside = false;
      for (const Assign& a : as) for (int j : m.desc(a.i)) if (!okI(m.con[static_cast<size_t>(j)], a.v)) inside = false;
      if (!inside) { vrt::tally("skipped:value-outside-constraints"); continue; }
    }
    if (staleCorner(m, as))
    {
      vrt::tally("reached:chain-member-already-holds-the-new-value");
      if (w.avoidStale) continue;
    }
    return opSet(w, o, route, as);
  }
  return true;
}

bool genBulk(World& w, Obj& o)
{
  vrt::Rng& r = w.c.rng;
  Model& m = o.m;
  int n = m.n();
  for (int attempt = 0; attempt < 10; ++attempt)
  {
    BulkPlan bp;
    bool useFull = !m.ns.empty() && r.chance(0.5);
    auto name = [&](int i) { return useFull ? m.full(i) : m.nm[static_cast<size_t>(i)]; };
    double k = r.unit();
    vector<int> ind, all;
    for (int i = 0; i < n; ++i) { all.push_back(i); if (m.par[static_cast<size_t>(i)] < 0) ind.push_back(i); }
    r.shuffle(ind);
    r.shuffle(all);
    if (k < 0.50)
    {
      // a forest: some independent parameters get a source that does not close a cycle
      Model t = m;
      size_t cnt = 1 + r.below(ind.size());
      for (size_t q = 0; q < cnt && q < ind.size(); ++q)
      {
        int key = ind[q];
        vector<int> srcs;
        for (int s = 0; s < n; ++s) if (s != key && !t.isAnc(key, s)) srcs.push_back(s);
        if (srcs.empty()) continue;
        int s = srcs[r.below(srcs.size())];
        t.par[static_cast<size_t>(key)] = s;
        bp.mp[name(key)] = name(s);
      }
    }
    else if (k < 0.65)
    {
      // a cycle of 1..4 independent parameters (plus, sometimes, a valid entry)
      size_t len = 1 + r.below(min<size_t>(4, ind.size()));
      for (size_t q = 0; q < len; ++q) bp.mp[name(ind[q])] = name(ind[(q + 1) % len]);
      if (ind.size() > len && r.chance(0.5)) bp.mp[name(ind[len])] = name(ind[0]);
    }
    else if (k < 0.75)
    {
      // a key that is already aliased
      vector<int> al;
      for (int i = 0; i < n; ++i) if (m.par[static_cast<size_t>(i)] >= 0) al.push_back(i);
      if (al.empty()) continue;
      bp.mp[name(al[r.below(al.size())])] = name(all[0]);
      if (ind.size() > 1 && r.chance(0.5)) bp.mp[name(ind[0])] = name(ind[1]);
    }
    else if (k < 0.85)
    {
      if (r.chance(0.5)) bp.mp[name(all[0])] = m.ns + "nosuch";
      else bp.mp["nosuch"] = name(all[0]);
      if (ind.size() > 1 && r.chance(0.5)) bp.mp[name(ind[0])] = name(ind[1]);
    }
    else if (k < 0.88) {}
    else
    {
      for (int i : all) if (r.chance(0.5)) bp.mp[name(i)] = name(static_cast<int>(r.below(static_cast<size_t>(n))));
    }
    classifyBulk(m, bp);
    if (!bulkInQuantifier(m, bp)) { vrt::tally("skipped:bulk-values-outside-intersection"); continue; }
    if (bp.valid)
    {
      Model t = m;
      for (auto& l : bp.links) t.par[static_cast<size_t>(l.first)] = l.second;
      vector<double> st = m.val, ev = m.val;
      bulkSync(t, bp.links, st, ev);
      if (st != ev)
      {
        vrt::tally("reached:chain-member-already-holds-the-new-value");
        if (w.avoidStale) continue;
      }
    }
    return opBulk(w, o, bp, r.chance(0.3));
  }
  return true;
}

// ---------------------------------------------------------------- random histories
// fam: 0 = constraints from the fixed pool, 1 = group `near` (makeFamily), 2 = group `flags` (makeFlagFamily)
void runHistory(vrt::Case& c, bool withBulk, int fam = 0)
{
  const bool nearMode = fam != 0;
  vrt::Rng& r = c.rng;
  World w(c);
  int n = static_cast<int>(nearMode ? r.range(2, 4) : r.range(2, 6));
  string ns = r.chance(0.5) ? "" : nsPool()[1 + r.below(nsPool().size() - 1)];
  bool constrained = nearMode || r.chance(0.75);
  size_t len = static_cast<size_t>(nearMode ? r.range(2, 10) : withBulk ? r.range(1, 12) : r.range(3, 25));
  vrt::describe(string(fam == 2 ? "history+flags" : nearMode ? "history+near" : withBulk ? "history+bulk" : "history") + ":n" + str(n) + (ns.empty() ? ":ns0" : ":ns1"), "random history of length " + str(len) + " on " + str(n) + " parameters, namespace '" + ns + "'");
  if (nearMode)
  {
    w.near = true;
    if (fam == 2) makeFlagFamily(w);
    else makeFamily(w);
  }
  makeObject(w, n, ns, constrained);
  if (!auditAll(w, nullptr, "construct", nullptr)) return;
  // (group `near`) the history starts with links between the almost equal constraints
  if (nearMode)
    for (int q = 0, cnt = static_cast<int>(r.range(1, 2)); q < cnt; ++q)
      if (!genAlias(w, *w.live[0], true)) return;
  for (size_t s = 0; s < len; ++s)
  {
    Obj& o = *w.live[r.below(w.live.size())];
    int k = static_cast<int>(r.below(100));
    bool ok = true;
    if (withBulk && k < 30) ok = genBulk(w, o);
    else if (k < 24 + (withBulk ? 20 : 0)) ok = genAlias(w, o);
    else if (k < 50) ok = genAlias(w, o);
    else if (k < 58) ok = genUnalias(w, o);
    else if (k < 78) ok = genSet(w, o);
    else if (k < 83) { if (w.live.size() < 3) ok = opCopy(w, o, r.chance(0.3)); else ok = genSet(w, o); }
    else if (k < 89)
    {
      Obj& src = *w.live[r.below(w.live.size())];
      if (&src == &o && !r.chance(0.3))
      {
        // assignment from a fresh object of another shape
        if (w.live.size() < 3)
        {
          Obj* f = makeObject(w, static_cast<int>(r.range(2, 6)), r.chance(0.5) ? o.m.ns : nsPool()[r.below(nsPool().size())], constrained);
          if (!auditAll(w, f, "construct", nullptr)) return;
          for (int q = 0; q < 3 && ok; ++q) ok = genAlias(w, *f);
          if (ok) ok = r.chance(0.5) ? opAssign(w, o, *f) : opAssign(w, *f, o);
        }
      }
      else ok = opAssign(w, o, src);
    }
    else if (k < 95) ok = opNamespace(w, o, nsPool()[r.below(nsPool().size())]);
    else if (w.live.size() > 1) ok = opDestroy(w, r.below(w.live.size()));
    else ok = genSet(w, o);
    if (!ok) return;
  }
  // the survivors must stay consistent while the others go away
  while (w.live.size() > 1)
  {
    if (!opDestroy(w, r.below(w.live.size()))) return;
    if (!genSet(w, *w.live[r.below(w.live.size())])) return;
  }
}

void caseHistory(vrt::Case& c) { runHistory(c, false); }
void caseBulk(vrt::Case& c) { runHistory(c, true); }
void caseNear(vrt::Case& c) { runHistory(c, false, 1); }
void caseFlags(vrt::Case& c) { runHistory(c, false, 2); }

// ---------------------------------------------------------------- enumerated alias sequences
// index -> (n, three alias requests (p1,p2) over n parameters); then a fixed tail that drives every route,
// a copy, an assignment in both directions, a renaming and the removal of every link.
const int ENUM_N[] = { 2, 3, 4, 5 };
vrt::u64 enumCount(int upToN)
{
  vrt::u64 t = 0;
  for (int n : ENUM_N) if (n <= upToN) { vrt::u64 p = static_cast<vrt::u64>(n * n); t += p * p * p; }
  return t;
}

struct Fresh
{
  int k;
  Fresh() : k(0) {}
  double next() { return 0.5 + 0.015625 * (++k); } // never repeats, stays inside the core of every constraint
};

bool setEach(World& w, Obj& o, Fresh& f, bool rootsOnly)
{
  static const char* routes[] = { "setParameterValue", "setParametersValues", "matchParametersValues", "independent-handle", "independent-copy-match" };
  for (int i = 0; i < o.m.n(); ++i)
  {
    bool indep = o.m.par[static_cast<size_t>(i)] < 0;
    if (rootsOnly && !indep) continue;
    string route = routes[(static_cast<size_t>(i) + static_cast<size_t>(f.k)) % 5];
    if (!indep && route.compare(0, 11, "independent") == 0) route = "setParameterValue";
    Assign a;
    a.i = i;
    a.v = f.next();
    if (!opSet(w, o, route, vector<Assign>(1, a))) return false;
  }
  return true;
}

void caseEnum(vrt::Case& c)
{
  vrt::u64 idx = c.index;
  int n = 0;
  for (int cand : ENUM_N)
  {
    vrt::u64 p = static_cast<vrt::u64>(cand * cand), cnt = p * p * p;
    if (idx < cnt) { n = cand; break; }
    idx -= cnt;
  }
  if (n == 0) return;
  vrt::u64 p = static_cast<vrt::u64>(n * n);
  int req[3] = { static_cast<int>(idx % p), static_cast<int>((idx / p) % p), static_cast<int>(idx / (p * p)) };
  World w(c);
  Fresh f;
  vrt::describe("enum:n" + str(n), "three alias requests over " + str(n) + " parameters, then every update route, copy, assignment, renaming, unaliasing");
  // fixed shape: namespace and constraints rotate with the index
  string ns = (c.index % 3 == 1) ? "ns." : "";
  Obj* o = nullptr;
  {
    unique_ptr<Obj> ob(new Obj());
    ob->tag = "o" + str(w.nextTag++);
    ob->m.ns = ns;
    ob->real.reset(new TD(ns));
    string text = ob->tag + " = new('" + ns + "'";
    // names chosen so that neither position order nor name order follows the link direction
    static const char* names[] = { "c", "a", "e", "b", "d" };
    for (int i = 0; i < n; ++i)
    {
      Itv ci = pool()[(static_cast<size_t>(i) * 2 + c.index) % pool().size()];
      double v = f.next();
      ob->m.nm.push_back(names[i]);
      ob->m.val.push_back(v);
      ob->m.con.push_back(ci);
      ob->m.con0.push_back(ci);
      ob->m.par.push_back(-1);
      ob->real->add(new Parameter(ns + names[i], v, mkCon(ci)));
      text += string(", ") + names[i] + "=" + str(v) + " " + showI(ci);
    }
    w.op(text + ")");
    o = ob.get();
    w.live.push_back(std::move(ob));
  }
  if (!auditAll(w, nullptr, "construct", nullptr)) return;
  for (int q = 0; q < 3; ++q)
  {
    if (!opAlias(w, *o, req[q] / n, req[q] % n)) return;
    if (!setEach(w, *o, f, q != 2)) return;
  }
  // copy, then both go their own way
  if (!opCopy(w, *o, c.index % 2 == 0)) return;
  Obj* cp = w.live.back().get();
  if (!setEach(w, *cp, f, true) || !setEach(w, *o, f, true)) return;
  // renaming
  if (!opNamespace(w, *o, ns.empty() ? "m1." : (c.index % 2 ? "" : "ns.sub."))) return;
  if (!setEach(w, *o, f, false)) return;
  // a differently linked object assigned over the copy, and the copy's old state assigned over a fresh one
  Obj* fresh = nullptr;
  {
    unique_ptr<Obj> ob(new Obj());
    ob->tag = "o" + str(w.nextTag++);
    ob->m = cp->m;
    w.op(ob->tag + " = copy(" + cp->tag + ")");
    ob->real.reset(new TD(*cp->real));
    fresh = ob.get();
    w.live.push_back(std::move(ob));
  }
  // remove every link of `fresh`, one at a time
  for (int i = 0; i < fresh->m.n(); ++i)
  {
    int s = fresh->m.par[static_cast<size_t>(i)];
    if (s < 0) continue;
    if (!opUnalias(w, *fresh, s, i)) return;
    Assign a;
    a.i = s;
    a.v = f.next();
    if (!opSet(w, *fresh, "setParameterValue", vector<Assign>(1, a))) return;
    a.i = i;
    a.v = f.next();
    if (!opSet(w, *fresh, "setParameterValue", vector<Assign>(1, a))) return;
  }
  // plain := linked, linked := plain
  if (c.index % 2)
  {
    if (!opAssign(w, *fresh, *o)) return;
    if (!setEach(w, *fresh, f, false) || !setEach(w, *o, f, true)) return;
    if (!opAssign(w, *fresh, *fresh)) return;
    if (!setEach(w, *fresh, f, true)) return;
  }
  else
  {
    // give the plain object one link of its own that the source does not have, then overwrite it
    if (fresh->m.n() >= 2) { if (!opAlias(w, *fresh, n - 1, 0)) return; }
    if (!opAssign(w, *cp, *fresh)) return;
    if (!setEach(w, *cp, f, false)) return;
    if (!opAssign(w, *fresh, *o)) return;
    if (!setEach(w, *fresh, f, false) || !setEach(w, *o, f, true)) return;
  }
  // the original goes away, the others live on
  if (!opDestroy(w, 0)) return;
  for (auto& x : w.live) if (!setEach(w, *x, f, false)) return;
}

// ---------------------------------------------------------------- stored witness of the recorded finding
void caseKnownWitness(vrt::Case& c)
{
  World w(c);
  vrt::describe("known-witness", "chain a->b->c in which b already holds a's new value");
  unique_ptr<Obj> ob(new Obj());
  ob->tag = "o0";
  ob->real.reset(new TD(""));
  const char* names[] = { "a", "b", "c" };
  double vals[] = { 1, 3, 2 };
  string text = "o0 = new(''";
  for (int i = 0; i < 3; ++i)
  {
    ob->m.nm.push_back(names[i]);
    ob->m.val.push_back(vals[i]);
    ob->m.con.push_back(NONE);
    ob->m.con0.push_back(NONE);
    ob->m.par.push_back(-1);
    ob->real->add(new Parameter(names[i], vals[i]));
    text += string(", ") + names[i] + "=" + str(vals[i]);
  }
  w.op(text + ")");
  Obj* o = ob.get();
  w.live.push_back(std::move(ob));
  if (!opAlias(w, *o, 1, 2)) return;
  if (!opAlias(w, *o, 0, 1)) return;
  Assign a;
  a.i = 0;
  a.v = 3;
  opSet(w, *o, "setParameterValue", vector<Assign>(1, a));
}
} // namespace

int main(int argc, char** argv)
{
  vrt::installParameterAudit("audit.parameter");
  vector<vrt::Group> groups = {
    { "history", 40000, 500000, caseHistory, 600, false },
    { "bulk", 12000, 100000, caseBulk, 90, false },
    { "near", 4000, 40000, caseNear, 600, false },
    { "flags", 4000, 40000, caseFlags, 600, false },
    { "enum", enumCount(4), enumCount(5), caseEnum, 600, true },
    { "known-witness", 1, 1, caseKnownWitness, 300, false },
  };
  vrt::Meta meta;
  meta.rule = "history: random histories (3..25 operations) over up to 3 live objects of 2..6 parameters (names from a shuffled pool so that name order, position order and link "
      "direction are unrelated; optional namespace; constraints from a pool of 8 intervals with pairwise distinct bounds): alias (valid / closing a cycle of any length / aliasing twice), "
      "unalias (linked / not linked), setParameterValue, setParametersValues, setAllParametersValues, matchParametersValues, writes through the object listed by "
      "getIndependentParameters(), copy of the independent list matched back, copy-construct / clone, assignment (other object, fresh object of another size and namespace, self), "
      "setNamespace, destruction of one of the objects; every live object is audited after every call. bulk: shorter histories that also call aliasParameters(map) with forests, cycles "
      "(length 1..4), already aliased keys, unknown names, the empty map and random maps, names with or without the namespace; a structural class is journalled before each call so that "
      "a hang is attributable. enum: every sequence of three alias requests over 2..4 (thorough: 5) parameters followed by a fixed tail (every update route on every parameter, copy, "
      "renaming, unalias of every link, assignment in both directions, self assignment, destruction). near: histories (2..10 operations after one or two valid links) on objects whose "
      "constraints come from a family of six intervals with pairwise different but almost equal lower and/or upper bounds (0, a few ulps, 1e-15 .. 9e-13, sometimes 2e-12 or 1e-9 around "
      "bases 0, +-1e-9 .. 2.5e-7 and values of order 1; the other side common, clearly different or unbounded); every audit also probes acceptance at every bound, its two neighbouring "
      "doubles and the midpoints between neighbouring bounds. flags: the same histories on objects whose constraints come from a family of six intervals that share a bound value on one or "
      "both sides and differ there only in the open/closed flag (other side: shared too, one common bound and flag, clearly different, unbounded or almost equal); two members with an equal "
      "bound and different flags are different constraints whose intersection excludes that bound (class cons=both-equal-bound-other-flag); probes and update values include every bound "
      "and its two neighbouring doubles. A class key = (operation, structural situation: validity / refusal reason, which "
      "ends are constrained, depth of the source, size of the aliased subtree, route, independent or aliased target, links carried by a copy, namespace present).";
  meta.assumptions = {
    "values inside the constraints of the updated parameter and of everything aliased to it; alias requests only when both current values lie inside the intersection",
    "interval pool with pairwise distinct bounds (group near: bounds of one side are pairwise different too, but only by a few ulps .. 1e-9; group flags: equal bounds with different open/closed flags, intersected as C01 states: a common bound is included only if both include it), no precision on parameters",
    "two different constraints whose getDescription() strings are equal (almost equal bounds of order 1, other side identical) are different constraints: after aliasing both ends accept exactly the intersection (class cons=both-same-description)",
    "an aliased parameter may take its source's value at alias time or only at the source's next change; an update that does not change its target may or may not re-synchronise the aliases; both accepted",
    "getAliases may map an aliased parameter to any of its (direct or indirect) sources; names returned by getAlias/getAliases/getFrom are compared modulo the namespace; getFrom is asked with and without namespace",
    "getAliasedParameters/getFromParameters are only observed without namespace",
    "bulk aliasing under a non-empty namespace may raise for a performable map; without namespace a performable map must be performed",
    "termination of bulk aliasing = the call returns or raises before the chunk watchdog of the bulk group (90 s for a chunk of sub-millisecond cases) fires twice",
    "constraints after unaliasing may stay or widen; after bulk aliasing each parameter accepts at least the intersection over its final component and at most what it accepted before (narrowed by the other end of each link)",
  };
  meta.requiredClauses = { "track.value", "indep.names", "indep.identity", "links.getAliases", "links.getAlias", "links.getFrom", "constraint.acceptance", "refuse.raises", "bulk.terminates", "alias.accepts-valid", "unalias.accepts-valid" };
  return vrt::run(argc, argv, "C03", groups, meta);
}
