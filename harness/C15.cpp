// C15 - Tree/DAG queries follow graph-theoretic definitions; re-rooting keeps topology.
// Reference model kept by the harness: a multigraph (node set + edge table id -> (from,to) + attached edge object tag),
// from which a parent array is derived whenever the model is a valid rooted tree.  The real TreeGraphImpl<GlobalGraph>,
// DAGraphImpl<GlobalGraph> and the AssociationTree/DAG observers are driven next to it; after every edit the raw
// structure is compared, validity/rootedness are compared with the reference predicate at random moments, and on valid
// rooted trees every query of the property is compared with the definition evaluated on the parent array.
#include "vrt.h"

#include <Bpp/Exceptions.h>
#include <Bpp/Graph/TreeGraphImpl.h>
#include <Bpp/Graph/DAGraphImpl.h>
#include <Bpp/Graph/AssociationTreeGraphImplObserver.h>
#include <Bpp/Graph/AssociationDAGraphImplObserver.h>

#include <algorithm>
#include <functional>
#include <map>
#include <memory>
#include <set>

using namespace bpp;
using namespace std;
using vrt::str;

namespace
{
typedef unsigned int U;
const long NOKEY = -1;

struct NObj { U id; NObj() : id(~0u) {} };
struct EObj { int tag; explicit EObj(int t) : tag(t) {} };
typedef shared_ptr<NObj> NP;
typedef shared_ptr<EObj> EP;
typedef AssociationTreeGlobalGraphObserver<NObj, EObj> TreeObs;
typedef AssociationDAGlobalGraphObserver<NObj, EObj> DagObs;

// ------------------------------------------------------------------ counting / reporting
map<string, vrt::u64>& counters() { static map<string, vrt::u64> m; return m; }
void flushCounters()
{
  for (auto& kv : counters()) if (kv.second) { vrt::counted(kv.first.c_str(), kv.second); kv.second = 0; }
}
struct Flusher { ~Flusher() { flushCounters(); } };
// comparison: counted always, class and witness only built on failure
#define CHK(cond, clause, clsExpr, witExpr) \
  ([&]() -> bool { ++counters()[clause]; if (cond) return true; vrt::violation(clause, (clsExpr), (witExpr)); return false; } ())

template<class T> vector<T> sorted(vector<T> v) { sort(v.begin(), v.end()); return v; }
template<class T> string lst(const vector<T>& v)
{
  string s = "[";
  for (size_t i = 0; i < v.size(); ++i) s += (i ? "," : "") + str(v[i]);
  return s + "]";
}
template<class T> bool hasDup(vector<T> v) { sort(v.begin(), v.end()); return adjacent_find(v.begin(), v.end()) != v.end(); }

// ------------------------------------------------------------------ reference multigraph
struct Model
{
  bool directed;
  U root;
  set<U> nodes;
  map<U, pair<U, U>> edges; // id -> (from,to); unordered when !directed
  map<U, int> tags;         // id -> tag of the attached edge object (observer cases only)
  Model() : directed(true), root(0) {}

  vector<U> outN(U v) const
  {
    vector<U> r;
    for (auto& e : edges)
    {
      if (e.second.first == v) r.push_back(e.second.second);
      else if (!directed && e.second.second == v) r.push_back(e.second.first);
    }
    return sorted(r);
  }
  vector<U> inN(U v) const
  {
    vector<U> r;
    for (auto& e : edges)
    {
      if (e.second.second == v) r.push_back(e.second.first);
      else if (!directed && e.second.first == v) r.push_back(e.second.second);
    }
    return sorted(r);
  }
  vector<U> outE(U v) const
  {
    vector<U> r;
    for (auto& e : edges) if (e.second.first == v || (!directed && e.second.second == v)) r.push_back(e.first);
    return sorted(r);
  }
  vector<U> inE(U v) const
  {
    vector<U> r;
    for (auto& e : edges) if (e.second.second == v || (!directed && e.second.first == v)) r.push_back(e.first);
    return sorted(r);
  }
  // edge a->b (either direction when undirected); -1 when absent
  long findEdge(U a, U b) const
  {
    for (auto& e : edges)
    {
      if (e.second.first == a && e.second.second == b) return e.first;
      if (!directed && e.second.first == b && e.second.second == a) return e.first;
    }
    return -1;
  }
  bool adjacent(U a, U b) const
  {
    for (auto& e : edges)
      if ((e.second.first == a && e.second.second == b) || (e.second.first == b && e.second.second == a)) return true;
    return false;
  }
  bool hasReciprocal() const
  {
    for (auto& e : edges)
      for (auto& f : edges)
        if (e.first < f.first && e.second.first == f.second.second && e.second.second == f.second.first) return true;
    return false;
  }
  bool hasSelfLoop() const
  {
    for (auto& e : edges) if (e.second.first == e.second.second) return true;
    return false;
  }
  int tagOf(U e) const { auto it = tags.find(e); return it == tags.end() ? -1 : it->second; }
  void eraseEdge(U e) { edges.erase(e); tags.erase(e); }
  void eraseNode(U v)
  {
    vector<U> dead;
    for (auto& e : edges) if (e.second.first == v || e.second.second == v) dead.push_back(e.first);
    for (U e : dead) eraseEdge(e);
    nodes.erase(v);
  }
  vector<U> nodeVec() const { return vector<U>(nodes.begin(), nodes.end()); }
  string text() const
  {
    string s = string(directed ? "directed" : "undirected") + " root=" + str(root) + " nodes={";
    bool f = true;
    for (U v : nodes) { s += (f ? "" : ",") + str(v); f = false; }
    s += "} edges={";
    f = true;
    for (auto& e : edges)
    {
      s += (f ? "" : ",") + str(e.first) + ":" + str(e.second.first) + (directed ? ">" : "-") + str(e.second.second);
      if (tagOf(e.first) >= 0) s += "#" + str(tagOf(e.first));
      f = false;
    }
    return s + "}";
  }
};

// reference predicate: the graph is a tree spanning all nodes from the root.  Returns "" when valid, else the reason.
string treeInvalidReason(const Model& m)
{
  if (m.nodes.empty()) return "empty";
  if (!m.nodes.count(m.root)) return "root-absent";
  if (m.hasSelfLoop()) return "self-loop";
  // reachability from the root
  set<U> seen;
  vector<U> todo(1, m.root);
  seen.insert(m.root);
  while (!todo.empty())
  {
    U v = todo.back();
    todo.pop_back();
    for (U w : m.outN(v)) if (seen.insert(w).second) todo.push_back(w);
  }
  if (m.directed)
  {
    if (m.hasReciprocal()) return "reciprocal-pair";
    map<U, int> indeg;
    for (auto& e : m.edges) ++indeg[e.second.second];
    for (U v : m.nodes) if (indeg[v] > 1) return "two-fathers";
    if (indeg[m.root] != 0) return "root-has-father";
    if (seen.size() != m.nodes.size())
    {
      for (U v : m.nodes) if (!seen.count(v) && indeg[v] == 0) return "second-fatherless-node";
      return "unreachable-cycle";
    }
    return "";
  }
  if (seen.size() != m.nodes.size()) return "disconnected";
  if (m.edges.size() != m.nodes.size() - 1) return "undirected-cycle";
  return "";
}
bool treeValid(const Model& m) { return treeInvalidReason(m).empty(); }

// reference predicate: no directed cycle (Kahn)
bool acyclic(const Model& m)
{
  map<U, int> indeg;
  for (U v : m.nodes) indeg[v] = 0;
  for (auto& e : m.edges) ++indeg[e.second.second];
  vector<U> todo;
  for (auto& kv : indeg) if (kv.second == 0) todo.push_back(kv.first);
  size_t done = 0;
  while (!todo.empty())
  {
    U v = todo.back();
    todo.pop_back();
    ++done;
    for (auto& e : m.edges) if (e.second.first == v && --indeg[e.second.second] == 0) todo.push_back(e.second.second);
  }
  return done == m.nodes.size();
}
size_t fatherless(const Model& m)
{
  size_t k = 0;
  for (U v : m.nodes) if (m.inN(v).empty()) ++k;
  return k;
}
bool weaklyConnected(const Model& m)
{
  if (m.nodes.empty()) return false;
  set<U> seen;
  vector<U> todo(1, *m.nodes.begin());
  seen.insert(todo[0]);
  while (!todo.empty())
  {
    U v = todo.back();
    todo.pop_back();
    for (auto& e : m.edges)
    {
      U w;
      if (e.second.first == v) w = e.second.second;
      else if (e.second.second == v) w = e.second.first;
      else continue;
      if (seen.insert(w).second) todo.push_back(w);
    }
  }
  return seen.size() == m.nodes.size();
}

// ------------------------------------------------------------------ parent array of a valid rooted tree + definitions
struct RTree
{
  U root;
  map<U, U> par;            // absent for the root
  map<U, U> parEdge;
  map<U, vector<U>> kids;   // ascending
  map<U, int> depth;

  explicit RTree(const Model& m) : root(m.root)
  {
    for (U v : m.nodes) kids[v];
    for (auto& e : m.edges) { par[e.second.second] = e.second.first; parEdge[e.second.second] = e.first; kids[e.second.first].push_back(e.second.second); }
    for (auto& k : kids) sort(k.second.begin(), k.second.end());
    for (U v : m.nodes) { int d = 0; for (U x = v; par.count(x); x = par.at(x)) ++d; depth[v] = d; }
  }
  bool hasFather(U v) const { return par.count(v) != 0; }
  vector<U> up(U v) const // v, father, ..., root
  {
    vector<U> r(1, v);
    while (par.count(v)) { v = par.at(v); r.push_back(v); }
    return r;
  }
  bool isAncestorOrSelf(U a, U v) const { for (U x : up(v)) if (x == a) return true; return false; }
  vector<U> subtreeNodes(U v) const
  {
    vector<U> r(1, v);
    for (size_t i = 0; i < r.size(); ++i) for (U k : kids.at(r[i])) r.push_back(k);
    return sorted(r);
  }
  vector<U> subtreeEdges(U v) const
  {
    vector<U> r;
    for (U x : subtreeNodes(v)) if (x != v) r.push_back(parEdge.at(x));
    return sorted(r);
  }
  vector<U> leavesUnder(U v) const
  {
    vector<U> r;
    for (U x : subtreeNodes(v)) if (kids.at(x).empty()) r.push_back(x);
    return r;
  }
  U mrca(const vector<U>& vs) const // vs non-empty
  {
    vector<U> chain = up(vs[0]);
    for (size_t i = 1; i < vs.size(); ++i)
    {
      vector<U> o = up(vs[i]), keep;
      for (U x : chain) if (find(o.begin(), o.end(), x) != o.end()) keep.push_back(x);
      chain = keep;
    }
    return chain.front(); // deepest common ancestor-or-self
  }
  vector<U> nodePath(U a, U b, bool incl) const
  {
    U c = mrca(vector<U>{ a, b });
    vector<U> r, down;
    for (U x = a; x != c; x = par.at(x)) r.push_back(x);
    if (incl) r.push_back(c);
    for (U x = b; x != c; x = par.at(x)) down.push_back(x);
    r.insert(r.end(), down.rbegin(), down.rend());
    return r;
  }
  vector<U> edgePath(U a, U b) const
  {
    U c = mrca(vector<U>{ a, b });
    vector<U> r, down;
    for (U x = a; x != c; x = par.at(x)) r.push_back(parEdge.at(x));
    for (U x = b; x != c; x = par.at(x)) down.push_back(parEdge.at(x));
    r.insert(r.end(), down.rbegin(), down.rend());
    return r;
  }
  string kindOf(U v) const
  {
    size_t k = kids.at(v).size();
    return string(v == root ? "root-" : "") + (k == 0 ? "leaf" : k == 1 ? "unary" : "internal");
  }
  bool unaryBelow(U v) const
  {
    for (U x : subtreeNodes(v)) if (x != v && kids.at(x).size() == 1) return true;
    return false;
  }
  string relation(U a, U b) const
  {
    if (a == b) return "equal";
    if (isAncestorOrSelf(a, b)) return hasFather(b) && par.at(b) == a ? "a-father-of-b" : "a-ancestor-of-b";
    if (isAncestorOrSelf(b, a)) return par.at(a) == b ? "b-father-of-a" : "b-ancestor-of-a";
    return depth.at(a) == depth.at(b) ? "unrelated-same-depth" : "unrelated-different-depth";
  }
  string subsetClass(const vector<U>& vs) const
  {
    if (vs.empty()) return "k=0";
    if (vs.size() == 1) return "k=1";
    bool nested = false, mixed = false;
    for (U a : vs) for (U b : vs) if (a != b) { if (isAncestorOrSelf(a, b)) nested = true; if (depth.at(a) != depth.at(b)) mixed = true; }
    U c = mrca(vs);
    return string(vs.size() == 2 ? "k=2" : "k>2") + (nested ? ":nested" : ":antichain") + (mixed ? ":mixed-depth" : ":same-depth") + (c == root ? ":mrca=root" : ":mrca-below-root");
  }
};

// ------------------------------------------------------------------ read access to the two layers, in graph ids / edge keys
// An "edge key" is the edge id on the plain graph and the tag of the attached object on the observer layer
// (the object-level lists silently drop edges without object; single results give NOKEY for them).
struct TreeView
{
  virtual ~TreeView() {}
  virtual const char* kind() const = 0;
  virtual bool isValid() = 0;
  virtual bool isRooted() = 0;
  virtual bool hasFather(U v) = 0;
  virtual U father(U v) = 0;
  virtual long edgeToFather(U v) = 0;
  virtual vector<U> sons(U v) = 0;
  virtual vector<long> branches(U v) = 0;
  virtual vector<U> sonsIt(U v) = 0;
  virtual vector<long> branchesIt(U v) = 0;
  virtual size_t nSons(U v) = 0;
  virtual bool isLeaf(U v) = 0;
  virtual vector<U> leavesUnder(U v) = 0;
  virtual vector<U> subtreeNodes(U v) = 0;
  virtual vector<long> subtreeEdges(U v) = 0;
  virtual vector<U> nodePath(U a, U b, bool incl) = 0;
  virtual vector<long> edgePath(U a, U b) = 0;
  virtual U mrca(const vector<U>& vs) = 0;
  virtual long edgeLinking(U a, U b) = 0;
  virtual bool objectLevel() const = 0;
  // expected key of a model edge; NOKEY when the layer cannot show it
  long keyOf(const Model& m, U e) const { return objectLevel() ? static_cast<long>(m.tagOf(e)) : static_cast<long>(e); }
  vector<long> keysOf(const Model& m, const vector<U>& es) const
  {
    vector<long> r;
    for (U e : es) { long k = keyOf(m, e); if (k != NOKEY || !objectLevel()) r.push_back(k); }
    return r;
  }
};

vector<long> toLong(const vector<U>& v) { return vector<long>(v.begin(), v.end()); }

struct PlainTreeView : TreeView
{
  TreeGlobalGraph& g;
  explicit PlainTreeView(TreeGlobalGraph& gg) : g(gg) {}
  const char* kind() const { return "plain"; }
  bool objectLevel() const { return false; }
  bool isValid() { return g.isValid(); }
  bool isRooted() { return g.isRooted(); }
  bool hasFather(U v) { return g.hasFather(v); }
  U father(U v) { return g.getFatherOfNode(v); }
  long edgeToFather(U v) { return g.getEdgeToFather(v); }
  vector<U> sons(U v) { return g.getSons(v); }
  vector<long> branches(U v) { return toLong(g.getBranches(v)); }
  vector<U> sonsIt(U v)
  {
    vector<U> r;
    const TreeGlobalGraph& cg = g;
    unique_ptr<Graph::NodeIterator> it = (v % 2) ? g.sonsIterator(v) : cg.sonsIterator(v);
    for ( ; !it->end(); it->next()) r.push_back(**it);
    return r;
  }
  vector<long> branchesIt(U v)
  {
    vector<long> r;
    const TreeGlobalGraph& cg = g;
    unique_ptr<Graph::EdgeIterator> it = (v % 2) ? g.branchesIterator(v) : cg.branchesIterator(v);
    for ( ; !it->end(); it->next()) r.push_back(**it);
    return r;
  }
  size_t nSons(U v) { return g.getNumberOfSons(v); }
  bool isLeaf(U v) { return g.isLeaf(v); }
  vector<U> leavesUnder(U v) { return g.getLeavesUnderNode(v); }
  vector<U> subtreeNodes(U v) { return g.getSubtreeNodes(v); }
  vector<long> subtreeEdges(U v) { return toLong(g.getSubtreeEdges(v)); }
  vector<U> nodePath(U a, U b, bool incl) { return incl ? ((a + b) % 2 ? g.getNodePathBetweenTwoNodes(a, b) : g.getNodePathBetweenTwoNodes(a, b, true)) : g.getNodePathBetweenTwoNodes(a, b, false); }
  vector<long> edgePath(U a, U b) { return toLong(g.getEdgePathBetweenTwoNodes(a, b)); }
  U mrca(const vector<U>& vs) { return g.MRCA(vs); }
  long edgeLinking(U a, U b) { return g.getEdge(a, b); }
};

struct ObsTreeView : TreeView
{
  TreeObs& o;
  const vector<NP>& nobj;
  ObsTreeView(TreeObs& oo, const vector<NP>& n) : o(oo), nobj(n) {}
  const char* kind() const { return "observer"; }
  bool objectLevel() const { return true; }
  NP N(U v) const { return nobj.at(v); }
  static vector<U> ids(const vector<NP>& v) { vector<U> r; for (auto& p : v) r.push_back(p ? p->id : ~0u); return r; }
  static vector<long> keys(const vector<EP>& v) { vector<long> r; for (auto& p : v) r.push_back(p ? p->tag : NOKEY); return r; }
  bool isValid() { return o.isValid(); }
  bool isRooted() { return o.isRooted(); }
  bool hasFather(U v) { return o.hasFather(N(v)); }
  U father(U v) { NP p = o.getFatherOfNode(N(v)); return p ? p->id : ~0u; }
  long edgeToFather(U v) { EP e = o.getEdgeToFather(N(v)); return e ? e->tag : NOKEY; }
  vector<U> sons(U v) { return ids(o.getSons(N(v))); }
  vector<long> branches(U v) { return keys(o.getBranches(N(v))); }
  vector<U> sonsIt(U v)
  {
    vector<U> r;
    const TreeObs& co = o;
    auto it = (v % 2) ? o.sonsIterator(N(v)) : co.sonsIterator(N(v));
    for ( ; !it->end(); it->next()) { NP p = **it; r.push_back(p ? p->id : ~0u); }
    return r;
  }
  vector<long> branchesIt(U v)
  {
    vector<long> r;
    const TreeObs& co = o;
    auto it = (v % 2) ? o.branchesIterator(N(v)) : co.branchesIterator(N(v));
    for ( ; !it->end(); it->next()) { EP p = **it; r.push_back(p ? p->tag : NOKEY); }
    return r;
  }
  size_t nSons(U v) { return o.getNumberOfSons(N(v)); }
  bool isLeaf(U v) { return o.isLeaf(N(v)); }
  vector<U> leavesUnder(U v) { return ids(o.getLeavesUnderNode(N(v))); }
  vector<U> subtreeNodes(U v) { return ids(o.getSubtreeNodes(N(v))); }
  vector<long> subtreeEdges(U v) { return keys(o.getSubtreeEdges(N(v))); }
  vector<U> nodePath(U a, U b, bool incl) { return incl ? ((a + b) % 2 ? ids(o.getNodePathBetweenTwoNodes(N(a), N(b))) : ids(o.getNodePathBetweenTwoNodes(N(a), N(b), true))) : ids(o.getNodePathBetweenTwoNodes(N(a), N(b), false)); }
  vector<long> edgePath(U a, U b) { return keys(o.getEdgePathBetweenTwoNodes(N(a), N(b))); }
  U mrca(const vector<U>& vs)
  {
    vector<NP> v;
    for (U x : vs) v.push_back(N(x));
    NP p = o.MRCA(v);
    return p ? p->id : ~0u;
  }
  long edgeLinking(U a, U b) { EP e = o.getEdgeLinking(N(a), N(b)); return e ? e->tag : NOKEY; }
};

// ------------------------------------------------------------------ node / edge indexes of the observer layer
// The observers offer a second form of most queries that takes and returns user-visible node / edge *indexes*
// (setNodeIndex / addNodeIndex ...) instead of objects.  An index is an arbitrary label: it has no relation with the id of
// the node in the underlying graph.  The book gives every live node and edge object an index under one of several
// labelings (equal to the graph ids = the usual configuration, a derangement of the ids, random small labels, labels far
// outside the id range, the first free label chosen by the library) and keeps its own table object -> index, from which
// the expected answers of the index forms are computed.  Index bookkeeping itself (refused / lost indexes) is not part of
// the property: when it fails the index forms are simply not judged any more in that case (tallied).
template<class Obs> struct IndexBook
{
  Obs* obs;
  int scheme;
  vrt::Rng rng; // private stream (seeded from a copy of the case stream: the case stream itself is not advanced)
  bool off;
  map<const NObj*, U> nIdx;
  map<const EObj*, U> eIdx;
  IndexBook() : obs(nullptr), scheme(0), off(true) {}
  void init(Obs* o, const vrt::Rng& caseRng)
  {
    obs = o;
    vrt::Rng tmp = caseRng;
    rng.reseed(vrt::mix(tmp.next(), 0xC15C15u));
    static const int PICK[10] = { 0, 1, 1, 2, 2, 2, 3, 3, 4, 4 };
    scheme = PICK[rng.below(10)];
    off = false;
  }
  const char* schemeName() const
  {
    static const char* const NAME[] = { "index=graph-id", "index=derangement-of-ids", "index=random-label", "index=outside-id-range", "index=first-free" };
    return NAME[scheme];
  }
  void giveUp(const string& why) { off = true; vrt::tally("index-forms-not-judged:" + why); }
  // label proposed for the object whose graph id / tag is k, among maxK+1 of them
  U propose(U k, U maxK, bool edge)
  {
    switch (scheme)
    {
    case 0: return k;
    case 1: return k ^ 1u;
    case 2: return static_cast<U>(rng.below(2 * (static_cast<size_t>(maxK) + 2)));
    default: return (edge ? 50u : 100u) + 3u * k;
    }
  }
  // every live node object and every live edge object carries an index known to the book; false: index forms cannot be judged
  bool ensure(const Model& m, const vector<NP>& nobj, const map<int, EP>& eobj)
  {
    if (off) return false;
    vrt::Outcome o = vrt::capture([&] {
      // nodes
      set<U> used;
      vector<U> todo;
      U maxId = 0;
      for (U v : m.nodes)
      {
        NP p = nobj.at(v);
        maxId = max(maxId, v);
        bool has = obs->hasNodeIndex(p);
        auto it = nIdx.find(p.get());
        if (has && it == nIdx.end()) { giveUp("node-has-an-index-nobody-gave"); return; }
        if (!has && it != nIdx.end()) { nIdx.erase(it); vrt::tally("index-lost:node"); it = nIdx.end(); }
        if (it != nIdx.end()) used.insert(it->second); else todo.push_back(v);
      }
      rng.shuffle(todo);
      for (U v : todo)
      {
        NP p = nobj.at(v);
        U idx;
        if (scheme == 4)
        {
          idx = obs->addNodeIndex(p);
          if (used.count(idx)) { giveUp("first-free-node-index-in-use"); return; }
        }
        else
        {
          idx = propose(v, maxId, false);
          while (used.count(idx) || obs->hasNode(idx)) ++idx;
          obs->setNodeIndex(p, idx);
        }
        nIdx[p.get()] = idx;
        used.insert(idx);
        vrt::tally(string("node-index:") + (idx == v ? "equal-to-graph-id" : m.nodes.count(idx) ? "graph-id-of-another-node" : "no-such-graph-id"));
      }
      // edge objects
      used.clear();
      vector<pair<U, int>> etodo; // (graph edge id, tag)
      U maxTag = 0;
      for (auto& kv : m.tags)
      {
        EP p = eobj.at(kv.second);
        maxTag = max(maxTag, static_cast<U>(kv.second));
        bool has = obs->hasEdgeIndex(p);
        auto it = eIdx.find(p.get());
        if (has && it == eIdx.end()) { giveUp("edge-has-an-index-nobody-gave"); return; }
        if (!has && it != eIdx.end()) { eIdx.erase(it); vrt::tally("index-lost:edge"); it = eIdx.end(); } // e.g. the object moved with setFather
        if (it != eIdx.end()) used.insert(it->second); else etodo.push_back(make_pair(kv.first, kv.second));
      }
      rng.shuffle(etodo);
      for (auto& et : etodo)
      {
        EP p = eobj.at(et.second);
        U idx;
        if (scheme == 4)
        {
          idx = obs->addEdgeIndex(p);
          if (used.count(idx)) { giveUp("first-free-edge-index-in-use"); return; }
        }
        else
        {
          // harness-given edge ids are >= 1000 (the index table is a vector): those are labelled by their tag
          idx = propose(scheme == 0 && et.first < 200 ? et.first : static_cast<U>(et.second), maxTag, true);
          while (used.count(idx) || obs->hasEdge(idx)) ++idx;
          obs->setEdgeIndex(p, idx);
        }
        eIdx[p.get()] = idx;
        used.insert(idx);
        vrt::tally(string("edge-index:") + (idx == et.first ? "equal-to-graph-id" : m.edges.count(idx) ? "graph-id-of-another-edge" : "no-such-graph-id"));
      }
    });
    if (!o.returned() && !off) giveUp("index-assignment-raised");
    return !off;
  }
  U n(const NP& p) const { return nIdx.at(p.get()); }
  U e(const EP& p) const { return eIdx.at(p.get()); }
};

// ------------------------------------------------------------------ checking machinery
struct Ctx
{
  string hist; // textual history of the running case
  string op;   // structural class of the last edit (kind + mode): part of the witness class of edit/validity clauses
  bool dead;   // the real structure diverged from the model: the case stops
  bool lastValidAnswer, lastRootedAnswer; // last observed isValid / isRooted answers (what a cache would hold)
  set<string> editsSince;                 // kinds of edits made since those answers
  Ctx() : dead(false), lastValidAnswer(false), lastRootedAnswer(false) {}
  // structural suffix for a wrong "true": was it a fresh evaluation or possibly a cached answer, and after which kind of edit
  string staleClass(bool lastAnswer) const
  {
    if (!lastAnswer || editsSince.empty()) return ":not-after-a-true-answer";
    return ":answer-was-true-before:" + (editsSince.size() == 1 ? "then-" + *editsSince.begin() : string("then-several-edits"));
  }
};

template<class T, class F> bool callQ(const char* clause, const string& cls, const Ctx& c, const string& what, T& out, F f)
{
  vrt::Outcome o = vrt::capture([&] { out = f(); });
  if (o.returned()) return true;
  ++counters()[clause];
  vrt::violation(clause, cls + (o.raisedBpp() ? ":raised-bpp-exception" : ":raised-foreign-exception"), c.hist + " => " + what + " " + o.text());
  return false;
}

enum StructCtx { S_EDIT = 0, S_REROOT = 1, S_DAG = 2, S_DAGREROOT = 3 };
const char* const CL_NODES[] = { "edit.nodes", "reroot.nodes", "dag.edit.nodes", "dag.rootAt.nodes" };
const char* const CL_EDGESET[] = { "edit.edge-set", "reroot.edge-set", "dag.edit.edge-set", "dag.rootAt.edge-set" };
const char* const CL_ORIENT[] = { "edit.orientation", "reroot.orientation", "dag.edit.orientation", "dag.rootAt.orientation" };
const char* const CL_ROOT[] = { "edit.root-and-mode", "reroot.root-and-mode", "dag.edit.root-and-mode", "dag.rootAt.root-and-mode" };

// raw structure of the real graph against the model.  A divergence ends the case (the state is no longer meaningful).
bool checkStructure(const GlobalGraph& g, Model& m, Ctx& c, StructCtx sc)
{
  const string cls = c.op;
  auto bad = [&](const string& w) { c.dead = true; return c.hist + " => " + w + "; model " + m.text(); };
  vector<U> nodes, edges;
  if (!callQ(CL_NODES[sc], cls, c, "getAllNodes", nodes, [&] { return g.getAllNodes(); })) { c.dead = true; return false; }
  if (!CHK(sorted(nodes) == m.nodeVec(), CL_NODES[sc], cls, bad("getAllNodes " + lst(nodes)))) return false;
  if (!callQ(CL_EDGESET[sc], cls, c, "getAllEdges", edges, [&] { return g.getAllEdges(); })) { c.dead = true; return false; }
  vector<U> expE;
  for (auto& e : m.edges) expE.push_back(e.first);
  if (!CHK(sorted(edges) == expE, CL_EDGESET[sc], cls, bad("getAllEdges " + lst(edges)))) return false;
  for (auto& e : m.edges)
  {
    pair<U, U> ends;
    if (!callQ(CL_EDGESET[sc], cls, c, "getNodes(" + str(e.first) + ")", ends, [&] { return g.getNodes(e.first); })) { c.dead = true; return false; }
    bool same = ends == e.second, swapped = ends.first == e.second.second && ends.second == e.second.first;
    if (!CHK(same || swapped, CL_EDGESET[sc], cls, bad("getNodes(" + str(e.first) + ")=(" + str(ends.first) + "," + str(ends.second) + ")"))) return false;
    // In a directed graph the end points recorded for an edge are (father, son) of the link, whatever the graph went through before
    // (built top-down, re-rooted, un-rooted and re-rooted: makeDirected() chooses a direction for every relation and must record it for
    // the edge as well, switchNodes() only rewrites the links the re-rooting flips).  getTop/getBottom, the observers' getSon/getFatherOfEdge
    // and getSubtreeEdges read that record.  (A former tolerance for records left reversed by makeDirected() - C14's defect b602af1,
    // repaired in the library - is gone: it hid every regression of that record, see notes "Strengthened after seeded change C15-s9".)
    if (m.directed && !same)
    {
      if (!CHK(false, CL_ORIENT[sc], cls + ":edge-end-points", bad("getNodes(" + str(e.first) + ")=(" + str(ends.first) + "," + str(ends.second) + ") is the reverse of the link"))) return false;
    }
    else ++counters()[CL_ORIENT[sc]];
  }
  for (U v : m.nodes)
  {
    vector<U> on, in, oe, ie;
    bool okc = callQ(CL_ORIENT[sc], cls, c, "getOutgoingNeighbors(" + str(v) + ")", on, [&] { return g.getOutgoingNeighbors(v); })
        && callQ(CL_ORIENT[sc], cls, c, "getIncomingNeighbors(" + str(v) + ")", in, [&] { return g.getIncomingNeighbors(v); })
        && callQ(CL_ORIENT[sc], cls, c, "getOutgoingEdges(" + str(v) + ")", oe, [&] { return g.getOutgoingEdges(v); })
        && callQ(CL_ORIENT[sc], cls, c, "getIncomingEdges(" + str(v) + ")", ie, [&] { return g.getIncomingEdges(v); });
    if (!okc) { c.dead = true; return false; }
    if (!CHK(sorted(on) == m.outN(v) && sorted(in) == m.inN(v) && sorted(oe) == m.outE(v) && sorted(ie) == m.inE(v), CL_ORIENT[sc], cls,
          bad("node " + str(v) + ": out " + lst(on) + " in " + lst(in) + " outEdges " + lst(oe) + " inEdges " + lst(ie)))) return false;
    // the edge listed towards a neighbour is the model's edge
    for (size_t i = 0; i < on.size() && i < oe.size(); ++i)
      if (!CHK(m.findEdge(v, on[i]) == static_cast<long>(oe[i]), CL_EDGESET[sc], cls, bad("node " + str(v) + " lists edge " + str(oe[i]) + " towards " + str(on[i])))) return false;
  }
  if (!CHK(g.getRoot() == m.root && g.isDirected() == m.directed, CL_ROOT[sc], cls, bad("getRoot " + str(g.getRoot()) + " isDirected " + str(g.isDirected())))) return false;
  return true;
}

// rebuild the model from the real graph (used only after calls whose effect the statement leaves open)
void resync(const GlobalGraph& g, Model& m, const function<int(U)>& tagOfReal)
{
  Model n;
  n.directed = g.isDirected();
  n.root = g.getRoot();
  for (U v : g.getAllNodes()) n.nodes.insert(v);
  for (U v : n.nodes)
  {
    vector<U> on = g.getOutgoingNeighbors(v), oe = g.getOutgoingEdges(v);
    for (size_t i = 0; i < on.size() && i < oe.size(); ++i)
      if (!n.edges.count(oe[i])) n.edges[oe[i]] = make_pair(v, on[i]);
  }
  for (U e : g.getAllEdges()) if (!n.edges.count(e)) n.edges[e] = g.getNodes(e); // dangling edges would show up in checkStructure
  for (auto& e : n.edges) { int t = tagOfReal ? tagOfReal(e.first) : -1; if (t >= 0) n.tags[e.first] = t; }
  m = n;
}

void checkTreeValidity(TreeView& v, const Model& m, const Ctx& c)
{
  const string reason = treeInvalidReason(m);
  const string mode = m.directed ? "rooted" : "unrooted";
  bool got = false;
  vrt::Outcome o = vrt::capture([&] { got = v.isValid(); });
  if (reason == "root-absent" || reason == "empty")
  {
    // no root to span from: "false" and the library's exception both say "not a valid tree"
    CHK((o.returned() && !got) || o.raisedBpp(), "tree.isValid", string(v.kind()) + ":reason=" + reason + ":" + (o.returned() ? "got=true" : "foreign-exception"),
        c.hist + " => isValid " + (o.returned() ? str(got) : o.text()) + "; model " + m.text());
    vrt::cover(string("validity:") + v.kind() + ":" + mode + ":" + reason);
  }
  else
  {
    bool exp = reason.empty();
    CHK(o.returned() && got == exp, "tree.isValid", string(v.kind()) + ":" + mode + ":" + (o.returned() ? "got=" + str(got) : "raised") + ":reason=" + (exp ? "is-a-tree" : reason) + (o.returned() && got ? c.staleClass(c.lastValidAnswer) : ""),
        c.hist + " => isValid " + (o.returned() ? str(got) : o.text()) + " expected " + str(exp) + (exp ? "" : " (" + reason + ")") + "; model " + m.text());
    vrt::cover(string("validity:") + v.kind() + ":" + mode + ":" + (exp ? "valid" : reason) + ":after=" + c.op);
  }
  bool rooted = false;
  vrt::Outcome r = vrt::capture([&] { rooted = v.isRooted(); });
  CHK(r.returned() && rooted == m.directed, "tree.isRooted", string(v.kind()) + ":" + mode, c.hist + " => isRooted " + (r.returned() ? str(rooted) : r.text()) + "; model " + m.text());
}

struct QueryPlan
{
  vector<U> nodes;
  vector<pair<U, U>> pairs;
  vector<vector<U>> subsets;
};

QueryPlan fullPlan(const Model& m, bool allSubsets, vrt::Rng& rng, size_t nSubsets)
{
  QueryPlan p;
  p.nodes = m.nodeVec();
  for (U a : p.nodes) for (U b : p.nodes) p.pairs.push_back(make_pair(a, b));
  size_t n = p.nodes.size();
  if (allSubsets && n <= 7)
  {
    for (unsigned mask = 0; mask < (1u << n); ++mask)
    {
      if (__builtin_popcount(mask) == 2) continue; // pairs are queried anyway
      vector<U> s;
      for (size_t i = 0; i < n; ++i) if (mask & (1u << i)) s.push_back(p.nodes[i]);
      rng.shuffle(s);
      p.subsets.push_back(s);
    }
  }
  else
  {
    p.subsets.push_back(vector<U>());
    for (size_t k = 0; k < nSubsets; ++k)
    {
      vector<U> all = p.nodes, s;
      rng.shuffle(all);
      size_t sz = k % 3 == 0 ? 3 : static_cast<size_t>(rng.range(1, static_cast<long long>(n)));
      if (sz > n) sz = n;
      s.assign(all.begin(), all.begin() + static_cast<long>(sz));
      p.subsets.push_back(s);
    }
  }
  return p;
}
QueryPlan samplePlan(const Model& m, vrt::Rng& rng, size_t nNodes, size_t nPairs, size_t nSubsets)
{
  QueryPlan p;
  vector<U> all = m.nodeVec();
  for (size_t i = 0; i < nNodes; ++i) p.nodes.push_back(rng.pick(all));
  for (size_t i = 0; i < nPairs; ++i) p.pairs.push_back(make_pair(rng.pick(all), rng.pick(all)));
  for (size_t k = 0; k < nSubsets; ++k)
  {
    vector<U> a = all, s;
    rng.shuffle(a);
    size_t sz = static_cast<size_t>(rng.range(1, static_cast<long long>(min<size_t>(a.size(), 5))));
    s.assign(a.begin(), a.begin() + static_cast<long>(sz));
    p.subsets.push_back(s);
  }
  return p;
}

// every query of the property on a valid rooted tree, against the definitions evaluated on the parent array
void checkTreeQueries(TreeView& v, const Model& m, const RTree& t, const QueryPlan& plan, const Ctx& c)
{
  const string K = v.kind();
  auto W = [&](const string& w) { return c.hist + " => [" + K + "] " + w + "; model " + m.text(); };
  for (U x : plan.nodes)
  {
    const string kind = t.kindOf(x), sx = str(x);
    bool hf = false;
    if (callQ("tree.father", K + ":hasFather", c, "hasFather(" + sx + ")", hf, [&] { return v.hasFather(x); }))
      CHK(hf == t.hasFather(x), "tree.father", K + ":hasFather:" + kind, W("hasFather(" + sx + ")=" + str(hf)));
    if (t.hasFather(x))
    {
      U f = 0, p = t.par.at(x);
      if (callQ("tree.father", K + ":getFatherOfNode", c, "getFatherOfNode(" + sx + ")", f, [&] { return v.father(x); }))
        CHK(f == p, "tree.father", K + ":getFatherOfNode", W("getFatherOfNode(" + sx + ")=" + str(f) + " expected " + str(p)));
      long k = 0, ek = v.keyOf(m, t.parEdge.at(x));
      if (callQ("tree.edgeToFather", K, c, "getEdgeToFather(" + sx + ")", k, [&] { return v.edgeToFather(x); }))
        CHK(k == ek, "tree.edgeToFather", K + (ek == NOKEY ? ":edge-without-object" : ""), W("getEdgeToFather(" + sx + ")=" + str(k) + " expected " + str(ek)));
      if (callQ("tree.edgeLinking", K, c, "getEdge/getEdgeLinking(" + str(p) + "," + sx + ")", k, [&] { return v.edgeLinking(p, x); }))
        CHK(k == ek, "tree.edgeLinking", K + (ek == NOKEY ? ":edge-without-object" : ""), W("edge linking " + str(p) + "->" + sx + " = " + str(k) + " expected " + str(ek)));
    }
    else
    {
      // the root has no father: the statement does not fix the outcome, only that the call comes back
      U f = 0;
      vrt::Outcome o = vrt::capture([&] { f = v.father(x); });
      ++counters()["tree.father-of-root-unjudged"];
      (void)o;
    }
    const vector<U>& kids = t.kids.at(x);
    vector<U> s, si;
    vector<long> b, bi, eb;
    for (U k : kids) eb.push_back(v.keyOf(m, t.parEdge.at(k)));
    if (v.objectLevel()) eb.erase(remove(eb.begin(), eb.end(), NOKEY), eb.end());
    sort(eb.begin(), eb.end());
    size_t ns = 0;
    if (callQ("tree.sons", K + ":getSons", c, "getSons(" + sx + ")", s, [&] { return v.sons(x); }))
      CHK(sorted(s) == kids, "tree.sons", K + ":getSons:" + kind, W("getSons(" + sx + ")=" + lst(s) + " expected " + lst(kids)));
    if (callQ("tree.sons", K + ":getNumberOfSons", c, "getNumberOfSons(" + sx + ")", ns, [&] { return v.nSons(x); }))
      CHK(ns == kids.size(), "tree.sons", K + ":getNumberOfSons:" + kind, W("getNumberOfSons(" + sx + ")=" + str(ns)));
    if (callQ("tree.sons", K + ":sonsIterator", c, "sonsIterator(" + sx + ")", si, [&] { return v.sonsIt(x); }))
      CHK(sorted(si) == kids, "tree.sons", K + ":sonsIterator:" + kind, W("sonsIterator(" + sx + ") gives " + lst(si) + " expected " + lst(kids)));
    if (callQ("tree.branches", K + ":getBranches", c, "getBranches(" + sx + ")", b, [&] { return v.branches(x); }))
      CHK(sorted(b) == eb, "tree.branches", K + ":getBranches:" + kind, W("getBranches(" + sx + ")=" + lst(b) + " expected " + lst(eb)));
    if (callQ("tree.branches", K + ":branchesIterator", c, "branchesIterator(" + sx + ")", bi, [&] { return v.branchesIt(x); }))
      CHK(sorted(bi) == eb, "tree.branches", K + ":branchesIterator:" + kind, W("branchesIterator(" + sx + ") gives " + lst(bi) + " expected " + lst(eb)));
    // isLeaf: judged where "no son" and "at most one neighbour" (the two readings of the doc comment) agree
    {
      size_t neigh = kids.size() + (t.hasFather(x) ? 1 : 0);
      bool lf = false;
      if (callQ("tree.isLeaf", K, c, "isLeaf(" + sx + ")", lf, [&] { return v.isLeaf(x); }))
      {
        if (kids.empty()) CHK(lf, "tree.isLeaf", K + ":" + kind, W("isLeaf(" + sx + ")=false for a node without son"));
        else if (neigh >= 2) CHK(!lf, "tree.isLeaf", K + ":" + kind, W("isLeaf(" + sx + ")=true for a node with a son and " + str(neigh) + " neighbours"));
        else ++counters()["tree.isLeaf-root-with-one-son-unjudged"];
      }
    }
    // leaves under x: the son-less nodes of the subtree; for a leaf itself {x} (what the code does) or {} are both readings of "under"
    {
      vector<U> lv, el = t.leavesUnder(x);
      const string cls = K + ":" + kind + (t.unaryBelow(x) ? ":unary-node-below" : "");
      if (callQ("tree.leavesUnder", cls, c, "getLeavesUnderNode(" + sx + ")", lv, [&] { return v.leavesUnder(x); }))
      {
        bool ok = sorted(lv) == el || (kids.empty() && lv.empty());
        CHK(ok, "tree.leavesUnder", cls, W("getLeavesUnderNode(" + sx + ")=" + lst(lv) + " expected " + lst(el)));
        vrt::cover("leavesUnder:" + cls);
      }
    }
    {
      vector<U> sn, en = t.subtreeNodes(x);
      if (callQ("tree.subtreeNodes", K + ":" + kind, c, "getSubtreeNodes(" + sx + ")", sn, [&] { return v.subtreeNodes(x); }))
        CHK(sorted(sn) == en, "tree.subtreeNodes", K + ":" + kind, W("getSubtreeNodes(" + sx + ")=" + lst(sn) + " expected " + lst(en)));
      {
        vector<long> se, ee = v.keysOf(m, t.subtreeEdges(x));
        sort(ee.begin(), ee.end());
        if (callQ("tree.subtreeEdges", K + ":" + kind, c, "getSubtreeEdges(" + sx + ")", se, [&] { return v.subtreeEdges(x); }))
          CHK(sorted(se) == ee, "tree.subtreeEdges", K + ":" + kind, W("getSubtreeEdges(" + sx + ")=" + lst(se) + " expected " + lst(ee)));
      }
    }
  }
  for (auto& ab : plan.pairs)
  {
    U a = ab.first, b = ab.second;
    const string rel = t.relation(a, b), sab = "(" + str(a) + "," + str(b);
    for (int incl = 1; incl >= 0; --incl)
    {
      vector<U> p, ep = t.nodePath(a, b, incl != 0);
      const string cls = K + ":" + rel + (incl ? ":with-ancestor" : ":without-ancestor");
      if (callQ("tree.nodePath", cls, c, "getNodePathBetweenTwoNodes" + sab + "," + str(incl) + ")", p, [&] { return v.nodePath(a, b, incl != 0); }))
        CHK(p == ep, "tree.nodePath", cls, W("getNodePathBetweenTwoNodes" + sab + "," + str(incl) + ")=" + lst(p) + " expected " + lst(ep)));
      vrt::cover("nodePath:" + cls);
    }
    {
      vector<long> p, ep = v.keysOf(m, t.edgePath(a, b));
      if (callQ("tree.edgePath", K + ":" + rel, c, "getEdgePathBetweenTwoNodes" + sab + ")", p, [&] { return v.edgePath(a, b); }))
        CHK(p == ep, "tree.edgePath", K + ":" + rel, W("getEdgePathBetweenTwoNodes" + sab + ")=" + lst(p) + " expected " + lst(ep)));
    }
    if (a != b)
    {
      vector<U> s{ a, b };
      U got = 0, e = t.mrca(s);
      const string cls = K + ":" + t.subsetClass(s) + ":" + rel;
      if (callQ("tree.mrca", cls, c, "MRCA" + lst(s), got, [&] { return v.mrca(s); }))
        CHK(got == e, "tree.mrca", cls, W("MRCA" + lst(s) + "=" + str(got) + " expected " + str(e)));
      vrt::cover("mrca:" + cls);
    }
  }
  for (auto& s : plan.subsets)
  {
    if (s.empty())
    {
      // the most recent common ancestor of no node is not defined: any outcome but an abort
      U got = 0;
      vrt::Outcome o = vrt::capture([&] { got = v.mrca(s); });
      (void)o;
      ++counters()["tree.mrca-empty-set-unjudged"];
      continue;
    }
    U got = 0, e = t.mrca(s);
    const string cls = K + ":" + t.subsetClass(s);
    if (callQ("tree.mrca", cls, c, "MRCA" + lst(s), got, [&] { return v.mrca(s); }))
      CHK(got == e, "tree.mrca", cls, W("MRCA" + lst(s) + "=" + str(got) + " expected " + str(e)));
    vrt::cover("mrca:" + cls);
  }
}

// ------------------------------------------------------------------ the tree under test (plain graph or observer layer) + model, edit operations
struct TreeSut
{
  bool obsLayer;
  shared_ptr<TreeGlobalGraph> g;
  unique_ptr<TreeObs> obs;
  vector<NP> nobj;      // node objects by graph id (observer layer)
  map<int, EP> eobj;    // edge objects by tag
  int nextTag;
  U nextExplicit;       // explicit edge ids given by the harness live far above the ids the graph allocates itself
  Model m;
  Ctx c;
  unique_ptr<TreeView> pv, ov;
  vrt::Rng& rng;
  IndexBook<TreeObs> ib; // observer layer: node / edge indexes for the index forms of the queries

  TreeSut(bool observerLayer, vrt::Rng& r) : obsLayer(observerLayer), nextTag(1), nextExplicit(1000), rng(r)
  {
    if (obsLayer)
    {
      obs.reset(new TreeObs(true));
      g = obs->getGraph();
      // Avoids a defect owned by C14 (object lists index one past the object table when an edge without object has id == table size):
      // on the unrepaired tree this reserves the table; on the repaired tree the call is refused, which is fine as well.
      EP dummy(new EObj(0));
      vrt::capture([&] { obs->associateEdge(dummy, 2999); });
      ov.reset(new ObsTreeView(*obs, nobj));
      ib.init(obs.get(), r);
    }
    else g.reset(new TreeGlobalGraph(true));
    pv.reset(new PlainTreeView(*g));
  }
  string mode() const { return m.directed ? "rooted" : "unrooted"; }
  string layer() const { return obsLayer ? "observer" : "plain"; }
  void begin(const string& kind, const string& text)
  {
    vrt::step(text);
    c.hist += (c.hist.empty() ? "" : " ; ") + text;
    c.op = kind + ":" + mode();
    c.editsSince.insert(kind.substr(0, kind.find_first_of(":+(")));
  }
  bool mustReturn(const vrt::Outcome& o)
  {
    bool ok = CHK(o.returned(), "edit.returns", layer() + ":" + c.op + (o.raisedBpp() ? ":bpp-exception" : ":foreign-exception"), c.hist + " => " + o.text() + "; model " + m.text());
    if (!ok) c.dead = true;
    return ok;
  }
  bool after(StructCtx sc = S_EDIT) { return !c.dead && checkStructure(*g, m, c, sc); }
  void doResync()
  {
    vrt::tally("resync-after-open-behaviour:" + c.op);
    resync(*g, m, obsLayer ? function<int(U)>([&](U e) { EP p = obs->getEdgeFromGraphid(e); return p ? p->tag : -1; }) : function<int(U)>());
  }
  EP newEdgeObj() { EP e(new EObj(nextTag++)); eobj[e->tag] = e; return e; }
  // learn the id the graph gave to a new link a->b
  bool learnEdge(U a, U b, int tag)
  {
    U id = 0;
    if (!callQ("edit.edge-set", layer() + ":" + c.op + ":getEdge-of-new-link", c, "getEdge(" + str(a) + "," + str(b) + ")", id, [&] { return g->getEdge(a, b); })) { c.dead = true; return false; }
    if (!CHK(!m.edges.count(id), "edit.edge-set", layer() + ":" + c.op + ":new-link-reuses-live-edge-id", c.hist + " => new link " + str(a) + "->" + str(b) + " got edge id " + str(id) + " which is in use; model " + m.text())) { c.dead = true; return false; }
    m.edges[id] = make_pair(a, b);
    if (tag >= 0) m.tags[id] = tag;
    return true;
  }

  U opCreateNode()
  {
    begin("createNode", "createNode()");
    U id = ~0u;
    vrt::Outcome o = vrt::capture([&] {
      if (obsLayer) { NP n(new NObj()); obs->createNode(n); n->id = obs->getNodeGraphid(n); if (nobj.size() <= n->id) nobj.resize(n->id + 1); nobj[n->id] = n; id = n->id; }
      else id = g->createNode();
    });
    if (!mustReturn(o)) return id;
    if (!CHK(!m.nodes.count(id), "edit.nodes", layer() + ":" + c.op + ":id-in-use", c.hist + " => new node got id " + str(id) + "; model " + m.text())) { c.dead = true; return id; }
    m.nodes.insert(id);
    c.hist += "=" + str(id);
    after();
    return id;
  }
  U opCreateNodeFrom(U p, bool withObj)
  {
    begin(string("createNodeFromNode") + (withObj ? "+edge-object" : ""), "createNodeFrom(" + str(p) + (withObj ? ",obj" : "") + ")");
    U id = ~0u;
    int tag = -1;
    vrt::Outcome o = vrt::capture([&] {
      if (obsLayer)
      {
        NP n(new NObj());
        EP e;
        if (withObj) { e = newEdgeObj(); tag = e->tag; }
        obs->createNode(nobj.at(p), n, e);
        n->id = obs->getNodeGraphid(n);
        if (nobj.size() <= n->id) nobj.resize(n->id + 1);
        nobj[n->id] = n;
        id = n->id;
      }
      else id = g->createNodeFromNode(p);
    });
    if (!mustReturn(o)) return id;
    if (!CHK(!m.nodes.count(id), "edit.nodes", layer() + ":" + c.op + ":id-in-use", c.hist + " => new node got id " + str(id))) { c.dead = true; return id; }
    m.nodes.insert(id);
    c.hist += "=" + str(id);
    if (!learnEdge(p, id, tag)) return id;
    after();
    return id;
  }
  // how: 0 no edge argument; 1 plain: explicit fresh edge id / observer: generic link(a,b,object);
  //      2 observer: addSon with an object associated beforehand to a free edge id; 3 observer: addSon with an object the observer has never seen
  void opAddSon(U a, U b, int how)
  {
    if (!obsLayer && how > 1) how = 1;
    static const char* const HOW[] = { "", "+edge", "+reserved-object", "+unknown-object" };
    begin(string("addSon") + HOW[how] + (a == b ? ":self" : m.directed && m.findEdge(b, a) >= 0 ? ":reciprocal" : ""), "addSon(" + str(a) + "," + str(b) + HOW[how] + ")");
    int tag = -1;
    U eid = 0;
    bool explicitId = false;
    vrt::Outcome o;
    if (!obsLayer)
    {
      if (how == 1) { eid = nextExplicit++; explicitId = true; o = vrt::capture([&] { g->addSon(a, b, eid); }); }
      else o = vrt::capture([&] { g->addSon(a, b); });
    }
    else if (how == 0) o = vrt::capture([&] { obs->addSon(nobj.at(a), nobj.at(b)); });
    else
    {
      EP e = newEdgeObj();
      tag = e->tag;
      if (how == 2)
      {
        eid = nextExplicit++;
        vrt::Outcome ao = vrt::capture([&] { obs->associateEdge(e, eid); });
        if (!ao.returned()) { how = 1; vrt::tally("reserved-edge-id-association-refused"); } // repaired observer refuses ids that are not in the graph: use the generic route
        else explicitId = true;
      }
      if (how == 1) o = vrt::capture([&] { obs->link(nobj.at(a), nobj.at(b), e); });
      else
      {
        o = vrt::capture([&] { obs->addSon(nobj.at(a), nobj.at(b), e); });
        if (how == 3 && !o.returned())
        {
          // the tree observer only takes edge objects it already knows; the statement speaks about calls that set the link
          ++counters()["attach.unknown-object-refused-unjudged"];
          CHK(o.raisedBpp(), "attach.refusal-is-library-exception", layer() + ":addSon", c.hist + " => " + o.text());
          eobj.erase(tag);
          after();
          return;
        }
      }
    }
    if (!mustReturn(o)) return;
    if (explicitId)
    {
      if (!CHK(!m.edges.count(eid), "edit.edge-set", layer() + ":" + c.op + ":explicit-id-in-use", c.hist + " => explicit id in use")) { c.dead = true; return; }
      m.edges[eid] = make_pair(a, b);
      if (tag >= 0) m.tags[eid] = tag;
    }
    else if (!learnEdge(a, b, tag)) return;
    if (!after()) return;
    if (how >= 1) checkAttached(a, b, explicitId ? static_cast<long>(eid) : -1, tag, "addSon");
  }
  // the edge id / edge object handed to addSon or setFather is the one found on the link father->node afterwards
  void checkAttached(U f, U n, long eid, int tag, const string& route)
  {
    if (!obsLayer)
    {
      U got = 0;
      if (callQ("attach.plain-edge-id", route, c, "getEdge(" + str(f) + "," + str(n) + ")", got, [&] { return g->getEdge(f, n); }))
        CHK(static_cast<long>(got) == eid, "attach.plain-edge-id", route + ":getEdge", c.hist + " => getEdge(" + str(f) + "," + str(n) + ")=" + str(got) + " expected the given id " + str(eid));
      if (m.directed && m.inN(n).size() == 1 && callQ("attach.plain-edge-id", route, c, "getEdgeToFather(" + str(n) + ")", got, [&] { return g->getEdgeToFather(n); }))
        CHK(static_cast<long>(got) == eid, "attach.plain-edge-id", route + ":getEdgeToFather", c.hist + " => getEdgeToFather(" + str(n) + ")=" + str(got) + " expected the given id " + str(eid));
      return;
    }
    EP e = eobj.at(tag), got;
    if (callQ("attach.edge-object", route, c, "getEdgeLinking(" + str(f) + "," + str(n) + ")", got, [&] { return obs->getEdgeLinking(nobj.at(f), nobj.at(n)); }))
      CHK(got == e, "attach.edge-object", route + ":getEdgeLinking", c.hist + " => getEdgeLinking(" + str(f) + "," + str(n) + ") gives " + (got ? "object #" + str(got->tag) : string("no object")) + " expected object #" + str(tag));
    if (m.directed && m.inN(n).size() == 1 && callQ("attach.edge-object", route, c, "getEdgeToFather(" + str(n) + ")", got, [&] { return obs->getEdgeToFather(nobj.at(n)); }))
      CHK(got == e, "attach.edge-object", route + ":getEdgeToFather", c.hist + " => getEdgeToFather(" + str(n) + ") gives " + (got ? "object #" + str(got->tag) : string("no object")) + " expected object #" + str(tag));
    bool has = false;
    if (callQ("attach.edge-object", route, c, "hasEdge(object)", has, [&] { return obs->hasEdge(e); }))
      CHK(has, "attach.edge-object", route + ":hasEdge", c.hist + " => the observer no longer knows edge object #" + str(tag));
  }
  // how: 0 no edge argument; 1 plain: fresh explicit id; 2 plain: the id of the current father edge / observer: the object of the current father edge;
  //      3 observer: an object the observer has never seen
  void opSetFather(U n, U f, int how)
  {
    vector<U> fathers = m.inN(n);
    long curEdge = fathers.size() == 1 ? m.findEdge(fathers[0], n) : -1;
    if (how == 2 && (curEdge < 0 || (obsLayer && m.tagOf(static_cast<U>(curEdge)) < 0))) how = obsLayer ? 0 : 1;
    if (obsLayer && how == 1) how = 0;
    if (!obsLayer && how == 3) how = 1;
    static const char* const HOW[] = { "", "+edge", "+edge-of-former-father", "+unknown-object" };
    begin(string("setFather") + HOW[how] + (fathers.empty() ? ":had-none" : fathers.size() == 1 ? (fathers[0] == f ? ":same-father" : ":had-one") : ":had-several") + (n == f ? ":self" : ""),
        "setFather(" + str(n) + "," + str(f) + HOW[how] + ")");
    int tag = -1;
    U eid = 0;
    vrt::Outcome o;
    if (!obsLayer)
    {
      if (how == 0) o = vrt::capture([&] { g->setFather(n, f); });
      else { eid = how == 2 ? static_cast<U>(curEdge) : nextExplicit++; o = vrt::capture([&] { g->setFather(n, f, eid); }); }
    }
    else
    {
      if (how == 0) o = vrt::capture([&] { obs->setFather(nobj.at(n), nobj.at(f)); });
      else
      {
        EP e = how == 2 ? eobj.at(m.tagOf(static_cast<U>(curEdge))) : newEdgeObj();
        tag = e->tag;
        o = vrt::capture([&] { obs->setFather(nobj.at(n), nobj.at(f), e); });
        if (how == 3 && !o.returned())
        {
          ++counters()["attach.unknown-object-refused-unjudged"];
          CHK(o.raisedBpp(), "attach.refusal-is-library-exception", layer() + ":setFather", c.hist + " => " + o.text());
          eobj.erase(tag);
          doResync(); // whether the former father was already detached is left open
          after();
          return;
        }
      }
    }
    if (fathers.size() > 1)
    {
      // "the" father of a node with several incoming links is not defined: any outcome, the model follows the graph
      ++counters()["edit.setFather-on-node-with-several-fathers-unjudged"];
      doResync();
      after();
      return;
    }
    if (!mustReturn(o)) return;
    if (curEdge >= 0) m.eraseEdge(static_cast<U>(curEdge));
    if (how == 0 || (obsLayer && how >= 2))
    {
      if (!learnEdge(f, n, tag)) return;
    }
    else
    {
      if (!CHK(!m.edges.count(eid), "edit.edge-set", layer() + ":" + c.op + ":explicit-id-in-use", c.hist + " => explicit id in use")) { c.dead = true; return; }
      m.edges[eid] = make_pair(f, n);
    }
    if (!after()) return;
    if (how >= 1) checkAttached(f, n, obsLayer ? -1 : static_cast<long>(eid), tag, string("setFather") + HOW[how]);
  }
  void opRemoveSon(U a, U b, bool viaUnlink)
  {
    long e = m.directed ? m.findEdge(a, b) : -1;
    begin(string("removeSon") + (e < 0 ? ":no-such-link" : ""), string(viaUnlink && obsLayer ? "unlink(" : "removeSon(") + str(a) + "," + str(b) + ")");
    vrt::Outcome o = vrt::capture([&] {
      if (!obsLayer) g->removeSon(a, b);
      else if (viaUnlink) obs->unlink(nobj.at(a), nobj.at(b));
      else obs->removeSon(nobj.at(a), nobj.at(b));
    });
    if (e < 0) { ++counters()["edit.removeSon-without-link-unjudged"]; doResync(); after(); return; }
    if (!mustReturn(o)) return;
    m.eraseEdge(static_cast<U>(e));
    after();
  }
  void opRemoveSons(U a)
  {
    begin("removeSons", "removeSons(" + str(a) + ")");
    vector<U> got, exp = m.outN(a);
    vrt::Outcome o = vrt::capture([&] {
      if (!obsLayer) got = g->removeSons(a);
      else got = ObsTreeView::ids(obs->removeSons(nobj.at(a)));
    });
    if (!mustReturn(o)) return;
    CHK(sorted(got) == exp, "edit.removeSons-result", layer(), c.hist + " => returned " + lst(got) + " expected " + lst(exp));
    for (U s : exp) m.eraseEdge(static_cast<U>(m.findEdge(a, s)));
    after();
  }
  void opDeleteNode(U n)
  {
    begin(string("deleteNode") + (n == m.root ? ":root" : m.outN(n).empty() && m.inN(n).empty() ? ":isolated" : m.outN(n).empty() ? ":leaf" : ":inner"), "deleteNode(" + str(n) + ")");
    vrt::Outcome o = vrt::capture([&] {
      if (!obsLayer) g->deleteNode(n);
      else obs->deleteNode(nobj.at(n));
    });
    if (!mustReturn(o)) return;
    m.eraseNode(n);
    after();
  }
  void opSetRoot(U n) // observer layer only
  {
    begin("setRoot", "setRoot(" + str(n) + ")");
    vrt::Outcome o = vrt::capture([&] { obs->setRoot(nobj.at(n)); });
    if (!mustReturn(o)) return;
    m.root = n;
    after();
  }
  void opCreateNodeOnEdge(U e) // plain layer, rooted mode
  {
    begin("createNodeOnEdge", "createNodeOnEdge(" + str(e) + ")");
    pair<U, U> ends = m.edges.at(e);
    U id = ~0u;
    vrt::Outcome o = vrt::capture([&] { id = g->createNodeOnEdge(e); });
    if (!mustReturn(o)) return;
    if (!CHK(!m.nodes.count(id), "edit.nodes", layer() + ":" + c.op + ":id-in-use", c.hist + " => new node got id " + str(id))) { c.dead = true; return; }
    c.hist += "=" + str(id);
    m.eraseEdge(e);
    m.nodes.insert(id);
    if (!learnEdge(ends.first, id, -1) || !learnEdge(id, ends.second, -1)) return;
    after();
  }
  void opUnRoot(bool join)
  {
    vector<U> rs = m.nodes.count(m.root) ? m.outN(m.root) : vector<U>();
    bool wasValid = treeValid(m);
    begin(string("unRoot") + (join ? "(join)" : "") + (join && rs.size() != 2 ? ":root-sons!=2" : "") + (m.directed && m.hasReciprocal() ? ":reciprocal" : ""), string("unRoot(") + (join ? "true" : "false") + ")");
    U oldRoot = m.root;
    vrt::Outcome o = vrt::capture([&] { g->unRoot(join); });
    bool wellFormed = !m.hasSelfLoop() && (join ? (m.directed && wasValid && rs.size() == 2) : (!m.directed || !m.hasReciprocal()));
    if (!wellFormed) { ++counters()["edit.unRoot-open-precondition-unjudged"]; doResync(); after(); return; }
    if (!mustReturn(o)) return;
    if (join)
    {
      m.eraseEdge(static_cast<U>(m.findEdge(oldRoot, rs[0])));
      m.eraseEdge(static_cast<U>(m.findEdge(oldRoot, rs[1])));
      // the two former sons of the root are joined by one new link; the kept "root" has no logical significance: either of them is fine
      U a = rs[0], b = rs[1];
      U id = 0;
      m.directed = false;
      c.op = "unRoot(join):unrooted";
      vrt::Outcome q = vrt::capture([&] { id = g->getAnyEdge(a, b); });
      if (!CHK(q.returned() && !m.edges.count(id), "edit.edge-set", layer() + ":unRoot(join):sons-not-joined", c.hist + " => no new link between the former sons " + str(a) + " and " + str(b))) { c.dead = true; return; }
      pair<U, U> ends = g->getNodes(id);
      m.edges[id] = (ends.first == b) ? make_pair(b, a) : make_pair(a, b);
      U r = g->getRoot();
      if (!CHK(r == a || r == b, "edit.root-and-mode", layer() + ":unRoot(join):root", c.hist + " => root " + str(r) + " after joining the sons " + str(a) + "," + str(b))) { c.dead = true; return; }
      m.root = r;
      // the former root node: left isolated or removed - both are "the flat unrooted version"
      vector<U> all = g->getAllNodes();
      if (find(all.begin(), all.end(), oldRoot) == all.end()) m.eraseNode(oldRoot);
    }
    else m.directed = false;
    after();
  }
  // re-rooting.  On a valid tree: every clause of the re-rooting statement; otherwise the outcome is open.
  void opRootAt(U r)
  {
    bool wasValid = treeValid(m), wasDirected = m.directed;
    begin(string("rootAt") + (wasValid ? (r == m.root && wasDirected ? ":same-root" : "") : ":invalid-tree"), "rootAt(" + str(r) + ")");
    Model before = m;
    vrt::Outcome o = vrt::capture([&] {
      if (!obsLayer) g->rootAt(r);
      else obs->rootAt(nobj.at(r));
    });
    if (!wasValid) { ++counters()["reroot.invalid-tree-unjudged"]; doResync(); after(); return; }
    const string cls = layer() + ":" + (wasDirected ? "from-rooted" : "from-unrooted");
    if (!CHK(o.returned(), "reroot.returns", cls + (o.raisedBpp() ? ":bpp-exception" : ":foreign-exception"), c.hist + " => " + o.text() + "; model " + before.text())) { c.dead = true; return; }
    // expected: same edges, same ids, same objects; every link directed away from r
    {
      map<U, pair<U, U>> oriented;
      set<U> seen;
      vector<U> todo(1, r);
      seen.insert(r);
      while (!todo.empty())
      {
        U v = todo.back();
        todo.pop_back();
        for (auto& e : m.edges)
        {
          U w;
          if (e.second.first == v) w = e.second.second;
          else if (e.second.second == v) w = e.second.first;
          else continue;
          if (seen.insert(w).second) { oriented[e.first] = make_pair(v, w); todo.push_back(w); }
        }
      }
      m.edges = oriented;
      m.root = r;
      m.directed = true;
    }
    c.op = "rootAt:" + string(wasDirected ? "from-rooted" : "from-unrooted");
    // Which record of the branches' end points does this re-rooting rely on?  From the un-rooted state the library first gives every
    // relation an arbitrary direction (makeDirected) and then flips the links that point to the new root.  A branch whose record from
    // before the un-rooting is the reverse of its final direction and which is NOT among the flipped ones (whatever the arbitrary
    // direction is: it is one of the two) is right only if the conversion itself rewrites the record.
    bool recordAgainst = false;
    if (!wasDirected)
      for (auto& e : m.edges)
      {
        const pair<U, U>& was = before.edges.at(e.first);
        if (was.first == e.second.second && was.second == e.second.first) recordAgainst = true;
      }
    if (!after(S_REROOT)) return;
    vrt::cover("reroot:" + cls + (r == before.root ? ":same-root" : ""));
    if (!wasDirected) vrt::cover("reroot:" + cls + (recordAgainst ? ":some-branch-recorded-the-other-way-before-un-rooting" : ":all-branches-recorded-in-final-direction"));
    for (TreeView* v : views())
    {
      const string K = v->kind();
      bool valid = false;
      if (callQ("reroot.valid", K, c, "isValid", valid, [&] { return v->isValid(); }))
        CHK(valid, "reroot.valid", K + ":" + cls, c.hist + " => isValid false after re-rooting a valid tree; model " + m.text());
      vector<U> fatherless;
      bool okc = true;
      for (U x : m.nodes)
      {
        bool hf = false;
        okc = okc && callQ("reroot.unique-fatherless-root", K, c, "hasFather(" + str(x) + ")", hf, [&] { return v->hasFather(x); });
        if (!hf) fatherless.push_back(x);
      }
      if (okc) CHK(fatherless == vector<U>(1, r), "reroot.unique-fatherless-root", K + ":" + cls, c.hist + " => father-less nodes " + lst(fatherless) + " expected only " + str(r));
      for (auto& e : m.edges)
      {
        long k = 0, ek = v->keyOf(m, e.first);
        if (callQ("reroot.objects", K, c, "edge linking " + str(e.second.first) + "->" + str(e.second.second), k, [&] { return v->edgeLinking(e.second.first, e.second.second); }))
          CHK(k == ek, "reroot.objects", K + ":" + cls + ":edgeLinking", c.hist + " => link " + str(e.second.first) + "->" + str(e.second.second) + " carries " + str(k) + " expected " + str(ek) + "; before " + before.text());
        if (callQ("reroot.objects", K, c, "getEdgeToFather(" + str(e.second.second) + ")", k, [&] { return v->edgeToFather(e.second.second); }))
          CHK(k == ek, "reroot.objects", K + ":" + cls + ":edgeToFather", c.hist + " => getEdgeToFather(" + str(e.second.second) + ")=" + str(k) + " expected " + str(ek) + "; before " + before.text());
      }
    }
  }
  vector<TreeView*> views()
  {
    vector<TreeView*> r(1, pv.get());
    if (ov) r.push_back(ov.get());
    return r;
  }
  void checkValidity()
  {
    for (TreeView* v : views()) checkTreeValidity(*v, m, c);
    c.lastValidAnswer = treeValid(m); // what a correct implementation has just answered (and may cache)
    c.editsSince.clear();
  }
  void checkQueries(const QueryPlan& p)
  {
    RTree t(m);
    for (TreeView* v : views()) checkTreeQueries(*v, m, t, p, c);
    if (obsLayer) checkEdgeEnds();
    if (obsLayer) checkIndexForms(t, p);
  }
  // object level, index forms: the same queries asked with the *index* of the node / edge object and answered in indexes.
  // An index is a label given by the user (here by the IndexBook, under several labelings): the answers must be the
  // definitions' answers translated through the book's own table, whatever the relation between indexes and graph ids.
  // Driven: every index overload of the tree observer that can be instantiated (getNodePathBetweenTwoNodes,
  // getEdgePathBetweenTwoNodes and getSubtreeNodes by index do not compile: unqualified dependent name / wrong arity).
  void checkIndexForms(const RTree& t, const QueryPlan& plan)
  {
    if (!ib.ensure(m, nobj, eobj)) return;
    const string K = "observer-index";
    const string labels = ib.schemeName();
    vrt::cover("index-forms:tree:" + labels);
    auto NI = [&](U v) { return ib.n(nobj.at(v)); };
    auto EI = [&](U e) { return ib.e(eobj.at(m.tagOf(e))); };
    auto NIs = [&](const vector<U>& vs) { vector<U> r; for (U v : vs) r.push_back(NI(v)); return sorted(r); };
    auto table = [&] {
      string s = " {node:index";
      for (U v : m.nodes) s += " " + str(v) + ":" + str(NI(v));
      s += "; edge#tag:index";
      for (auto& kv : m.tags) s += " " + str(kv.first) + "#" + str(kv.second) + ":" + str(EI(kv.first));
      return s + "}";
    };
    auto W = [&](const string& w) { return c.hist + " => [" + K + ", " + labels + "] " + w + table() + "; model " + m.text(); };
    set<U> seenNodes;
    for (U x : plan.nodes)
    {
      if (!seenNodes.insert(x).second) continue;
      const string kind = t.kindOf(x), sx = "index " + str(NI(x)) + " = node " + str(x);
      const U ix = NI(x);
      bool hf = false;
      if (callQ("tree.father", K + ":hasFather", c, "hasFather(" + sx + ")", hf, [&] { return obs->hasFather(ix); }))
        CHK(hf == t.hasFather(x), "tree.father", K + ":hasFather:" + kind, W("hasFather(" + sx + ")=" + str(hf)));
      if (t.hasFather(x))
      {
        long ek = m.tagOf(t.parEdge.at(x)), k = 0;
        if (callQ("tree.edgeToFather", K, c, "getEdgeToFather(" + sx + ")", k, [&] { EP e = obs->getEdgeToFather(ix); return e ? static_cast<long>(e->tag) : NOKEY; }))
          CHK(k == ek, "tree.edgeToFather", K + (ek == NOKEY ? ":edge-without-object" : ""), W("getEdgeToFather(" + sx + ") gives object #" + str(k) + " expected #" + str(ek)));
      }
      const vector<U>& kids = t.kids.at(x);
      vector<U> s, b, eb, es = NIs(kids);
      for (U k : kids) if (m.tagOf(t.parEdge.at(k)) >= 0) eb.push_back(EI(t.parEdge.at(k)));
      sort(eb.begin(), eb.end());
      if (callQ("tree.sons", K + ":getSons", c, "getSons(" + sx + ")", s, [&] { return obs->getSons(ix); }))
        CHK(sorted(s) == es, "tree.sons", K + ":getSons:" + kind, W("getSons(" + sx + ")=" + lst(s) + " expected indexes " + lst(es)));
      if (callQ("tree.branches", K + ":getBranches", c, "getBranches(" + sx + ")", b, [&] { return obs->getBranches(ix); }))
        CHK(sorted(b) == eb, "tree.branches", K + ":getBranches:" + kind, W("getBranches(" + sx + ")=" + lst(b) + " expected edge indexes " + lst(eb)));
      {
        vector<U> lv, el = NIs(t.leavesUnder(x));
        const string cls = K + ":" + kind + (t.unaryBelow(x) ? ":unary-node-below" : "");
        if (callQ("tree.leavesUnder", cls, c, "getLeavesUnderNode(" + sx + ")", lv, [&] { return obs->getLeavesUnderNode(ix); }))
        {
          CHK(sorted(lv) == el || (kids.empty() && lv.empty()), "tree.leavesUnder", cls, W("getLeavesUnderNode(" + sx + ")=" + lst(lv) + " expected indexes " + lst(el)));
          vrt::cover("leavesUnder:" + cls);
        }
      }
      {
        vector<U> se, ee;
        for (U e : t.subtreeEdges(x)) if (m.tagOf(e) >= 0) ee.push_back(EI(e));
        sort(ee.begin(), ee.end());
        if (callQ("tree.subtreeEdges", K + ":" + kind, c, "getSubtreeEdges(" + sx + ")", se, [&] { return obs->getSubtreeEdges(ix); }))
          CHK(sorted(se) == ee, "tree.subtreeEdges", K + ":" + kind, W("getSubtreeEdges(" + sx + ")=" + lst(se) + " expected edge indexes " + lst(ee)));
      }
    }
    for (auto& e : m.edges)
    {
      if (m.tagOf(e.first) < 0) continue;
      const U ie = EI(e.first);
      const string se = "edge index " + str(ie) + " = edge " + str(e.first);
      U s = 0, f = 0;
      if (callQ("tree.edge-ends", K + ":getSon", c, "getSon(" + se + ")", s, [&] { return obs->getSon(ie); }))
        CHK(s == NI(e.second.second), "tree.edge-ends", K + ":getSon", W("getSon(" + se + ")=" + str(s) + " expected index " + str(NI(e.second.second))));
      if (callQ("tree.edge-ends", K + ":getFatherOfEdge", c, "getFatherOfEdge(" + se + ")", f, [&] { return obs->getFatherOfEdge(ie); }))
        CHK(f == NI(e.second.first), "tree.edge-ends", K + ":getFatherOfEdge", W("getFatherOfEdge(" + se + ")=" + str(f) + " expected index " + str(NI(e.second.first))));
    }
  }
  // object level: the son / father end of every edge object
  void checkEdgeEnds()
  {
    for (auto& e : m.edges)
    {
      int tag = m.tagOf(e.first);
      if (tag < 0) continue;
      NP s, f;
      if (callQ("tree.edge-ends", "observer:getSon", c, "getSon(edge #" + str(tag) + ")", s, [&] { return obs->getSon(eobj.at(tag)); }))
        CHK(s && s->id == e.second.second, "tree.edge-ends", "observer:getSon", c.hist + " => getSon(edge #" + str(tag) + ")=" + (s ? str(s->id) : string("null")) + " expected " + str(e.second.second));
      if (callQ("tree.edge-ends", "observer:getFatherOfEdge", c, "getFatherOfEdge(edge #" + str(tag) + ")", f, [&] { return obs->getFatherOfEdge(eobj.at(tag)); }))
        CHK(f && f->id == e.second.first, "tree.edge-ends", "observer:getFatherOfEdge", c.hist + " => getFatherOfEdge(edge #" + str(tag) + ")=" + (f ? str(f->id) : string("null")) + " expected " + str(e.second.first));
    }
  }
};

// ------------------------------------------------------------------ tree workloads
// abstract rooted tree: par[i] < i for i >= 1, node 0 is the root
typedef vector<int> ParArr;

size_t nParArrays(int n) { size_t k = 1; for (int i = 2; i < n; ++i) k *= static_cast<size_t>(i); return k; } // (n-1)!
const int MAXN_EXH = 7;
size_t totalParArrays(int maxn) { size_t t = 0; for (int n = 1; n <= maxn; ++n) t += nParArrays(n); return t; }
ParArr decodeParArr(size_t idx)
{
  int n = 1;
  while (idx >= nParArrays(n)) { idx -= nParArrays(n); ++n; }
  ParArr p(static_cast<size_t>(n), -1);
  for (int i = 1; i < n; ++i) { p[static_cast<size_t>(i)] = static_cast<int>(idx % static_cast<size_t>(i)); idx /= static_cast<size_t>(i); }
  return p;
}
string parText(const ParArr& p)
{
  string s = "parents[";
  for (size_t i = 1; i < p.size(); ++i) s += (i > 1 ? "," : "") + str(p[i]);
  return s + "]";
}
string shapeClass(const ParArr& p)
{
  size_t n = p.size();
  vector<int> deg(n, 0);
  for (size_t i = 1; i < n; ++i) ++deg[static_cast<size_t>(p[i])];
  int unary = 0, maxd = 0;
  for (int d : deg) { if (d == 1) ++unary; maxd = max(maxd, d); }
  return "n=" + str(n) + ":maxdeg=" + str(min(maxd, 4)) + ":unary=" + str(min(unary, 3));
}

// Build the abstract tree in the real structure through a randomly chosen route; label -> graph id in `ids`.
// route 0: all nodes first (root first, the others in random order), links by addSon / setFather in random order
// route 1: createNodeFromNode in a random parent-before-child order
bool buildTree(TreeSut& t, const ParArr& p, vector<U>& ids, bool edgeObjects)
{
  size_t n = p.size();
  ids.assign(n, 0);
  vrt::Rng& rng = t.rng;
  int route = static_cast<int>(rng.below(2));
  if (route == 0)
  {
    vector<size_t> order;
    for (size_t i = 1; i < n; ++i) order.push_back(i);
    rng.shuffle(order);
    ids[0] = t.opCreateNode();
    for (size_t i : order) { if (t.c.dead) return false; ids[i] = t.opCreateNode(); }
    rng.shuffle(order);
    for (size_t i : order)
    {
      if (t.c.dead) return false;
      U son = ids[i], fa = ids[static_cast<size_t>(p[i])];
      bool withE = edgeObjects || rng.chance(0.4);
      if (rng.chance(0.5)) t.opAddSon(fa, son, withE ? (t.obsLayer && rng.chance(0.3) ? 2 : 1) : 0);
      else if (t.obsLayer && withE) t.opAddSon(fa, son, 1); // the tree observer's setFather cannot introduce a new object
      else t.opSetFather(son, fa, withE ? 1 : 0);
    }
  }
  else
  {
    ids[0] = t.opCreateNode();
    vector<size_t> ready, rest;
    vector<bool> made(n, false);
    made[0] = true;
    for (size_t done = 1; done < n; ++done)
    {
      if (t.c.dead) return false;
      vector<size_t> cand;
      for (size_t i = 1; i < n; ++i) if (!made[i] && made[static_cast<size_t>(p[i])]) cand.push_back(i);
      size_t i = rng.pick(cand);
      ids[i] = t.opCreateNodeFrom(ids[static_cast<size_t>(p[i])], edgeObjects || rng.chance(0.5));
      made[i] = true;
    }
  }
  return !t.c.dead;
}

// base tree: all queries; then every new root on a freshly built copy: re-rooting clauses + all queries again
void shapeCase(vrt::Case& c, const ParArr& p, bool allSubsets, size_t nSubsets, size_t maxRoots)
{
  size_t n = p.size();
  // private stream for the "re-root, un-root, re-root" histories (seeded from a copy: the case stream itself is not advanced)
  vrt::Rng xr;
  { vrt::Rng tmp = c.rng; xr.reseed(vrt::mix(tmp.next(), 0xC15509u)); }
  for (int layer = 0; layer < 2; ++layer)
  {
    vector<size_t> roots;
    for (size_t r = 0; r < n; ++r) roots.push_back(r);
    if (roots.size() > maxRoots) { c.rng.shuffle(roots); roots.resize(maxRoots); }
    // k = 0: the tree as built; then one fresh build per new root
    for (size_t k = 0; k <= roots.size(); ++k)
    {
      TreeSut t(layer == 1, c.rng);
      vector<U> ids;
      bool allObjects = c.rng.chance(0.5);
      if (!buildTree(t, p, ids, allObjects)) return;
      if (k == 0 || c.rng.chance(0.5)) t.checkValidity(); // sometimes the validity was never asked before re-rooting
      if (k > 0)
      {
        if (c.rng.chance(0.25))
        {
          // from the un-rooted state; in half of these the tree was re-rooted somewhere else before it was un-rooted, so that its
          // branches do not run in the order the nodes were created (a tree built top-down has every father older than its sons)
          if (xr.chance(0.5))
          {
            t.opRootAt(ids[xr.below(n)]);
            if (t.c.dead) return;
            if (xr.chance(0.5)) t.checkValidity();
          }
          t.opUnRoot(false);
          if (t.c.dead) return;
          if (c.rng.chance(0.5)) t.checkValidity();
        }
        t.opRootAt(ids[roots[k - 1]]);
        if (t.c.dead) return;
        t.checkValidity();
        if (c.rng.chance(0.3)) // a second re-rooting, back or elsewhere; sometimes through the un-rooted state
        {
          if (xr.chance(0.3))
          {
            t.opUnRoot(false);
            if (t.c.dead) return;
            if (xr.chance(0.5)) t.checkValidity();
          }
          t.opRootAt(ids[c.rng.below(n)]);
          if (t.c.dead) return;
          t.checkValidity();
        }
      }
      if (!treeValid(t.m) || !t.m.directed) { vrt::violation("harness.model", "shape-case-model-not-a-tree", t.c.hist + " model " + t.m.text()); return; }
      QueryPlan plan = fullPlan(t.m, allSubsets, c.rng, nSubsets);
      t.checkQueries(plan);
      if (vrt::violationsInCase() > 30) return;
    }
  }
}

void caseTreeShapes(vrt::Case& c)
{
  Flusher fl;
  ParArr p = decodeParArr(c.index);
  vrt::describe("tree-shape:" + shapeClass(p), parText(p) + " both layers, every new root");
  vrt::cover("shape:" + shapeClass(p));
  shapeCase(c, p, true, 0, 99);
}

ParArr randomParArr(vrt::Rng& rng, size_t n, string& kind)
{
  ParArr p(n, -1);
  int k = static_cast<int>(rng.below(6));
  static const char* const KIND[] = { "recursive", "path", "star", "caterpillar", "binary", "deep-biased" };
  kind = KIND[k];
  for (size_t i = 1; i < n; ++i)
  {
    int par;
    switch (k)
    {
    case 0: par = static_cast<int>(rng.below(i)); break;
    case 1: par = static_cast<int>(i) - 1; break;
    case 2: par = 0; break;
    case 3: par = (i % 2) ? static_cast<int>(i) - 1 : static_cast<int>(i) - 2; break; // even labels form the spine, odd ones hang on it
    case 4: par = static_cast<int>((i - 1) / 2); break;
    default: par = rng.chance(0.7) ? static_cast<int>(i) - 1 : static_cast<int>(rng.below(i)); break;
    }
    p[i] = par;
  }
  return p;
}

void caseTreeRandom(vrt::Case& c)
{
  Flusher fl;
  size_t n = static_cast<size_t>(c.rng.range(8, 12));
  string kind;
  ParArr p = randomParArr(c.rng, n, kind);
  vrt::describe("tree-random:" + kind, kind + " tree, " + parText(p));
  vrt::cover("shape-random:" + kind + ":" + shapeClass(p));
  shapeCase(c, p, false, c.tier == 1 ? 60 : 30, c.tier == 1 ? 99 : 4);
}

// histories: edits of every kind mixed with validity / rootedness / structural queries at random moments
void treeHistoryStep(TreeSut& t, vrt::Rng& rng)
{
  Model& m = t.m;
  vector<U> nodes = m.nodeVec();
  if (nodes.empty()) { t.opCreateNode(); return; }
  for (int attempt = 0; attempt < 20; ++attempt)
  {
    int w = static_cast<int>(rng.below(100));
    U a = rng.pick(nodes), b = rng.pick(nodes);
    if (m.directed)
    {
      if (w < 7) { t.opCreateNode(); return; }
      if (w < 17) { t.opCreateNodeFrom(a, rng.chance(0.5)); return; }
      if (w < 32)
      {
        // add a son: often an orphan gets a father (repairs a forest), sometimes a second father / a cycle / a reciprocal link
        vector<U> orphans;
        for (U v : nodes) if (v != m.root && m.inN(v).empty()) orphans.push_back(v);
        if (!orphans.empty() && rng.chance(0.6)) b = rng.pick(orphans);
        if (a == b && !rng.chance(0.05)) continue;
        if (m.findEdge(a, b) >= 0) continue; // a second link between the same nodes: defect area owned by C14
        int how = static_cast<int>(rng.below(t.obsLayer ? 4 : 2));
        t.opAddSon(a, b, how);
        return;
      }
      if (w < 47)
      {
        if (a == b && !rng.chance(0.05)) continue;
        if (a == m.root && !rng.chance(0.15)) continue;
        // the new link must not double an existing one other than the one being replaced
        vector<U> fa = m.inN(a);
        if (m.findEdge(b, a) >= 0 && !(fa.size() == 1 && fa[0] == b)) continue;
        t.opSetFather(a, b, static_cast<int>(rng.below(4)));
        return;
      }
      if (w < 56)
      {
        if (!m.edges.empty() && !rng.chance(0.04))
        {
          auto it = m.edges.begin();
          advance(it, static_cast<long>(rng.below(m.edges.size())));
          a = it->second.first;
          b = it->second.second;
        }
        else if (m.findEdge(a, b) >= 0) continue;
        t.opRemoveSon(a, b, rng.chance(0.5));
        return;
      }
      if (w < 59) { t.opRemoveSons(a); return; }
      if (w < 66)
      {
        if (a == m.root && !rng.chance(0.08)) continue;
        t.opDeleteNode(a);
        return;
      }
      if (w < 80)
      {
        if (!treeValid(m) && !rng.chance(0.15)) continue; // re-rooting an invalid tree is refused: keep it rare
        t.opRootAt(a);
        return;
      }
      if (w < 86)
      {
        if (m.hasSelfLoop()) continue;
        bool join = rng.chance(0.5);
        if (join)
        {
          // joining two sons that are already linked would be a second link between the same nodes (C14's area)
          if (!m.nodes.count(m.root)) continue;
          vector<U> rs = m.outN(m.root);
          if (rs.size() == 2 && m.adjacent(rs[0], rs[1])) continue;
        }
        t.opUnRoot(join);
        return;
      }
      if (w < 92)
      {
        if (t.obsLayer) { t.opSetRoot(a); return; }
        if (m.edges.empty()) continue;
        auto it = m.edges.begin();
        advance(it, static_cast<long>(rng.below(m.edges.size())));
        if (it->second.first == it->second.second) continue;
        t.opCreateNodeOnEdge(it->first);
        return;
      }
      // a burst of pure queries so that the cached validity is certainly set before the next edit
      t.checkValidity();
      return;
    }
    // unrooted (undirected) mode: only edits that do not need unlink (undirected unlink is a defect area owned by C14)
    if (w < 8) { t.opCreateNode(); return; }
    if (w < 22) { t.opCreateNodeFrom(a, rng.chance(0.5)); return; }
    if (w < 34)
    {
      if (a == b || m.adjacent(a, b)) continue;
      t.opAddSon(a, b, static_cast<int>(rng.below(t.obsLayer ? 2 : 2)));
      return;
    }
    if (w < 48)
    {
      vector<U> iso;
      for (U v : nodes) if (m.outN(v).empty() && m.inN(v).empty()) iso.push_back(v);
      if (iso.empty()) continue;
      a = rng.pick(iso);
      if (a == m.root && !rng.chance(0.2)) continue;
      t.opDeleteNode(a);
      return;
    }
    if (w < 88)
    {
      if (!treeValid(m) && !rng.chance(0.1)) continue;
      t.opRootAt(a);
      return;
    }
    if (w < 92) { t.opUnRoot(false); return; }
    if (t.obsLayer) { t.opSetRoot(a); return; }
    t.checkValidity();
    return;
  }
  t.checkValidity();
}

void caseTreeHistory(vrt::Case& c)
{
  Flusher fl;
  bool obs = (c.index % 2) == 1;
  TreeSut t(obs, c.rng);
  size_t len = static_cast<size_t>(c.rng.range(6, c.tier == 1 ? 60 : 36));
  size_t n0 = static_cast<size_t>(c.rng.range(0, 8));
  vrt::describe(string("tree-history:") + (obs ? "observer" : "plain"), string(obs ? "observer" : "plain") + " layer, start tree of " + str(n0) + " nodes, " + str(len) + " operations");
  if (n0 > 0)
  {
    string kind;
    ParArr p = n0 == 1 ? ParArr(1, -1) : randomParArr(c.rng, n0, kind);
    vector<U> ids;
    if (!buildTree(t, p, ids, c.rng.chance(0.5))) return;
  }
  double pValid = c.rng.chance(0.2) ? 0.15 : 0.6; // some histories query rarely: long stretches of edits between two validations
  for (size_t s = 0; s < len && !t.c.dead; ++s)
  {
    treeHistoryStep(t, c.rng);
    if (t.c.dead) break;
    if (c.rng.chance(pValid)) t.checkValidity();
    if (t.m.directed && c.rng.chance(0.3) && treeValid(t.m))
    {
      t.checkQueries(samplePlan(t.m, c.rng, 3, 4, 2));
      vrt::cover(string("history-queries:") + t.layer() + ":after=" + t.c.op);
    }
    if (vrt::violationsInCase() > 10) return;
  }
  if (!t.c.dead) t.checkValidity();
}

// setFather / addSon with an edge id (plain) or edge object (observer) on every (node, new father) choice of every small tree
void caseEdgeAttach(vrt::Case& c)
{
  Flusher fl;
  ParArr p = decodeParArr(c.index);
  size_t n = p.size();
  vrt::describe("edge-attach:" + shapeClass(p), parText(p) + ": setFather/addSon with an edge argument for every node and every new father, both layers");
  for (int layer = 0; layer < 2; ++layer)
    for (size_t x = 0; x <= n; ++x)     // x == n: a node created just before, added as a son
      for (size_t f = 0; f < n; ++f)
      {
        if (x == f) continue;
        for (int variant = 0; variant < 3; ++variant)
        {
          TreeSut t(layer == 1, c.rng);
          vector<U> ids;
          if (!buildTree(t, p, ids, true)) return;
          if (c.rng.chance(0.5)) t.checkValidity();
          string what;
          if (x == n)
          {
            U nn = t.opCreateNode();
            if (t.c.dead) return;
            int how = layer == 0 ? 1 : variant + 1;
            if (layer == 0 && variant > 0) break;
            t.opAddSon(ids[f], nn, how);
            what = "addSon:how=" + str(how);
          }
          else
          {
            if (x == 0 && variant == 2) break; // the root has no former father edge
            int how = layer == 0 ? (variant == 0 ? 1 : 2) : (variant == 0 ? 2 : variant == 1 ? 3 : 0);
            if (layer == 0 && variant == 2) break;
            if (x == 0 && how == 2) continue;
            t.opSetFather(ids[x], ids[f], how);
            what = "setFather:how=" + str(how);
          }
          if (t.c.dead) return;
          t.checkValidity();
          vrt::cover(string("edge-attach:") + t.layer() + ":" + what + ":" + (treeValid(t.m) ? "tree-after" : treeInvalidReason(t.m)));
          if (treeValid(t.m) && t.m.directed) t.checkQueries(samplePlan(t.m, c.rng, 3, 4, 2));
          if (vrt::violationsInCase() > 20) return;
        }
      }
}

// ------------------------------------------------------------------ DAG under test
struct DagSut
{
  bool obsLayer;
  shared_ptr<DAGlobalGraph> g;
  unique_ptr<DagObs> obs;
  vector<NP> nobj;
  map<int, EP> eobj;
  int nextTag;
  U nextExplicit;
  Model m;
  Ctx c;
  vrt::Rng& rng;
  bool structEvery; // compare the raw structure after every edit (histories) or only when asked (bulk enumeration)
  IndexBook<DagObs> ib; // observer layer: node / edge indexes for the index forms of the queries

  DagSut(bool observerLayer, vrt::Rng& r, bool se) : obsLayer(observerLayer), nextTag(1), nextExplicit(1000), rng(r), structEvery(se)
  {
    if (obsLayer)
    {
      obs.reset(new DagObs());
      g = obs->getGraph();
      EP dummy(new EObj(0));
      vrt::capture([&] { obs->associateEdge(dummy, 2999); }); // see TreeSut
      ib.init(obs.get(), r);
    }
    else g.reset(new DAGlobalGraph());
  }
  string layer() const { return obsLayer ? "observer" : "plain"; }
  void begin(const string& kind, const string& text)
  {
    vrt::step(text);
    c.hist += (c.hist.empty() ? "" : " ; ") + text;
    c.op = kind;
    c.editsSince.insert(kind.substr(0, kind.find_first_of(":+(")));
  }
  bool mustReturn(const vrt::Outcome& o)
  {
    bool ok = CHK(o.returned(), "dag.edit.returns", layer() + ":" + c.op + (o.raisedBpp() ? ":bpp-exception" : ":foreign-exception"), c.hist + " => " + o.text() + "; model " + m.text());
    if (!ok) c.dead = true;
    return ok;
  }
  bool structure(StructCtx sc = S_DAG) { return !c.dead && checkStructure(*g, m, c, sc); }
  bool after() { return structEvery ? structure() : !c.dead; }
  void doResync()
  {
    vrt::tally("resync-after-open-behaviour:dag:" + c.op);
    resync(*g, m, obsLayer ? function<int(U)>([&](U e) { EP p = obs->getEdgeFromGraphid(e); return p ? p->tag : -1; }) : function<int(U)>());
  }
  EP newEdgeObj() { EP e(new EObj(nextTag++)); eobj[e->tag] = e; return e; }
  bool learnEdge(U a, U b, int tag)
  {
    U id = 0;
    if (!callQ("dag.edit.edge-set", layer() + ":" + c.op + ":getEdge-of-new-link", c, "getEdge(" + str(a) + "," + str(b) + ")", id, [&] { return g->getEdge(a, b); })) { c.dead = true; return false; }
    if (!CHK(!m.edges.count(id), "dag.edit.edge-set", layer() + ":" + c.op + ":new-link-reuses-live-edge-id", c.hist + " => new link got edge id " + str(id) + " which is in use; model " + m.text())) { c.dead = true; return false; }
    m.edges[id] = make_pair(a, b);
    if (tag >= 0) m.tags[id] = tag;
    return true;
  }
  U opCreateNode()
  {
    begin("createNode", "createNode()");
    U id = ~0u;
    vrt::Outcome o = vrt::capture([&] {
      if (obsLayer) { NP n(new NObj()); obs->createNode(n); n->id = obs->getNodeGraphid(n); if (nobj.size() <= n->id) nobj.resize(n->id + 1); nobj[n->id] = n; id = n->id; }
      else id = g->createNode();
    });
    if (!mustReturn(o)) return id;
    if (!CHK(!m.nodes.count(id), "dag.edit.nodes", layer() + ":createNode:id-in-use", c.hist + " => new node got id " + str(id))) { c.dead = true; return id; }
    m.nodes.insert(id);
    c.hist += "=" + str(id);
    after();
    return id;
  }
  // link f -> n by addSon(f,n) or addFather(n,f); withEdge: explicit id (plain) / fresh edge object (observer)
  void opLink(U f, U n, bool viaFather, bool withEdge)
  {
    begin(string(viaFather ? "addFather" : "addSon") + (withEdge ? "+edge" : "") + (f == n ? ":self" : m.findEdge(n, f) >= 0 ? ":reciprocal" : ""),
        (viaFather ? "addFather(" + str(n) + "," + str(f) : "addSon(" + str(f) + "," + str(n)) + (withEdge ? ",edge)" : ")"));
    int tag = -1;
    U eid = 0;
    vrt::Outcome o;
    if (!obsLayer)
    {
      if (withEdge) { eid = nextExplicit++; o = vrt::capture([&] { if (viaFather) g->addFather(n, f, eid); else g->addSon(f, n, eid); }); }
      else o = vrt::capture([&] { if (viaFather) g->addFather(n, f); else g->addSon(f, n); });
    }
    else
    {
      EP e;
      if (withEdge) { e = newEdgeObj(); tag = e->tag; }
      o = vrt::capture([&] { if (viaFather) obs->addFather(nobj.at(n), nobj.at(f), e); else obs->addSon(nobj.at(f), nobj.at(n), e); });
    }
    if (!mustReturn(o)) return;
    if (!obsLayer && withEdge)
    {
      if (!CHK(!m.edges.count(eid), "dag.edit.edge-set", layer() + ":explicit-id-in-use", c.hist)) { c.dead = true; return; }
      m.edges[eid] = make_pair(f, n);
    }
    else if (!learnEdge(f, n, tag)) return;
    if (!after()) return;
    if (withEdge)
    {
      if (!obsLayer)
      {
        U got = 0;
        if (callQ("attach.plain-edge-id", "dag:" + c.op, c, "getEdge", got, [&] { return g->getEdge(f, n); }))
          CHK(got == eid, "attach.plain-edge-id", "dag:" + string(viaFather ? "addFather" : "addSon"), c.hist + " => getEdge(" + str(f) + "," + str(n) + ")=" + str(got) + " expected the given id " + str(eid));
      }
      else
      {
        EP got;
        if (callQ("attach.edge-object", "dag:" + c.op, c, "getEdgeLinking", got, [&] { return obs->getEdgeLinking(nobj.at(f), nobj.at(n)); }))
          CHK(got == eobj.at(tag), "attach.edge-object", "dag:" + string(viaFather ? "addFather" : "addSon"), c.hist + " => getEdgeLinking(" + str(f) + "," + str(n) + ") gives " + (got ? "object #" + str(got->tag) : string("no object")) + " expected object #" + str(tag));
      }
    }
  }
  void opUnlink(U f, U n, bool viaFather)
  {
    long e = m.findEdge(f, n);
    begin(string(viaFather ? "removeFather" : "removeSon") + (e < 0 ? ":no-such-link" : ""), viaFather ? "removeFather(" + str(n) + "," + str(f) + ")" : "removeSon(" + str(f) + "," + str(n) + ")");
    vrt::Outcome o = vrt::capture([&] {
      if (!obsLayer) { if (viaFather) g->removeFather(n, f); else g->removeSon(f, n); }
      else { if (viaFather) obs->removeFather(nobj.at(n), nobj.at(f)); else obs->removeSon(nobj.at(f), nobj.at(n)); }
    });
    if (e < 0) { ++counters()["dag.edit.remove-without-link-unjudged"]; doResync(); structure(); return; }
    if (!mustReturn(o)) return;
    m.eraseEdge(static_cast<U>(e));
    after();
  }
  void opRemoveAll(U v, bool fathers)
  {
    begin(fathers ? "removeFathers" : "removeSons", string(fathers ? "removeFathers(" : "removeSons(") + str(v) + ")");
    vector<U> got, exp = fathers ? m.inN(v) : m.outN(v);
    bool selfLoop = m.findEdge(v, v) >= 0;
    vrt::Outcome o = vrt::capture([&] {
      if (!obsLayer) got = fathers ? g->removeFathers(v) : g->removeSons(v);
      else
      {
        vector<NP> r = fathers ? obs->removeFathers(nobj.at(v)) : obs->removeSons(nobj.at(v));
        for (auto& p : r) got.push_back(p ? p->id : ~0u);
      }
    });
    if (selfLoop) { doResync(); structure(); return; }
    if (!mustReturn(o)) return;
    CHK(sorted(got) == exp, fathers ? "dag.edit.removeFathers-result" : "dag.edit.removeSons-result", layer(), c.hist + " => returned " + lst(got) + " expected " + lst(exp));
    for (U x : exp) m.eraseEdge(static_cast<U>(fathers ? m.findEdge(x, v) : m.findEdge(v, x)));
    after();
  }
  void opDeleteNode(U n)
  {
    begin("deleteNode", "deleteNode(" + str(n) + ")");
    vrt::Outcome o = vrt::capture([&] { if (!obsLayer) g->deleteNode(n); else obs->deleteNode(nobj.at(n)); });
    if (!mustReturn(o)) return;
    m.eraseNode(n);
    after();
  }
  // re-rooting a DAG: the statement only speaks about trees; kept here: same links, same ids, same objects (any orientation), no abort
  void opRootAt(U r)
  {
    bool wasDag = acyclic(m), wasRooted = fatherless(m) == 1;
    begin(string("rootAt:") + (wasDag && wasRooted ? "rooted-dag" : wasDag ? "unrooted-dag" : "cyclic"), "rootAt(" + str(r) + ")");
    Model before = m;
    vrt::Outcome o = vrt::capture([&] { if (!obsLayer) g->rootAt(r); else obs->rootAt(nobj.at(r)); });
    ++counters()["dag.rootAt-outcome-unjudged"];
    vrt::tally(string("dag.rootAt:") + c.op + ":" + (o.returned() ? "returned" : o.raisedBpp() ? "bpp-exception" : "foreign-exception"));
    doResync();
    bool same = m.edges.size() == before.edges.size() && m.nodes == before.nodes;
    if (same)
      for (auto& e : before.edges)
      {
        auto it = m.edges.find(e.first);
        if (it == m.edges.end() || !((it->second == e.second) || (it->second.first == e.second.second && it->second.second == e.second.first)) || m.tagOf(e.first) != before.tagOf(e.first)) { same = false; break; }
      }
    if (!CHK(same, "dag.rootAt.edge-set", layer() + ":" + c.op, c.hist + " => links changed: before " + before.text() + " after " + m.text())) { c.dead = true; return; }
    if (!structure(S_DAGREROOT)) return;
    if (o.returned())
    {
      vrt::tally(string("dag.rootAt.documented:acyclic-after=") + (acyclic(m) ? "yes" : "no"));
      vrt::tally(string("dag.rootAt.documented:new-root-only-fatherless=") + (fatherless(m) == 1 && m.inN(r).empty() ? "yes" : "no"));
    }
  }

  set<U> reach(U v) const // nodes reachable from v, v included
  {
    set<U> seen;
    vector<U> todo(1, v);
    seen.insert(v);
    while (!todo.empty())
    {
      U x = todo.back();
      todo.pop_back();
      for (U w : m.outN(x)) if (seen.insert(w).second) todo.push_back(w);
    }
    return seen;
  }
  string cycleKind() const { return m.hasSelfLoop() ? "self-loop" : m.hasReciprocal() ? "reciprocal-pair" : "cycle"; }

  void checkValidity()
  {
    if (m.nodes.empty()) { ++counters()["dag.isValid-empty-graph-unjudged"]; return; }
    bool exp = acyclic(m), got = false;
    vrt::Outcome o = vrt::capture([&] { got = obsLayer ? obs->isValid() : g->isValid(); });
    CHK(o.returned() && got == exp, "dag.isValid", layer() + ":" + (o.returned() ? "got=" + str(got) : "raised") + ":" + (exp ? "acyclic" : cycleKind()) + (o.returned() && got ? c.staleClass(c.lastValidAnswer) : ""),
        c.hist + " => isValid " + (o.returned() ? str(got) : o.text()) + " expected " + str(exp) + "; model " + m.text());
    vrt::cover("dag-validity:" + layer() + ":" + (exp ? "acyclic" : cycleKind()) + ":after=" + c.op);
    size_t nf = fatherless(m);
    bool rooted = false;
    vrt::Outcome r = vrt::capture([&] { rooted = obsLayer ? obs->isRooted() : g->isRooted(); });
    CHK(r.returned() && rooted == (nf == 1), "dag.isRooted", layer() + ":" + (r.returned() ? "got=" + str(rooted) : "raised") + ":fatherless=" + (nf == 0 ? "0" : nf == 1 ? "1" : "2+") + (r.returned() && rooted ? c.staleClass(c.lastRootedAnswer) : ""),
        c.hist + " => isRooted " + (r.returned() ? str(rooted) : r.text()) + " with " + str(nf) + " father-less nodes; model " + m.text());
    vrt::cover("dag-rooted:" + layer() + ":fatherless=" + (nf == 0 ? "0" : nf == 1 ? "1" : "2+"));
    c.lastValidAnswer = exp;
    c.lastRootedAnswer = nf == 1;
    c.editsSince.clear();
  }
  void checkQueries(const vector<U>& which)
  {
    const string K = layer();
    bool dag = acyclic(m);
    auto W = [&](const string& w) { return c.hist + " => [" + K + "] " + w + "; model " + m.text(); };
    auto idsOf = [](const vector<NP>& v) { vector<U> r; for (auto& p : v) r.push_back(p ? p->id : ~0u); return r; };
    for (U x : which)
    {
      const string sx = str(x);
      vector<U> fa, so;
      size_t nf = 0, ns = 0;
      bool hf = false;
      if (callQ("dag.fathers", K, c, "getFathers(" + sx + ")", fa, [&] { return obsLayer ? idsOf(obs->getFathers(nobj.at(x))) : g->getFathers(x); }))
        CHK(sorted(fa) == m.inN(x), "dag.fathers", K + ":getFathers", W("getFathers(" + sx + ")=" + lst(fa)));
      if (callQ("dag.fathers", K, c, "getNumberOfFathers(" + sx + ")", nf, [&] { return obsLayer ? obs->getNumberOfFathers(nobj.at(x)) : g->getNumberOfFathers(x); }))
        CHK(nf == m.inN(x).size(), "dag.fathers", K + ":getNumberOfFathers", W("getNumberOfFathers(" + sx + ")=" + str(nf)));
      if (callQ("dag.fathers", K, c, "hasFather(" + sx + ")", hf, [&] { return obsLayer ? obs->hasFather(nobj.at(x)) : g->hasFather(x); }))
        CHK(hf == !m.inN(x).empty(), "dag.fathers", K + ":hasFather", W("hasFather(" + sx + ")=" + str(hf)));
      if (callQ("dag.sons", K, c, "getSons(" + sx + ")", so, [&] { return obsLayer ? idsOf(obs->getSons(nobj.at(x))) : g->getSons(x); }))
        CHK(sorted(so) == m.outN(x), "dag.sons", K + ":getSons", W("getSons(" + sx + ")=" + lst(so)));
      if (callQ("dag.sons", K, c, "getNumberOfSons(" + sx + ")", ns, [&] { return obsLayer ? obs->getNumberOfSons(nobj.at(x)) : g->getNumberOfSons(x); }))
        CHK(ns == m.outN(x).size(), "dag.sons", K + ":getNumberOfSons", W("getNumberOfSons(" + sx + ")=" + str(ns)));
      if (!dag) continue;
      set<U> rs = reach(x);
      vector<U> expLeaves, expBelow(rs.begin(), rs.end()), expEdges;
      bool unaryInside = false;
      for (U y : rs) { if (m.outN(y).empty()) expLeaves.push_back(y); if (m.outN(y).size() == 1) unaryInside = true; }
      for (auto& e : m.edges) if (rs.count(e.second.first)) expEdges.push_back(e.first);
      auto asSet = [](vector<U> v) { sort(v.begin(), v.end()); v.erase(unique(v.begin(), v.end()), v.end()); return v; };
      vector<U> lv, bn;
      const string lcls = K + ":" + (m.outN(x).empty() ? "leaf" : m.outN(x).size() == 1 ? "unary" : "internal") + (unaryInside && m.outN(x).size() != 1 ? ":unary-node-below" : "");
      // a node reached along two paths may be listed twice: compared as sets
      if (callQ("dag.leavesUnder", lcls, c, "getLeavesUnderNode(" + sx + ")", lv, [&] { return obsLayer ? idsOf(obs->getLeavesUnderNode(nobj.at(x))) : g->getLeavesUnderNode(x); }))
        CHK(asSet(lv) == expLeaves || (m.outN(x).empty() && lv.empty()), "dag.leavesUnder", lcls, W("getLeavesUnderNode(" + sx + ")=" + lst(lv) + " expected " + lst(expLeaves)));
      if (callQ("dag.below", K + ":getBelowNodes", c, "getBelowNodes(" + sx + ")", bn, [&] { return obsLayer ? idsOf(obs->getBelowNodes(nobj.at(x))) : g->getBelowNodes(x); }))
        CHK(asSet(bn) == expBelow, "dag.below", K + ":getBelowNodes", W("getBelowNodes(" + sx + ")=" + lst(bn) + " expected " + lst(expBelow)));
      if (!obsLayer)
      {
        vector<U> be;
        if (callQ("dag.below", K + ":getBelowEdges", c, "getBelowEdges(" + sx + ")", be, [&] { return g->getBelowEdges(x); }))
          CHK(asSet(be) == sorted(expEdges), "dag.below", K + ":getBelowEdges", W("getBelowEdges(" + sx + ")=" + lst(be) + " expected " + lst(expEdges)));
      }
      else
      {
        vector<U> be, et;
        for (U e : expEdges) if (m.tagOf(e) >= 0) et.push_back(static_cast<U>(m.tagOf(e)));
        if (callQ("dag.below", K + ":getBelowEdges", c, "getBelowEdges(" + sx + ")", be, [&] { vector<U> r; for (auto& p : obs->getBelowEdges(nobj.at(x))) r.push_back(p ? static_cast<U>(p->tag) : ~0u); return r; }))
          CHK(asSet(be) == sorted(et), "dag.below", K + ":getBelowEdges", W("getBelowEdges(" + sx + ") gives objects " + lst(be) + " expected " + lst(et)));
      }
    }
    if (obsLayer) checkIndexForms(which);
  }
  // index forms of the DAG observer (see TreeSut::checkIndexForms): fathers / sons of a node index, ends of an edge index
  void checkIndexForms(const vector<U>& which)
  {
    if (!ib.ensure(m, nobj, eobj)) return;
    const string K = "observer-index";
    const string labels = ib.schemeName();
    vrt::cover("index-forms:dag:" + labels);
    auto NI = [&](U v) { return ib.n(nobj.at(v)); };
    auto EI = [&](U e) { return ib.e(eobj.at(m.tagOf(e))); };
    auto NIs = [&](const vector<U>& vs) { vector<U> r; for (U v : vs) r.push_back(NI(v)); return sorted(r); };
    auto table = [&] {
      string s = " {node:index";
      for (U v : m.nodes) s += " " + str(v) + ":" + str(NI(v));
      s += "; edge#tag:index";
      for (auto& kv : m.tags) s += " " + str(kv.first) + "#" + str(kv.second) + ":" + str(EI(kv.first));
      return s + "}";
    };
    auto W = [&](const string& w) { return c.hist + " => [" + K + ", " + labels + "] " + w + table() + "; model " + m.text(); };
    set<U> seenNodes;
    for (U x : which)
    {
      if (!seenNodes.insert(x).second) continue;
      const U ix = NI(x);
      const string sx = "index " + str(ix) + " = node " + str(x);
      vector<U> fa, so, efa = NIs(m.inN(x)), eso = NIs(m.outN(x));
      bool hf = false;
      if (callQ("dag.fathers", K, c, "getFathers(" + sx + ")", fa, [&] { return obs->getFathers(ix); }))
        CHK(sorted(fa) == efa, "dag.fathers", K + ":getFathers", W("getFathers(" + sx + ")=" + lst(fa) + " expected indexes " + lst(efa)));
      if (callQ("dag.fathers", K, c, "hasFather(" + sx + ")", hf, [&] { return obs->hasFather(ix); }))
        CHK(hf == !efa.empty(), "dag.fathers", K + ":hasFather", W("hasFather(" + sx + ")=" + str(hf)));
      if (callQ("dag.sons", K, c, "getSons(" + sx + ")", so, [&] { return obs->getSons(ix); }))
        CHK(sorted(so) == eso, "dag.sons", K + ":getSons", W("getSons(" + sx + ")=" + lst(so) + " expected indexes " + lst(eso)));
    }
    for (auto& e : m.edges)
    {
      if (m.tagOf(e.first) < 0) continue;
      const U ie = EI(e.first);
      const string se = "edge index " + str(ie) + " = edge " + str(e.first);
      U s = 0, f = 0;
      if (callQ("dag.edge-ends", K + ":getSon", c, "getSon(" + se + ")", s, [&] { return obs->getSon(ie); }))
        CHK(s == NI(e.second.second), "dag.edge-ends", K + ":getSon", W("getSon(" + se + ")=" + str(s) + " expected index " + str(NI(e.second.second))));
      if (callQ("dag.edge-ends", K + ":getFatherOfEdge", c, "getFatherOfEdge(" + se + ")", f, [&] { return obs->getFatherOfEdge(ie); }))
        CHK(f == NI(e.second.first), "dag.edge-ends", K + ":getFatherOfEdge", W("getFatherOfEdge(" + se + ")=" + str(f) + " expected index " + str(NI(e.second.first))));
    }
  }
};

// ------------------------------------------------------------------ DAG workloads
// One graph of the enumeration: n nodes, edge list over labels; built through a random route, checked completely,
// then probed for stale validity / rootedness caches (an edit right after a query that cached the answer).
void dagGraphCase(vrt::Rng& rng, bool obsLayer, size_t n, const vector<pair<int, int>>& edges, const string& descr)
{
  DagSut d(obsLayer, rng, false);
  d.c.hist = descr + ":";
  vector<U> ids(n);
  vector<size_t> order(n);
  for (size_t i = 0; i < n; ++i) order[i] = i;
  rng.shuffle(order);
  for (size_t i : order) { ids[i] = d.opCreateNode(); if (d.c.dead) return; }
  vector<pair<int, int>> es = edges;
  rng.shuffle(es);
  bool askBetween = rng.chance(0.3);
  for (auto& e : es)
  {
    d.opLink(ids[static_cast<size_t>(e.first)], ids[static_cast<size_t>(e.second)], rng.chance(0.5), rng.chance(0.4));
    if (d.c.dead) return;
    if (askBetween && rng.chance(0.5)) d.checkValidity();
  }
  if (!d.structure()) return;
  d.checkValidity();
  d.checkQueries(d.m.nodeVec());
  if (d.c.dead) return;
  // cache probes: the answers above are now cached
  bool dag = acyclic(d.m);
  vector<U> nodes = d.m.nodeVec();
  if (dag && n >= 2)
  {
    // close a cycle: a link from a descendant back to an ancestor (or the reverse of a link)
    vector<pair<U, U>> cand;
    for (U a : nodes) for (U b : d.reach(a)) if (a != b && d.m.findEdge(b, a) < 0) cand.push_back(make_pair(b, a));
    if (!cand.empty())
    {
      pair<U, U> ba = rng.pick(cand);
      d.opLink(ba.first, ba.second, rng.chance(0.5), rng.chance(0.3));
      if (d.c.dead) return;
      d.checkValidity();
      d.opUnlink(ba.first, ba.second, rng.chance(0.5));
      if (d.c.dead) return;
      d.checkValidity();
    }
  }
  else if (!dag)
  {
    // break cycles by removing links until the model is acyclic, asking after each removal
    for (int guard = 0; guard < 40 && !acyclic(d.m) && !d.m.edges.empty(); ++guard)
    {
      auto it = d.m.edges.begin();
      advance(it, static_cast<long>(rng.below(d.m.edges.size())));
      d.opUnlink(it->second.first, it->second.second, rng.chance(0.5));
      if (d.c.dead) return;
      d.checkValidity();
    }
  }
  // rootedness: a new orphan node adds a father-less node, giving it a father / deleting it removes one
  {
    U x = d.opCreateNode();
    if (d.c.dead) return;
    d.checkValidity();
    if (rng.chance(0.5)) { d.opLink(rng.pick(nodes), x, rng.chance(0.5), false); if (d.c.dead) return; d.checkValidity(); }
    if (rng.chance(0.5)) { d.opDeleteNode(x); if (d.c.dead) return; d.checkValidity(); }
  }
  // removing the only father of a node makes it father-less
  if (!d.m.edges.empty())
  {
    auto it = d.m.edges.begin();
    advance(it, static_cast<long>(rng.below(d.m.edges.size())));
    d.opUnlink(it->second.first, it->second.second, rng.chance(0.5));
    if (d.c.dead) return;
    d.checkValidity();
  }
  d.structure();
}

const size_t DAG_BLOCK = 16;
// enumeration A: all digraphs without self-loop on 1..4 nodes; B: all graphs with links i->j, i<j on 5 and 6 nodes (every DAG shape)
size_t nDigraphs(size_t n) { return size_t(1) << (n * (n - 1)); }
size_t nUpper(size_t n) { return size_t(1) << (n * (n - 1) / 2); }
size_t dagEnumSize() { return nDigraphs(1) + nDigraphs(2) + nDigraphs(3) + nDigraphs(4) + nUpper(5) + nUpper(6); }
void decodeDag(size_t idx, size_t& n, vector<pair<int, int>>& edges, string& descr)
{
  edges.clear();
  for (n = 1; n <= 4; ++n)
  {
    if (idx < nDigraphs(n))
    {
      size_t bit = 0;
      for (size_t i = 0; i < n; ++i) for (size_t j = 0; j < n; ++j) if (i != j) { if (idx & (size_t(1) << bit)) edges.push_back(make_pair(static_cast<int>(i), static_cast<int>(j))); ++bit; }
      descr = "digraph n=" + str(n) + " mask=" + str(idx);
      return;
    }
    idx -= nDigraphs(n);
  }
  for (n = 5; n <= 6; ++n)
  {
    if (idx < nUpper(n))
    {
      size_t bit = 0;
      for (size_t i = 0; i < n; ++i) for (size_t j = i + 1; j < n; ++j) { if (idx & (size_t(1) << bit)) edges.push_back(make_pair(static_cast<int>(i), static_cast<int>(j))); ++bit; }
      descr = "forward-links n=" + str(n) + " mask=" + str(idx);
      return;
    }
    idx -= nUpper(n);
  }
}
void caseDagExhaustive(vrt::Case& c)
{
  Flusher fl;
  size_t lo = c.index * DAG_BLOCK, hi = min(lo + DAG_BLOCK, dagEnumSize());
  vrt::describe("dag-enumeration", "graphs " + str(lo) + ".." + str(hi - 1) + " of the enumeration (all digraphs on <=4 nodes, all forward-link graphs on 5 and 6 nodes)");
  for (size_t i = lo; i < hi; ++i)
  {
    size_t n;
    vector<pair<int, int>> edges;
    string descr;
    decodeDag(i, n, edges, descr);
    vrt::step(descr);
    dagGraphCase(c.rng, (i % 2) == 1, n, edges, descr);
    if (vrt::violationsInCase() > 20) return;
  }
}
// all digraphs without self-loop on 5 nodes (2^20), 64 per case, visited in a scattered order so that any prefix of the range is a fair sample
void caseDag5(vrt::Case& c)
{
  Flusher fl;
  const size_t per = 64, blocks = nDigraphs(5) / per;
  size_t block = (c.index * 7919) % blocks;
  vrt::describe("dag-5-nodes", "digraphs on 5 nodes, masks " + str(block * per) + ".." + str(block * per + per - 1));
  for (size_t mask = block * per; mask < block * per + per; ++mask)
  {
    vector<pair<int, int>> edges;
    size_t bit = 0;
    for (size_t i = 0; i < 5; ++i) for (size_t j = 0; j < 5; ++j) if (i != j) { if (mask & (size_t(1) << bit)) edges.push_back(make_pair(static_cast<int>(i), static_cast<int>(j))); ++bit; }
    string descr = "digraph n=5 mask=" + str(mask);
    vrt::step(descr);
    dagGraphCase(c.rng, (mask % 2) == 1, 5, edges, descr);
    if (vrt::violationsInCase() > 20) return;
  }
}

void caseDagHistory(vrt::Case& c)
{
  Flusher fl;
  bool obs = (c.index % 2) == 1;
  DagSut d(obs, c.rng, true);
  size_t len = static_cast<size_t>(c.rng.range(6, c.tier == 1 ? 50 : 30));
  vrt::describe(string("dag-history:") + (obs ? "observer" : "plain"), string(obs ? "observer" : "plain") + " layer, " + str(len) + " operations");
  vrt::Rng& rng = c.rng;
  double pValid = rng.chance(0.2) ? 0.15 : 0.6;
  for (size_t s = 0; s < len && !d.c.dead; ++s)
  {
    vector<U> nodes = d.m.nodeVec();
    if (nodes.size() < 2 || (nodes.size() < 9 && rng.chance(0.18))) d.opCreateNode();
    else
      for (int attempt = 0; attempt < 20; ++attempt)
      {
        int w = static_cast<int>(rng.below(100));
        U a = rng.pick(nodes), b = rng.pick(nodes);
        if (w < 40)
        {
          if (a == b && !rng.chance(0.04)) continue;
          if (d.m.findEdge(a, b) >= 0) continue; // second link between the same nodes: C14's area
          // mostly forward links (low id -> high id keeps the graph acyclic), sometimes backward
          if (a > b && !rng.chance(0.25)) swap(a, b);
          if (d.m.findEdge(a, b) >= 0) continue;
          d.opLink(a, b, rng.chance(0.5), rng.chance(0.4));
          break;
        }
        if (w < 62)
        {
          if (!d.m.edges.empty() && !rng.chance(0.04))
          {
            auto it = d.m.edges.begin();
            advance(it, static_cast<long>(rng.below(d.m.edges.size())));
            a = it->second.first;
            b = it->second.second;
          }
          else if (d.m.findEdge(a, b) >= 0) continue;
          d.opUnlink(a, b, rng.chance(0.5));
          break;
        }
        if (w < 68) { d.opRemoveAll(a, rng.chance(0.5)); break; }
        if (w < 76) { d.opDeleteNode(a); break; }
        if (w < 88)
        {
          // re-rooting: outside reciprocal pairs / self-loops (switching one link of a reciprocal pair overwrites the other: GlobalGraph, C14's file)
          if (d.m.hasReciprocal() || d.m.hasSelfLoop() || !weaklyConnected(d.m)) continue;
          d.opRootAt(a);
          break;
        }
        d.checkValidity();
        break;
      }
    if (d.c.dead) break;
    if (rng.chance(pValid)) d.checkValidity();
    if (rng.chance(0.3) && !d.m.nodes.empty())
    {
      vector<U> nv = d.m.nodeVec(), which;
      for (int k = 0; k < 3; ++k) which.push_back(rng.pick(nv));
      d.checkQueries(which);
    }
    if (vrt::violationsInCase() > 10) return;
  }
  if (!d.c.dead) d.checkValidity();
}
} // namespace

int main(int argc, char** argv)
{
  vector<vrt::Group> groups = {
    { "tree-shapes", totalParArrays(MAXN_EXH), totalParArrays(MAXN_EXH), caseTreeShapes, 900, true },
    { "tree-random", 600, 6000, caseTreeRandom, 900, false },
    { "tree-history", 12000, 400000, caseTreeHistory, 600, false },
    { "edge-attach", totalParArrays(5), totalParArrays(6), caseEdgeAttach, 900, true },
    { "dag-enumeration", (dagEnumSize() + DAG_BLOCK - 1) / DAG_BLOCK, (dagEnumSize() + DAG_BLOCK - 1) / DAG_BLOCK, caseDagExhaustive, 900, true },
    { "dag-5-nodes", 200, nDigraphs(5) / 64, caseDag5, 900, false },
    { "dag-history", 8000, 250000, caseDagHistory, 600, false },
  };
  vrt::Meta meta;
  meta.rule = "tree-shapes: every parent array par[i]<i on 1..7 nodes (all rooted shapes, several labelings each), built through random routes on the plain "
      "TreeGraphImpl<GlobalGraph> and on the AssociationTreeGraphImplObserver, all queries for every node / ordered node pair / node subset, then re-rooting at every node "
      "(from the rooted state, from the un-rooted state, and from the un-rooted state of a tree that had been re-rooted elsewhere before) with all queries again; tree-random: the same on random trees of 8..12 nodes (six shape families); tree-history: "
      "random histories of createNode/createNodeFromNode/createNodeOnEdge/addSon/setFather/removeSon(s)/deleteNode/rootAt/unRoot/setRoot with isValid/isRooted and sampled "
      "queries at random moments; edge-attach: every (node,new father) of every tree on <=5 (thorough 6) nodes with each way of passing an edge id / edge object; "
      "dag-enumeration: all digraphs without self-loop on <=4 nodes and all forward-link graphs on 5,6 nodes (every DAG shape), validity/rootedness/fathers/sons/below queries "
      "and cache probes (edit right after a cached answer); dag-5-nodes: all 2^20 digraphs on 5 nodes (sampled in the quick tier); dag-history: random edit histories. "
      "Observer layer, in every group: all live node / edge objects carry a user index (labeling drawn per structure: equal to the graph ids, a derangement of the ids, random labels, "
      "labels outside the id range, first free label) and every index-taking overload that can be instantiated (hasFather, getEdgeToFather, getSons, getBranches, getLeavesUnderNode, "
      "getSubtreeEdges, getSon, getFatherOfEdge; DAG: getFathers, hasFather, getSons, getSon, getFatherOfEdge) is compared with the definitions translated through the harness's own index table. "
      "A class key = (layer, clause, structural relation): kind of node (leaf/unary/internal, root or not, unary node below), relation of a node pair "
      "(equal/father/ancestor/unrelated same or different depth) with or without the ancestor, MRCA subset class (size, nested or antichain, depths, MRCA at or below the root), "
      "reason why a graph is not a tree x last edit, re-rooting from rooted/unrooted, tree shape class (n, max degree, unary nodes).";
  meta.assumptions = {
    "node ids and edge ids of the model are the ones the graph returns; the model keeps its own link table and derives parent arrays from it",
    "orders inside getSons/getBranches/getLeavesUnderNode/getSubtree*/MRCA arguments are not specified: compared as sets (paths are compared in order)",
    "getLeavesUnderNode of a leaf may give the leaf itself or nothing; isLeaf is judged only where 'no son' and 'at most one neighbour' agree; MRCA of no node, the father of the root, "
    "setFather on a node with several fathers, removeSon without link, rootAt on an invalid tree, unRoot(true) when the root has not two sons: any outcome but an abort (model re-read from the graph)",
    "validity when the root node was deleted or the graph is empty: 'false' or the library's exception; DAG validity of the empty graph is not judged",
    "after unRoot(true) the former root may stay as an isolated node or be removed; the kept root may be either former son",
    "DAG re-rooting is outside the statement: only 'same links, ids and objects' is demanded; DAG lists may repeat a node reached along two paths (compared as sets)",
    "inputs in defect areas owned by C14 are not generated: edits needing unlink in undirected graphs, links on absent nodes, a second link between the same two nodes, "
    "explicit edge ids in the range the graph allocates itself",
    "in a directed (rooted) graph the end points recorded for an edge are (father, son) of the link also after un-rooting and re-rooting (makeDirected): no tolerance",
    "the tree observer refuses edge objects it does not know (bpp exception): accepted, counted as unjudged",
    "node / edge indexes are arbitrary user labels without relation to graph ids; index bookkeeping itself (setNodeIndex/addNodeIndex refusing, an edge object losing its index when moved) "
    "is outside the statement: lost indexes are given again, a refused assignment switches the index forms off for that case (tallied)",
  };
  meta.requiredClauses = { "tree.isValid", "tree.isRooted", "tree.father", "tree.sons", "tree.branches", "tree.leavesUnder", "tree.subtreeNodes", "tree.subtreeEdges", "tree.nodePath",
                           "tree.edgePath", "tree.mrca", "tree.edgeToFather", "tree.edgeLinking", "reroot.edge-set", "reroot.orientation", "reroot.unique-fatherless-root", "reroot.valid",
                           "reroot.objects", "attach.plain-edge-id", "attach.edge-object", "dag.isValid", "dag.isRooted", "dag.fathers", "dag.sons", "edit.edge-set" };
  return vrt::run(argc, argv, "C15", groups, meta);
}
