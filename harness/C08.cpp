// C08 - Cumulative and quantile functions are proper, mutually inverse and accurate.
//
// Part 1 (this file): every cdf / quantile / special function of RandomTools is evaluated on deterministic
// dense grid lines plus seeded random parameter points and checked in-process: range, monotone along every
// grid line, end values, exact identities (reflection, chi-square = gamma, shape recurrences, beta symmetry,
// closed-form special cases), quantile o cdf inverse consistency, documented error signals on the invalid
// region, and "the call returns" (CPU-time watchdog per case).
// Part 2 (lib/extra_C08.py + oracle/C08_oracle.py): every call made here is offered to an event log
// `fn,args,result` (sampled, hex floats, one file per child process next to the journal); the offline oracle
// compares the logged results with scipy.special / mpmath (50 digits) references.
//
// Tolerances (never tighter than the statement / the documented accuracy of the implementation):
//   pNorm            1e-12 absolute
//   pBeta            1e-12 absolute + 4 eps max|lnGamma(a), lnGamma(b), lnGamma(a+b)| (the prefactor
//                    exp(lnGamma(a+b)-lnGamma(a)-lnGamma(b)) cannot be better than the rounding of its exponent)
//   gamma-type cdf   2e-8 absolute ("about 1e-8": 1e-8 is the stopping criterion of series / continued fraction)
//   qNorm            AS70 (Odeh & Evans), published accuracy ~1.5e-8 in z: 1e-7
//   qChisq/qGamma    iteration tolerance .5e-6 relative in the quantile: 1e-6 relative + cdf accuracy
//   qBeta            Newton tolerance 1e-13 in x: 1e-12 * pdf + cdf accuracy, modulo the representability of x
#include "vrt.h"

#include <Bpp/Numeric/Random/RandomTools.h>
#include <Bpp/Exceptions.h>

#include <algorithm>
#include <cfloat>
#include <cmath>
#include <csetjmp>
#include <csignal>
#include <cstdio>
#include <cstdlib>
#include <cstring>
#include <map>
#include <string>
#include <sys/time.h>
#include <unistd.h>
#include <vector>

using namespace bpp;
using namespace std;
using vrt::str;

namespace
{
const double EPS = 2.220446049250313e-16;
const double INF = std::numeric_limits<double>::infinity();
const double TOL_N = 1e-12;
const double TOL_G = 2e-8;
const double TOL_QN = 1e-7;
const int CPU_BUDGET_S = 10;

double tolB(double a, double b)
{
  double L = max(fabs(lgamma(a)), max(fabs(lgamma(b)), fabs(lgamma(a + b))));
  return 1e-12 + 4 * EPS * L;
}

enum Fn { PNORM, PNORM3, QNORM, QNORM3, PGAMMA, QGAMMA, PCHISQ, QCHISQ, PBETA, QBETA, IGAMMA, IBETA, LNBETA, LNGAMMA, NFN };
const char* FNAME[NFN] = { "pNorm", "pNorm3", "qNorm", "qNorm3", "pGamma", "qGamma", "pChisq", "qChisq", "pBeta", "qBeta",
                           "incompleteGamma", "incompleteBeta", "lnBeta", "lnGamma" };
const int FARGS[NFN] = { 1, 3, 1, 3, 3, 3, 2, 2, 3, 3, 3, 3, 2, 1 };

// ---------------------------------------------------------------- structural regions (class labels only)
string regionNorm(double z)
{
  double y = fabs(z);
  if (std::isnan(z)) return "nan";
  if (y <= 0.67448975) return "central";
  if (y <= sqrt(32.)) return "mid";
  if (-37.5193 < z && z < 8.2924) return z < 0 ? "tail-lower" : "tail-upper";
  return "saturated";
}
string regionGamma(double y, double alpha)
{
  if (std::isnan(y) || std::isnan(alpha)) return "nan";
  if (y == INF) return "cf:x=inf";
  if (y >= 1e100) return "cf:x>=1e100";
  if (y > 1 && y >= alpha) return "cf";
  return "series";
}
string regionBeta(double x, double a, double b)
{
  if (x <= 0 || x >= 1) return "end";
  if (b * x <= 1.0 && x <= 0.95) return "ps";
  bool flag = x > a / (a + b);
  if (flag) { swap(a, b); x = 1 - x; }
  if (flag && b * x <= 1.0 && x <= 0.95) return "ps:swap";
  double y = x * (a + b - 2.0) - (a - 1.0);
  return string(y < 0 ? "cf1" : "cf2") + (flag ? ":swap" : "");
}
string regionQChisq(double p, double v)
{
  if (!(p >= .000002 && p <= .999998)) return "p-outside-documented";
  if (v < -1.24 * log(p)) return "start-smallp";
  if (v <= .32) return "start-smallv";
  return "start-wilson-hilferty";
}
string regionQBeta(double p, double a, double b)
{
  double pp = p <= 0.5 ? a : b, qq = p <= 0.5 ? b : a;
  return string(p <= 0.5 ? "lower" : "upper") + (pp > 1 && qq > 1 ? ":init-cornish" : ":init-other");
}
string regionOf(int fn, double a, double b, double c)
{
  switch (fn)
  {
  case PNORM: return regionNorm(a);
  case PNORM3: return regionNorm((a - b) / c);
  case QNORM: case QNORM3: return a < 0.5 ? "lower" : "upper";
  case PGAMMA: return regionGamma(a * c, b);
  case PCHISQ: return regionGamma(a / 2, b / 2);
  case IGAMMA: return regionGamma(a, b);
  case QGAMMA: return regionQChisq(a, 2 * b);
  case QCHISQ: return regionQChisq(a, b);
  case PBETA: case IBETA: return regionBeta(a, b, c);
  case QBETA: return regionQBeta(a, b, c);
  default: return "any";
  }
}
string callText(int fn, double a, double b, double c)
{
  string s = string(FNAME[fn]) + "(" + str(a);
  if (FARGS[fn] >= 2) s += "," + str(b);
  if (FARGS[fn] >= 3) s += "," + str(c);
  return s + ")";
}

// ---------------------------------------------------------------- event log
FILE* gLog = nullptr;
vrt::u64 gLogRate = 8, gCaseKey = 0, gCallNo = 0, gLogged = 0;
bool gHeaderDone = false;
string gGroup;
vrt::u64 gIdx = 0;

void logOpen(int argc, char** argv)
{
  string path;
  for (int i = 1; i + 1 < argc; ++i) if (string(argv[i]) == "--journal") path = string(argv[i + 1]) + ".c08log";
  const char* d = getenv("C08_EVLOG_DIR");
  if (d && *d) path = string(d) + "/ev." + to_string(static_cast<long>(getpid())) + ".c08log";
  if (path.empty()) return;
  gLog = fopen(path.c_str(), "w");
  if (gLog) setvbuf(gLog, nullptr, _IOFBF, 1 << 16);
}
void logLine(int fn, double a, double b, double c, double r)
{
  if (!gHeaderDone)
  {
    fprintf(gLog, "@,%s,%llu\n", gGroup.c_str(), static_cast<unsigned long long>(gIdx));
    gHeaderDone = true;
  }
  if (FARGS[fn] == 1) fprintf(gLog, "%s,%a,%a\n", FNAME[fn], a, r);
  else if (FARGS[fn] == 2) fprintf(gLog, "%s,%a;%a,%a\n", FNAME[fn], a, b, r);
  else fprintf(gLog, "%s,%a;%a;%a,%a\n", FNAME[fn], a, b, c, r);
  ++gLogged;
}

// ---------------------------------------------------------------- guarded calls
volatile int gCurFn = -1;
volatile double gCurA = 0, gCurB = 0, gCurC = 0;
vrt::u64 gCalls[NFN];

struct R
{
  int kind;   // 0 returned, 1 bpp::Exception, 2 foreign exception
  double v;
  string what;
  bool ok() const { return kind == 0; }
};

R ev(int fn, double a, double b = 0, double c = 0, bool forceLog = false)
{
  gCurFn = fn; gCurA = a; gCurB = b; gCurC = c;
  R r; r.kind = 0; r.v = 0;
  try
  {
    switch (fn)
    {
    case PNORM: r.v = RandomTools::pNorm(a); break;
    case PNORM3: r.v = RandomTools::pNorm(a, b, c); break;
    case QNORM: r.v = RandomTools::qNorm(a); break;
    case QNORM3: r.v = RandomTools::qNorm(a, b, c); break;
    case PGAMMA: r.v = RandomTools::pGamma(a, b, c); break;
    case QGAMMA: r.v = RandomTools::qGamma(a, b, c); break;
    case PCHISQ: r.v = RandomTools::pChisq(a, b); break;
    case QCHISQ: r.v = RandomTools::qChisq(a, b); break;
    case PBETA: r.v = RandomTools::pBeta(a, b, c); break;
    case QBETA: r.v = RandomTools::qBeta(a, b, c); break;
    case IGAMMA: r.v = RandomTools::incompleteGamma(a, b, c); break;
    case IBETA: r.v = RandomTools::incompleteBeta(a, b, c); break;
    case LNBETA: r.v = RandomTools::lnBeta(a, b); break;
    case LNGAMMA: r.v = RandomTools::lnGamma(a); break;
    }
  }
  catch (bpp::Exception& e) { r.kind = 1; r.what = vrt::typeName(typeid(e)) + ": " + e.what(); }
  catch (std::exception& e) { r.kind = 2; r.what = vrt::typeName(typeid(e)) + ": " + e.what(); }
  catch (...) { r.kind = 2; r.what = "non-standard exception"; }
  gCurFn = -1;
  ++gCalls[fn];
  ++gCallNo;
  if (r.kind == 0 && gLog && (forceLog || vrt::mix(gCaseKey, gCallNo) % gLogRate == 0)) logLine(fn, a, b, c, r.v);
  return r;
}

// clause counters (flushed once per case: vrt::expect does a map lookup per call)
map<string, vrt::u64> gCounts;
bool chk(bool ok, const char* clause, const string& cls, const std::function<string()>& wit)
{
  ++gCounts[clause];
  if (!ok && vrt::violationsInCase() < 24) vrt::violation(clause, cls, wit());
  return ok;
}
void flushCounts()
{
  for (auto& kv : gCounts) if (kv.second) { vrt::counted(kv.first.c_str(), kv.second); kv.second = 0; }
  for (int f = 0; f < NFN; ++f) if (gCalls[f]) { vrt::tally(string("calls:") + FNAME[f], gCalls[f]); gCalls[f] = 0; }
  if (gLogged) { vrt::tally("event-log-lines", gLogged); gLogged = 0; }
}

// value of a call inside the valid domain: an exception there is a violation (NaN is returned to the caller)
double val(int fn, double a, double b = 0, double c = 0, bool forceLog = false)
{
  R r = ev(fn, a, b, c, forceLog);
  if (!chk(r.ok(), "valid.returns-value", string("fn=") + FNAME[fn] + ",region=" + regionOf(fn, a, b, c) + ",outcome=" + (r.kind == 1 ? "bpp-exception" : "foreign-exception"),
           [&] { return callText(fn, a, b, c) + " is inside the documented domain but raised " + r.what; }))
    return std::numeric_limits<double>::quiet_NaN();
  return r.v;
}

// CPU-time watchdog around a whole case: a call that does not return within CPU_BUDGET_S seconds of process
// CPU time (cases need milliseconds) is reported with the call in progress and the case is abandoned.
sigjmp_buf gJb;
volatile sig_atomic_t gArmed = 0;
void onTimer(int) { if (gArmed) { gArmed = 0; siglongjmp(gJb, 1); } }
void setTimer(int s)
{
  struct itimerval it;
  memset(&it, 0, sizeof it);
  it.it_value.tv_sec = s;
  setitimer(ITIMER_VIRTUAL, &it, nullptr);
}
void guarded(vrt::Case& c, void (* body)(vrt::Case&))
{
  static bool installed = false;
  if (!installed)
  {
    struct sigaction sa;
    memset(&sa, 0, sizeof sa);
    sa.sa_handler = onTimer;
    sigemptyset(&sa.sa_mask);
    sigaction(SIGVTALRM, &sa, nullptr);
    installed = true;
  }
  gGroup = c.group; gIdx = c.index; gHeaderDone = false; gCallNo = 0;
  gCaseKey = vrt::mix(vrt::mix(c.seed, vrt::hashStr(c.group)), c.index);
  gLogRate = c.tier ? 64 : 8;
  if (sigsetjmp(gJb, 1) != 0)
  {
    setTimer(0);
    int fn = gCurFn;
    double a = gCurA, b = gCurB, cc = gCurC;
    ++gCounts["call.terminates"];
    if (fn >= 0)
      vrt::violation("call.terminates", string("fn=") + FNAME[fn] + ",region=" + regionOf(fn, a, b, cc),
                     callText(fn, a, b, cc) + " (hex " + vrt::hexd(a) + "," + vrt::hexd(b) + "," + vrt::hexd(cc) + ") did not return within " + str(CPU_BUDGET_S) + " s of CPU time; the rest of the case is abandoned");
    else
      vrt::violation("call.terminates", "fn=harness", "the case exceeded its CPU budget outside a library call");
    flushCounts();
    return;
  }
  gArmed = 1;
  setTimer(CPU_BUDGET_S);
  try { body(c); }
  catch (...) { gArmed = 0; setTimer(0); flushCounts(); throw; }
  gArmed = 0;
  setTimer(0);
  ++gCounts["call.terminates"];
  flushCounts();
}

// ---------------------------------------------------------------- helpers
string bucket(double v)   // parameter magnitude bucket for class keys
{
  if (v < 0.3) return "<0.3";
  if (v < 1) return "<1";
  if (v == 1) return "=1";
  if (v < 3) return "<3";
  if (v < 30) return "<30";
  if (v < 120) return "<120";
  return "<=200+";
}
void sortUnique(vector<double>& v)
{
  sort(v.begin(), v.end());
  v.erase(unique(v.begin(), v.end()), v.end());
}
void addLog(vector<double>& v, double lo, double hi, int n)
{
  double l0 = log(lo), l1 = log(hi);
  for (int i = 0; i < n; ++i) v.push_back(exp(l0 + (l1 - l0) * i / (n - 1)));
}
void addLin(vector<double>& v, double lo, double hi, int n)
{
  for (int i = 0; i < n; ++i) v.push_back(lo + (hi - lo) * i / (n - 1));
}
void addNeighbours(vector<double>& v, double x)
{
  if (!(x > 0) || !std::isfinite(x)) return;
  double d = x, u = x;
  v.push_back(x);
  for (int k = 0; k < 3; ++k) { d = nextafter(d, 0.); u = nextafter(u, INF); v.push_back(d); v.push_back(u); }
  v.push_back(x * (1 - 1e-9)); v.push_back(x * (1 + 1e-9));
  v.push_back(x * (1 - 1e-4)); v.push_back(x * (1 + 1e-4));
}
double snapShape(vrt::Rng& rng, double lo, double hi)
{
  double a = rng.logReal(lo, hi);
  int k = static_cast<int>(rng.below(10));
  if (k == 0) a = max(lo, min(hi, floor(a + 0.5)));             // integer
  else if (k == 1) a = max(lo, min(hi, floor(2 * a + 0.5) / 2)); // half-integer
  else if (k == 2) a = max(lo, min(hi, 1 + (rng.unit() - 0.5) * 1e-6)); // next to 1
  return a;
}
// probability grid on [1e-6, 1-1e-6] plus the ends (quantifier); dyadic points allow exact complements
vector<double> probGrid(vrt::Rng& rng, int nlog, int nlin, int nrand)
{
  vector<double> p;
  p.push_back(0); p.push_back(1);
  p.push_back(1e-6); p.push_back(1.5e-6); p.push_back(1.9999e-6); p.push_back(.000002); p.push_back(2.0001e-6);
  p.push_back(1 - 1e-6); p.push_back(1 - 1.5e-6); p.push_back(0.9999980001); p.push_back(.999998); p.push_back(0.9999979999);
  vector<double> lg;
  addLog(lg, 1e-6, 0.5, nlog);
  for (double x : lg) { p.push_back(x); p.push_back(1 - x); }
  for (int i = 1; i < nlin; ++i) p.push_back(static_cast<double>(i) / nlin);
  for (int i = 0; i < nrand; ++i) p.push_back(rng.real(1e-6, 1 - 1e-6));
  p.push_back(0.5); p.push_back(nextafter(0.5, 0.)); p.push_back(nextafter(0.5, 1.));
  sortUnique(p);
  return p;
}

// ================================================================= normal cdf
const int NORM_SEG = 64;
void bodyNormCdf(vrt::Case& c)
{
  const int per = c.tier ? 12000 : 1500;
  const double SQ2 = sqrt(2.);
  if (c.index < static_cast<vrt::u64>(NORM_SEG))
  {
    // one segment of the deterministic grid on [-40,40]; the previous segment's last point starts the line
    double lo = -40 + 80.0 * static_cast<double>(c.index) / NORM_SEG, hi = -40 + 80.0 * static_cast<double>(c.index + 1) / NORM_SEG;
    vrt::describe("pNorm:grid", "pNorm on the grid segment [" + str(lo) + "," + str(hi) + "], " + str(per) + " points, + switch-point neighbours inside");
    vector<double> z;
    addLin(z, lo, hi, per + 1);
    for (double s : { 0.67448975, sqrt(32.), 8.2924, 37.5193 })
      for (double sg : { -1., 1. })
        if (sg * s >= lo && sg * s <= hi) { vector<double> t; addNeighbours(t, s); for (double x : t) z.push_back(sg * x); }
    if (lo <= 0 && 0 <= hi) for (double t : { 0., 1e-300, 1e-21, 1e-20, 1.0000001e-20, 1e-16, 1e-8 }) { z.push_back(t); z.push_back(-t); }
    sortUnique(z);
    double prev = -1, prevz = 0;
    for (double x : z)
    {
      double p = val(PNORM, x);
      string reg = regionNorm(x);
      vrt::cover("pNorm:" + reg + (x < 0 ? ":neg" : ":pos"));
      chk(p >= 0 && p <= 1, "norm.range", "fn=pNorm,region=" + reg, [&] { return "pNorm(" + str(x) + ") = " + str(p) + " is outside [0,1]"; });
      if (prev >= 0)
        chk(p >= prev - 2 * TOL_N, "norm.monotone", "fn=pNorm,region=" + reg, [&] { return "pNorm(" + str(prevz) + ") = " + str(prev) + " > pNorm(" + str(x) + ") = " + str(p); });
      prev = p; prevz = x;
      double ref = 0.5 * erfc(-x / SQ2);
      chk(fabs(p - ref) <= TOL_N, "norm.accuracy-erfc", "fn=pNorm,region=" + reg, [&] { return "pNorm(" + str(x) + ") = " + str(p) + " but erfc(-z/sqrt2)/2 = " + str(ref) + " (diff " + str(p - ref) + ")"; });
      double q = val(PNORM, -x);
      chk(fabs(q - (1 - p)) <= 2 * TOL_N, "norm.reflection", "fn=pNorm,region=" + reg, [&] { return "pNorm(" + str(-x) + ") = " + str(q) + " but 1-pNorm(" + str(x) + ") = " + str(1 - p); });
    }
    return;
  }
  // random points, ends, location-scale overload
  vrt::describe("pNorm:random", "random z in [-40,40] (dense in [-9,9]), the ends, and the (z,mu,sigma) overload");
  for (double e : { -40., -38., -37.6, -1e10, -1e300, -INF })
  {
    double p = val(PNORM, e, 0, 0, true);
    chk(p >= 0 && p <= TOL_N, "norm.ends", "fn=pNorm,end=lower", [&] { return "pNorm(" + str(e) + ") = " + str(p) + " (expected 0)"; });
    double q = val(PNORM, -e, 0, 0, true);
    chk(q <= 1 && q >= 1 - TOL_N, "norm.ends", "fn=pNorm,end=upper", [&] { return "pNorm(" + str(-e) + ") = " + str(q) + " (expected 1)"; });
    vrt::cover("pNorm:end");
  }
  {
    double p0 = val(PNORM, 0., 0, 0, true);
    chk(fabs(p0 - 0.5) <= TOL_N, "norm.special", "fn=pNorm,z=0", [&] { return "pNorm(0) = " + str(p0); });
  }
  int n = c.tier ? 4000 : 800;
  for (int i = 0; i < n; ++i)
  {
    double x = c.rng.chance(0.7) ? c.rng.real(-9, 9) : c.rng.real(-40, 40);
    double p = val(PNORM, x);
    string reg = regionNorm(x);
    chk(p >= 0 && p <= 1, "norm.range", "fn=pNorm,region=" + reg, [&] { return "pNorm(" + str(x) + ") = " + str(p); });
    double ref = 0.5 * erfc(-x / SQ2);
    chk(fabs(p - ref) <= TOL_N, "norm.accuracy-erfc", "fn=pNorm,region=" + reg, [&] { return "pNorm(" + str(x) + ") = " + str(p) + " but erfc(-z/sqrt2)/2 = " + str(ref); });
    // location-scale overload
    double mu = c.rng.chance(0.3) ? 0 : c.rng.real(-50, 50), sg = c.rng.logReal(1e-3, 1e3);
    double zz = mu + sg * x;
    double u = (zz - mu) / sg;
    double p3 = val(PNORM3, zz, mu, sg);
    double p1 = val(PNORM, u);
    chk(fabs(p3 - p1) <= 2 * TOL_N, "norm.location-scale", "fn=pNorm3,region=" + regionNorm(u), [&] { return "pNorm(" + str(zz) + "," + str(mu) + "," + str(sg) + ") = " + str(p3) + " but pNorm((z-mu)/sigma = " + str(u) + ") = " + str(p1); });
    vrt::cover("pNorm3:" + regionNorm(u));
  }
}
void caseNormCdf(vrt::Case& c) { guarded(c, bodyNormCdf); }

// ================================================================= normal quantile
bool qnormSignal(double z) { return z == -9999 || std::isnan(z); }
void bodyNormQ(vrt::Case& c)
{
  vrt::describe("qNorm:line", "qNorm on a probability grid over [1e-6,1-1e-6] plus the ends; inverse, antisymmetry, (p,mu,sigma) overload");
  vector<double> p = probGrid(c.rng, c.tier ? 1500 : 250, c.tier ? 8192 : 1024, c.tier ? 4000 : 500);
  double prev = 0, prevp = -1;
  double mu = c.rng.chance(0.25) ? 0 : c.rng.real(-1e4, 1e4), sg = c.rng.logReal(1e-3, 1e3);
  for (double x : p)
  {
    bool end = (x == 0 || x == 1);
    double z = val(QNORM, x, 0, 0, end);
    string reg = end ? "end" : (x < 0.5 ? "lower" : "upper");
    vrt::cover("qNorm:" + reg);
    if (end)
    {
      // outside the documented working range: the sentinel or the mathematically right infinity
      bool ok = qnormSignal(z) || (x == 0 && z == -INF) || (x == 1 && z == INF);
      chk(ok, "qnorm.ends", "fn=qNorm,p=" + str(x), [&] { return "qNorm(" + str(x) + ") = " + str(z) + " is neither the documented error signal -9999 nor the infinite quantile"; });
      double z3 = val(QNORM3, x, mu, sg, true);
      bool ok3 = qnormSignal(z3) || (x == 0 && z3 == -INF) || (x == 1 && z3 == INF);
      chk(ok3, "qnorm.ends", "fn=qNorm3,p=" + str(x), [&] { return "qNorm(" + str(x) + "," + str(mu) + "," + str(sg) + ") = " + str(z3) + " is neither the documented error signal -9999 nor the infinite quantile (qNorm(p) = " + str(z) + ")"; });
      continue;
    }
    if (!chk(std::isfinite(z) && z != -9999, "qnorm.range", "fn=qNorm,region=" + reg, [&] { return "qNorm(" + str(x) + ") = " + str(z); })) continue;
    if (prevp >= 0)
      chk(z >= prev - TOL_QN, "qnorm.monotone", "fn=qNorm,region=" + reg, [&] { return "qNorm(" + str(prevp) + ") = " + str(prev) + " > qNorm(" + str(x) + ") = " + str(z); });
    prev = z; prevp = x;
    double back = val(PNORM, z);
    chk(fabs(back - x) <= TOL_QN + TOL_N, "qnorm.inverse", "fn=qNorm,region=" + reg, [&] { return "pNorm(qNorm(" + str(x) + ") = " + str(z) + ") = " + str(back) + " (diff " + str(back - x) + ")"; });
    double xc = 1 - x;
    if (1 - xc == x && xc > 0 && xc < 1)
    {
      double zc = val(QNORM, xc);
      chk(fabs(z + zc) <= 2 * TOL_QN, "qnorm.antisymmetry", "fn=qNorm", [&] { return "qNorm(" + str(x) + ") = " + str(z) + " but qNorm(1-p) = " + str(zc); });
    }
    double z3 = val(QNORM3, x, mu, sg);
    double e3 = mu + sg * z;
    chk(fabs(z3 - e3) <= 8 * EPS * (fabs(mu) + fabs(sg * z)) + 1e-7 * sg, "qnorm.location-scale", "fn=qNorm3,region=" + reg, [&] { return "qNorm(" + str(x) + "," + str(mu) + "," + str(sg) + ") = " + str(z3) + " but mu+sigma*qNorm(p) = " + str(e3); });
  }
}
void caseNormQ(vrt::Case& c) { guarded(c, bodyNormQ); }

// ================================================================= gamma family cdf
const double GAMMA_A[] = { 0.05, 0.1, 0.25, 0.5, 0.75, 1, 1.5, 2, 3, 5, 10, 20, 50, 100, 150, 200 };
const double GAMMA_B[] = { 1e-3, 0.5, 1, 1e3 };

double xpdfGamma(double y, double a)   // y * density of Gamma(a,1) at y
{
  if (!(y > 0)) return 0;
  return exp(a * log(y) - y - lgamma(a));
}
vector<double> gammaGrid(double alpha, int nlog, int nlin)   // in units y = beta*x
{
  vector<double> y;
  y.push_back(0);
  addLog(y, 1e-300, 1e4 * max(1., alpha), nlog);
  double sd = sqrt(alpha);
  addLin(y, max(1e-9, alpha - 8 * sd), alpha + 12 * sd + 12, nlin);
  addNeighbours(y, max(alpha, 1.));
  addNeighbours(y, 1.);
  for (double t : { 1e5, 1e6, 1e10, 1e50, 1e100 }) y.push_back(t * max(1., alpha));
  sortUnique(y);
  return y;
}
double poissonUpper(int n, double y)   // P(Gamma(n,1) <= y) = 1 - exp(-y) sum_{k<n} y^k/k!
{
  long double s = 0, t = 1;
  for (int k = 0; k < n; ++k) { s += t; t *= static_cast<long double>(y) / (k + 1); }
  return static_cast<double>(1 - expl(-static_cast<long double>(y)) * s);
}

void bodyGammaCdf(vrt::Case& c)
{
  const int nlog = c.tier ? 500 : 140, nlin = c.tier ? 800 : 180;
  const size_t NA = sizeof(GAMMA_A) / sizeof(double), NB = sizeof(GAMMA_B) / sizeof(double);
  bool chisqLine = false;
  double alpha, beta;
  if (c.index < NA * NB) { alpha = GAMMA_A[c.index / NB]; beta = GAMMA_B[c.index % NB]; }
  else
  {
    alpha = snapShape(c.rng, 0.05, 200);
    beta = c.rng.chance(0.2) ? 1. : c.rng.logReal(1e-3, 1e3);
    chisqLine = (c.index % 3 == 2);
    if (chisqLine) beta = 0.5;
  }
  const double v = 2 * alpha;
  if (chisqLine) alpha = v / 2;
  const double lg = lgamma(alpha);
  vrt::describe(chisqLine ? "pChisq:line" : "pGamma:line", (chisqLine ? "pChisq(x, v=" + str(v) + ")" : "pGamma(x, alpha=" + str(alpha) + ", beta=" + str(beta) + ")") + " along an x grid from 0 over 1e-300 to the far tail; identities on every point");
  vector<double> ys = gammaGrid(alpha, nlog, nlin);
  double prev = -1, prevx = 0, prev1 = -1;
  const string ab = ",alpha" + bucket(alpha);
  for (double y : ys)
  {
    double x = y / beta;
    if (!std::isfinite(x)) continue;
    double yy = beta * x;   // what the library will see
    string reg = regionGamma(yy, alpha);
    bool nearSwitch = fabs(yy - max(alpha, 1.)) <= 1e-8 * max(alpha, 1.);
    double p = chisqLine ? val(PCHISQ, x, v, 0, nearSwitch) : val(PGAMMA, x, alpha, beta, nearSwitch);
    const char* fn = chisqLine ? "pChisq" : "pGamma";
    vrt::cover(string(fn) + ":" + reg + ab);
    string cls = string("fn=") + fn + ",region=" + reg;
    auto callS = [&] { return chisqLine ? "pChisq(" + str(x) + "," + str(v) + ")" : "pGamma(" + str(x) + "," + str(alpha) + "," + str(beta) + ")"; };
    chk(p >= 0 && p <= 1, "gamma.range", cls, [&] { return callS() + " = " + str(p) + " is outside [0,1]"; });
    if (prev >= 0)
      chk(p >= prev - 2 * TOL_G, "gamma.monotone", cls, [&] { return callS() + " = " + str(p) + " < value " + str(prev) + " at the smaller x = " + str(prevx); });
    prev = p; prevx = x;
    if (x == 0) chk(fabs(p) <= TOL_G, "gamma.ends", cls + ",end=0", [&] { return callS() + " = " + str(p) + " (expected 0)"; });
    if (yy >= 1e4 * max(1., alpha)) chk(p >= 1 - TOL_G, "gamma.ends", cls + ",end=far-tail", [&] { return callS() + " = " + str(p) + " (expected 1)"; });
    // chi-square <-> gamma
    double other = chisqLine ? val(PGAMMA, x, v / 2, 0.5) : (beta == 0.5 ? val(PCHISQ, x, 2 * alpha) : p);
    chk(fabs(other - p) <= 2 * TOL_G, "gamma.chisq-identity", cls, [&] { return callS() + " = " + str(p) + " but the " + (chisqLine ? "gamma" : "chi-square") + " form gives " + str(other); });
    // raw incomplete gamma ratio and the scale identity
    double ig = val(IGAMMA, yy, alpha, lg, nearSwitch);
    chk(fabs(ig - p) <= 2 * TOL_G, "gamma.incomplete-identity", cls, [&] { return callS() + " = " + str(p) + " but incompleteGamma(" + str(yy) + "," + str(alpha) + ",lnGamma) = " + str(ig); });
    if (!chisqLine && beta != 1)
    {
      double ps = val(PGAMMA, yy, alpha, 1.);
      chk(fabs(ps - p) <= 2 * TOL_G, "gamma.scale", cls, [&] { return callS() + " = " + str(p) + " but pGamma(beta*x," + str(alpha) + ",1) = " + str(ps); });
    }
    // shape recurrence P(a+1,y) = P(a,y) - y^a e^-y / Gamma(a+1)
    double p1 = chisqLine ? val(PCHISQ, x, v + 2) : val(PGAMMA, x, alpha + 1, beta);
    double term = yy > 0 ? exp(alpha * log(yy) - yy - lgamma(alpha + 1)) : 0;
    chk(fabs(p1 - (p - term)) <= 2 * TOL_G + 1e-12, "gamma.recurrence", cls, [&] { return callS() + " = " + str(p) + ", with shape+1: " + str(p1) + ", expected difference y^a e^-y/Gamma(a+1) = " + str(term) + " (off by " + str(p1 - (p - term)) + ")"; });
    chk(p1 >= 0 && p1 <= 1, "gamma.range", cls + ",shape+1", [&] { return "shape+1 value " + str(p1) + " of " + callS(); });
    if (prev1 >= 0) chk(p1 >= prev1 - 2 * TOL_G, "gamma.monotone", cls + ",shape+1", [&] { return "shape+1 line decreases at " + callS() + ": " + str(prev1) + " -> " + str(p1); });
    prev1 = p1;
    // closed forms
    if (alpha == 1)
    {
      double ref = -expm1(-yy);
      chk(fabs(p - ref) <= TOL_G, "gamma.special", cls + ",case=exponential", [&] { return callS() + " = " + str(p) + " but 1-exp(-beta x) = " + str(ref); });
      vrt::cover("gamma-special:exponential");
    }
    if (alpha == 0.5)
    {
      double ref = erf(sqrt(yy));
      chk(fabs(p - ref) <= TOL_G, "gamma.special", cls + ",case=half", [&] { return callS() + " = " + str(p) + " but erf(sqrt(beta x)) = " + str(ref); });
      vrt::cover("gamma-special:half");
    }
    if (alpha == floor(alpha) && alpha >= 2 && alpha <= 20 && yy < 600)
    {
      double ref = poissonUpper(static_cast<int>(alpha), yy);
      chk(fabs(p - ref) <= TOL_G + 1e-13, "gamma.special", cls + ",case=integer-shape", [&] { return callS() + " = " + str(p) + " but the Poisson sum gives " + str(ref); });
      vrt::cover("gamma-special:integer");
    }
  }
}
void caseGammaCdf(vrt::Case& c) { guarded(c, bodyGammaCdf); }

// ================================================================= gamma family quantiles
void bodyGammaQ(vrt::Case& c)
{
  const size_t NA = sizeof(GAMMA_A) / sizeof(double);
  double alpha, beta;
  bool chisq = (c.index % 2 == 1);
  if (c.index < 2 * NA) { alpha = GAMMA_A[c.index / 2]; beta = chisq ? 0.5 : (c.index % 4 == 0 ? 1. : 1e3); }
  else { alpha = snapShape(c.rng, 0.05, 200); beta = chisq ? 0.5 : c.rng.logReal(1e-3, 1e3); }
  const double v = 2 * alpha;
  vrt::describe(chisq ? "qChisq:line" : "qGamma:line", (chisq ? "qChisq(p, v=" + str(v) + ")" : "qGamma(p, alpha=" + str(alpha) + ", beta=" + str(beta) + ")") + " along a probability grid over [1e-6,1-1e-6] plus the ends");
  vector<double> ps = probGrid(c.rng, c.tier ? 400 : 90, c.tier ? 1024 : 256, c.tier ? 600 : 100);
  const char* fn = chisq ? "qChisq" : "qGamma";
  double prevq = -1, prevp = 0, prevpdf = 0;
  for (double p : ps)
  {
    bool documented = p > .000002 && p < .999998, boundary = (p == .000002 || p == .999998);
    double q = chisq ? val(QCHISQ, p, v) : val(QGAMMA, p, alpha, beta);
    auto callS = [&] { return chisq ? "qChisq(" + str(p) + "," + str(v) + ")" : "qGamma(" + str(p) + "," + str(alpha) + "," + str(beta) + ")"; };
    string reg = regionQChisq(p, v);
    string cls = string("fn=") + fn + ",region=" + reg;
    bool signal = std::isnan(q) || q < 0;   // qChisq documents -1; qGamma = qChisq/(2 beta) has no documented signal: any impossible (negative) value
    if (chisq && q < 0) signal = (q == -1);
    if (!documented)
    {
      // outside 0.000002 < p < 0.999998 (the boundary included): the documented error signal is the expected outcome; the exact
      // quantile 0 / inf at the very ends and - should the working range ever be widened - a value that passes every clause below
      // are accepted too.  What is never accepted is a number that is neither.
      vrt::cover(string(fn) + ":outside-documented" + (signal ? ":signal" : ":value"));
      bool endOk = (p == 0 && q == 0) || (p == 1 && q == INF);
      if (p == 0 || p == 1)
      {
        chk(signal || endOk, "qgamma.outside-documented-range", string("fn=") + fn + ",p=" + str(p), [&] { return callS() + " = " + str(q) + " is neither the error signal nor the exact end quantile"; });
        continue;
      }
      chk(true, "qgamma.outside-documented-range", "", [] { return string(); });
      if (signal) continue;
    }
    vrt::cover(string(fn) + ":" + reg + ",alpha" + bucket(alpha));
    if (!chk(std::isfinite(q) && q >= 0, "qgamma.range", cls, [&] { return callS() + " = " + str(q) + " for a probability inside the documented range"; })) continue;
    double y = chisq ? q / 2 : q * beta;
    double xpdf = xpdfGamma(y, alpha);               // q * density at q (scale free)
    double pdfq = q > 0 ? xpdf / q : INF;
    if (prevq >= 0)
    {
      double mid = 0.5 * (q + prevq);
      double ym = chisq ? mid / 2 : mid * beta;
      double pdfm = mid > 0 ? xpdfGamma(ym, alpha) / mid : INF;
      double mp = min(pdfq, min(prevpdf, pdfm));
      double slack = 2e-6 * prevq + (mp > 0 ? 4 * TOL_G / mp : INF);
      chk(q >= prevq - slack, "qgamma.monotone", cls, [&] { return callS() + " = " + str(q) + " < quantile " + str(prevq) + " of the smaller p = " + str(prevp); });
    }
    prevq = q; prevp = p; prevpdf = pdfq;
    // inverse consistency through the library's own cdf
    double back = chisq ? val(PCHISQ, q, v) : val(PGAMMA, q, alpha, beta);
    double tol = 1e-6 * xpdf + 2 * TOL_G + TOL_G;
    chk(fabs(back - p) <= tol, "qgamma.inverse", cls, [&] { return (chisq ? "pChisq(" : "pGamma(") + callS() + " = " + str(q) + ") = " + str(back) + ", differs from p by " + str(back - p) + " (allowed " + str(tol) + ")"; });
    // qGamma = qChisq / (2 beta)
    if (!chisq)
    {
      double qc = val(QCHISQ, p, v);
      double e = qc / (2 * beta);
      chk(fabs(q - e) <= 2e-6 * fabs(e) + (pdfq > 0 ? 4 * TOL_G / pdfq : INF), "qgamma.chisq-relation", cls, [&] { return callS() + " = " + str(q) + " but qChisq(p,2 alpha)/(2 beta) = " + str(e); });
    }
    // closed form: exponential
    if (alpha == 1)
    {
      double ref = -log1p(-p) / (chisq ? 0.5 : beta);
      double pdf = (chisq ? 0.5 : beta) * (1 - p);
      chk(fabs(q - ref) <= 1e-6 * ref + 2 * TOL_G / pdf, "qgamma.special", cls + ",case=exponential", [&] { return callS() + " = " + str(q) + " but -ln(1-p)/rate = " + str(ref); });
      vrt::cover("qgamma-special:exponential");
    }
  }
}
void caseGammaQ(vrt::Case& c) { guarded(c, bodyGammaQ); }

// ================================================================= far tail / extreme arguments of the gamma family
void bodyGammaFar(vrt::Case& c)
{
  static const double YS[] = { 1e120, 1e150, 1e153, 1e154, 1e160, 1e200, 1e250, 1e300, DBL_MAX, INF };
  static const double AS[] = { 0.05, 1, 2.5, 200 };
  const size_t NY = sizeof(YS) / sizeof(double), NAL = sizeof(AS) / sizeof(double);
  if (c.index < NY * NAL)
  {
    double y = YS[c.index % NY], alpha = AS[c.index / NY];
    vrt::describe("gamma:far-tail", "pGamma / pChisq / incompleteGamma at the upper end of the support: x = " + str(y) + ", shape " + str(alpha));
    string reg = regionGamma(y, alpha);
    vrt::cover("gamma-far:" + reg);
    double p = val(PGAMMA, y, alpha, 1., true);
    chk(p <= 1 && p >= 1 - TOL_G, "gamma.ends", "fn=pGamma,region=" + reg + ",end=far-tail", [&] { return "pGamma(" + str(y) + "," + str(alpha) + ",1) = " + str(p) + " (expected 1)"; });
    double pc = val(PCHISQ, y, 2 * alpha, 0, true);
    chk(pc <= 1 && pc >= 1 - TOL_G, "gamma.ends", "fn=pChisq,region=" + regionGamma(y / 2, alpha) + ",end=far-tail", [&] { return "pChisq(" + str(y) + "," + str(2 * alpha) + ") = " + str(pc) + " (expected 1)"; });
    double ig = val(IGAMMA, y, alpha, lgamma(alpha), true);
    chk(ig <= 1 && ig >= 1 - TOL_G, "gamma.ends", "fn=incompleteGamma,region=" + reg + ",end=far-tail", [&] { return "incompleteGamma(" + str(y) + "," + str(alpha) + ",lnGamma) = " + str(ig) + " (expected 1)"; });
    if (std::isfinite(y))
    {
      double pr = val(PGAMMA, y / 1e3, alpha, 1e3, true);
      chk(pr <= 1 && pr >= 1 - TOL_G, "gamma.ends", "fn=pGamma,region=" + reg + ",end=far-tail", [&] { return "pGamma(" + str(y / 1e3) + "," + str(alpha) + ",1000) = " + str(pr) + " (expected 1)"; });
    }
    return;
  }
  // smallest arguments
  double alpha = c.rng.logReal(0.05, 200);
  vrt::describe("gamma:tiny-x", "pGamma / pChisq at denormal and tiny x, shape " + str(alpha));
  double prev = 0;
  for (double x : { 0., 4.9406564584124654e-324, 1e-320, 1e-310, 2.2250738585072014e-308, 1e-300, 1e-200, 1e-100 })
  {
    double p = val(PGAMMA, x, alpha, 1., true);
    chk(p >= 0 && p <= 1 && p >= prev - 2 * TOL_G, "gamma.range", "fn=pGamma,region=tiny-x", [&] { return "pGamma(" + str(x) + "," + str(alpha) + ",1) = " + str(p); });
    double ref = x > 0 ? exp(alpha * log(x) - lgamma(alpha + 1)) : 0;   // leading term; the next one is relatively x
    chk(fabs(p - ref) <= TOL_G, "gamma.special", "fn=pGamma,region=tiny-x,case=leading-term", [&] { return "pGamma(" + str(x) + "," + str(alpha) + ",1) = " + str(p) + " but x^a/Gamma(a+1) = " + str(ref); });
    prev = p;
    vrt::cover("gamma-far:tiny-x");
  }
}
void caseGammaFar(vrt::Case& c) { guarded(c, bodyGammaFar); }

// ================================================================= beta cdf
const double BETA_S[] = { 0.1, 0.3, 0.5, 1, 1.5, 2, 5, 20, 100, 200 };
double lnBetaRef(double a, double b) { return lgamma(a) + lgamma(b) - lgamma(a + b); }
double pdfBeta(double x, double a, double b)
{
  if (x <= 0) return a < 1 ? INF : (a == 1 ? b : 0);
  if (x >= 1) return b < 1 ? INF : (b == 1 ? a : 0);
  return exp((a - 1) * log(x) + (b - 1) * log1p(-x) - lnBetaRef(a, b));
}
vector<double> betaGrid(double a, double b, int nlog, int nlin)
{
  vector<double> x;
  x.push_back(0); x.push_back(1);
  addLog(x, 1e-300, 0.5, nlog);
  vector<double> up;
  addLog(up, 1.2e-16, 0.5, nlog / 2);
  for (double t : up) x.push_back(1 - t);
  addLin(x, 0, 1, nlin + 1);
  double m = a / (a + b), sd = sqrt(a * b / ((a + b) * (a + b) * (a + b + 1)));
  addLin(x, max(1e-12, m - 8 * sd), min(1 - 1e-12, m + 8 * sd), nlin / 2);
  vector<double> nb;
  addNeighbours(nb, 0.95); addNeighbours(nb, 0.05); addNeighbours(nb, m); addNeighbours(nb, 1 - m);
  if (b > 1) addNeighbours(nb, 1 / b);
  if (a > 1) addNeighbours(nb, 1 - 1 / a);
  for (double t : nb) if (t > 0 && t < 1) x.push_back(t);
  sortUnique(x);
  return x;
}

void bodyBetaCdf(vrt::Case& c)
{
  const size_t NS = sizeof(BETA_S) / sizeof(double);
  double a, b;
  if (c.index < NS * NS) { a = BETA_S[c.index / NS]; b = BETA_S[c.index % NS]; }
  else
  {
    a = snapShape(c.rng, 0.1, 200); b = snapShape(c.rng, 0.1, 200);
    if (c.rng.chance(0.1)) b = a;
  }
  vrt::describe("pBeta:line", "pBeta(x, " + str(a) + ", " + str(b) + ") along an x grid on [0,1] (1e-300 .. 1-1e-16); symmetry, recurrences, closed forms");
  vector<double> xs = betaGrid(a, b, c.tier ? 400 : 110, c.tier ? 800 : 200);
  const double tb = tolB(a, b), lb = lnBetaRef(a, b);
  const double tA = tolB(a + 1, b), tBB = tolB(a, b + 1);
  double prev = -1, prevx = 0, prevA = -1, prevB = -1;
  const string ab = ",a" + bucket(a) + ",b" + bucket(b);
  size_t k = 0;
  for (double x : xs)
  {
    ++k;
    string reg = regionBeta(x, a, b);
    string cls = "fn=pBeta,region=" + reg;
    auto callS = [&] { return "pBeta(" + str(x) + "," + str(a) + "," + str(b) + ")"; };
    double p = val(PBETA, x, a, b);
    vrt::cover("pBeta:" + reg + ab);
    chk(p >= 0 && p <= 1, "beta.range", cls, [&] { return callS() + " = " + str(p) + " is outside [0,1]"; });
    if (prev >= 0) chk(p >= prev - 2 * tb, "beta.monotone", cls, [&] { return callS() + " = " + str(p) + " < value " + str(prev) + " at the smaller x = " + str(prevx); });
    prev = p; prevx = x;
    if (x == 0) chk(fabs(p) <= tb, "beta.ends", cls + ",x=0", [&] { return callS() + " = " + str(p) + " (expected 0)"; });
    if (x == 1) chk(fabs(p - 1) <= tb, "beta.ends", cls + ",x=1", [&] { return callS() + " = " + str(p) + " (expected 1)"; });
    if (k % 4 == 0)
    {
      double ib = val(IBETA, x, a, b);
      chk(fabs(ib - p) <= 2 * tb, "beta.incomplete-identity", cls, [&] { return callS() + " = " + str(p) + " but incompleteBeta gives " + str(ib); });
    }
    // symmetry with an exact complement
    double xc = 1 - x;
    if (1 - xc == x)
    {
      double pc = val(PBETA, xc, b, a);
      chk(fabs(p + pc - 1) <= 2 * tb, "beta.symmetry", cls, [&] { return callS() + " = " + str(p) + " but 1-pBeta(1-x,b,a) = 1-" + str(pc) + " (sum-1 = " + str(p + pc - 1) + ")"; });
    }
    // recurrences I_x(a+1,b) = I_x(a,b) - x^a (1-x)^b / (a B(a,b)),  I_x(a,b+1) = I_x(a,b) + x^a (1-x)^b / (b B(a,b))
    if (x > 0 && x < 1)
    {
      double core = exp(a * log(x) + b * log1p(-x) - lb);
      double pa = val(PBETA, x, a + 1, b), pb = val(PBETA, x, a, b + 1);
      double tolr = tb + max(tA, tBB) + 64 * EPS * (fabs(a * log(x)) + fabs(b * log1p(-x)) + fabs(lb) + 1) * core * max(1 / a, 1 / b);
      chk(fabs(pa - (p - core / a)) <= tolr, "beta.recurrence", cls + ",shape=a+1", [&] { return callS() + " = " + str(p) + ", pBeta(x,a+1,b) = " + str(pa) + ", expected difference x^a(1-x)^b/(a B) = " + str(core / a) + " (off by " + str(pa - (p - core / a)) + ")"; });
      chk(fabs(pb - (p + core / b)) <= tolr, "beta.recurrence", cls + ",shape=b+1", [&] { return callS() + " = " + str(p) + ", pBeta(x,a,b+1) = " + str(pb) + ", expected difference x^a(1-x)^b/(b B) = " + str(core / b) + " (off by " + str(pb - (p + core / b)) + ")"; });
      chk(pa >= 0 && pa <= 1 && pb >= 0 && pb <= 1, "beta.range", cls + ",shape+1", [&] { return "shape+1 values " + str(pa) + ", " + str(pb) + " of " + callS(); });
      if (prevA >= 0) chk(pa >= prevA - 2 * tA && pb >= prevB - 2 * tBB, "beta.monotone", cls + ",shape+1", [&] { return "a shape+1 line decreases at " + callS() + ": " + str(prevA) + " -> " + str(pa) + ", " + str(prevB) + " -> " + str(pb); });
      prevA = pa; prevB = pb;
    }
    // closed forms
    if (b == 1)
    {
      double ref = pow(x, a);
      chk(fabs(p - ref) <= tb, "beta.special", cls + ",case=b=1", [&] { return callS() + " = " + str(p) + " but x^a = " + str(ref); });
      vrt::cover("beta-special:b=1");
    }
    if (a == 1)
    {
      double ref = x < 1 ? -expm1(b * log1p(-x)) : 1;
      chk(fabs(p - ref) <= tb, "beta.special", cls + ",case=a=1", [&] { return callS() + " = " + str(p) + " but 1-(1-x)^b = " + str(ref); });
      vrt::cover("beta-special:a=1");
    }
    if (a == 0.5 && b == 0.5)
    {
      // asin is ill-conditioned next to 1: use the complement there (1-x is exact for x >= 0.5)
      double ref = x <= 0.5 ? 2 / M_PI * asin(sqrt(x)) : 1 - 2 / M_PI * asin(sqrt(1 - x));
      chk(fabs(p - ref) <= tb + 4 * EPS, "beta.special", cls + ",case=arcsine", [&] { return callS() + " = " + str(p) + " but (2/pi) asin(sqrt x) = " + str(ref); });
      vrt::cover("beta-special:arcsine");
    }
    if (a == b && x == 0.5)
      chk(fabs(p - 0.5) <= tb, "beta.special", cls + ",case=symmetric-median", [&] { return callS() + " = " + str(p) + " (expected 0.5)"; });
  }
}
void caseBetaCdf(vrt::Case& c) { guarded(c, bodyBetaCdf); }

// ================================================================= beta quantile
const double BETAQ_S[] = { 0.3, 0.5, 1, 2, 5, 20, 100, 200 };
void bodyBetaQ(vrt::Case& c)
{
  const size_t NS = sizeof(BETAQ_S) / sizeof(double);
  double a, b;
  if (c.index < NS * NS) { a = BETAQ_S[c.index / NS]; b = BETAQ_S[c.index % NS]; }
  else { a = snapShape(c.rng, 0.3, 200); b = snapShape(c.rng, 0.3, 200); if (c.rng.chance(0.1)) b = a; }
  vrt::describe("qBeta:line", "qBeta(p, " + str(a) + ", " + str(b) + ") along a probability grid over [1e-6,1-1e-6] plus the ends");
  vector<double> ps = probGrid(c.rng, c.tier ? 300 : 60, c.tier ? 512 : 128, c.tier ? 400 : 60);
  const double tb = tolB(a, b);
  double prevq = -1, prevp = 0, prevpdf = 0;
  for (double p : ps)
  {
    bool end = (p == 0 || p == 1);
    string reg = end ? "end" : regionQBeta(p, a, b);
    string cls = "fn=qBeta,region=" + reg;
    auto callS = [&] { return "qBeta(" + str(p) + "," + str(a) + "," + str(b) + ")"; };
    R r = ev(QBETA, p, a, b, end);
    if (end)
    {
      chk((r.kind == 1) || (r.ok() && r.v == p), "qbeta.ends", "fn=qBeta,p=" + str(p), [&] { return callS() + (r.ok() ? " = " + str(r.v) : " raised " + r.what) + " (expected " + str(p) + ")"; });
      continue;
    }
    if (!chk(r.ok(), "valid.returns-value", cls + ",outcome=exception", [&] { return callS() + " raised " + r.what; })) continue;
    double q = r.v;
    vrt::cover("qBeta:" + reg + ",a" + bucket(a) + ",b" + bucket(b));
    if (!chk(q >= 0 && q <= 1, "qbeta.range", cls, [&] { return callS() + " = " + str(q) + " is outside [0,1]"; })) continue;
    double pdfq = pdfBeta(q, a, b);
    // the quantile is only representable to an ulp of q (of 1-q = ulp(1) in the swapped tail)
    double d = 4 * EPS * q + (p > 0.5 ? 4 * EPS : 0) + 1e-300;
    if (prevq >= 0)
    {
      double mp = min(pdfq, min(prevpdf, pdfBeta(0.5 * (q + prevq), a, b)));
      double slack = 2 * d + 1e-12 + (mp > 0 ? 2 * (tb + 3e-12) / mp : INF);
      chk(q >= prevq - slack, "qbeta.monotone", cls, [&] { return callS() + " = " + str(q) + " < quantile " + str(prevq) + " of the smaller p = " + str(prevp); });
    }
    prevq = q; prevp = p; prevpdf = pdfq;
    // inverse through the library's own cdf, bracketing by the representability of q
    double lo = val(PBETA, max(0., q - d), a, b), hi = val(PBETA, min(1., q + d), a, b);
    double pdfc = pdfBeta(min(max(q, 1e-300), 1 - EPS / 2), a, b);
    double tol = tb + 3e-12 + 1e-12 * min(pdfc, 1e4);
    double err = max(0., max(lo - p, p - hi));
    chk(err <= tol, "qbeta.inverse", cls, [&] { return "pBeta(" + callS() + " = " + str(q) + " -/+ 4ulp) = [" + str(lo) + "," + str(hi) + "] misses p by " + str(err) + " (allowed " + str(tol) + ")"; });
    // tail symmetry with an exact complement
    double pc = 1 - p;
    if (1 - pc == p && pc > 0 && pc < 1)
    {
      double qc = val(QBETA, pc, b, a);
      double tolx = 2 * d + 8 * EPS + 1e-12 + (pdfq > 0 ? 2 * (tb + 3e-12) / pdfq : INF);
      chk(fabs(q + qc - 1) <= tolx, "qbeta.symmetry", cls, [&] { return callS() + " = " + str(q) + " but 1-qBeta(1-p,b,a) = 1-" + str(qc) + " (sum-1 = " + str(q + qc - 1) + ")"; });
    }
    // closed forms
    if (b == 1 || a == 1)
    {
      double ref = b == 1 ? pow(p, 1 / a) : -expm1(log1p(-p) / b);
      double pr = pdfBeta(ref, a, b);
      double tolx = 2 * d + 8 * EPS * ref + 1e-12 + (pr > 0 ? 2 * (tb + 3e-12) / pr : INF);
      chk(fabs(q - ref) <= tolx, "qbeta.special", cls + (b == 1 ? ",case=b=1" : ",case=a=1"), [&] { return callS() + " = " + str(q) + " but the closed form gives " + str(ref); });
      vrt::cover(b == 1 ? "qbeta-special:b=1" : "qbeta-special:a=1");
    }
  }
}
void caseBetaQ(vrt::Case& c) { guarded(c, bodyBetaQ); }

// ================================================================= lnGamma / lnBeta
void bodyLn(vrt::Case& c)
{
  vrt::describe("ln:identities", "lnGamma / lnBeta identities on random positive shapes");
  int n = c.tier ? 2000 : 400;
  for (int i = 0; i < n; ++i)
  {
    double a = snapShape(c.rng, 0.05, 400), b = snapShape(c.rng, 0.05, 400);
    double la = val(LNGAMMA, a), la1 = val(LNGAMMA, a + 1);
    double scale = 1 + fabs(la) + fabs(la1) + fabs(log(a));
    chk(fabs(la1 - (la + log(a))) <= 1e-13 * scale, "ln.gamma-recurrence", "fn=lnGamma", [&] { return "lnGamma(" + str(a + 1) + ") = " + str(la1) + " but lnGamma(a)+ln(a) = " + str(la + log(a)); });
    double lbv = val(LNBETA, a, b), lbs = val(LNBETA, b, a);
    double sc2 = 1 + fabs(lgamma(a)) + fabs(lgamma(b)) + fabs(lgamma(a + b));
    chk(fabs(lbv - lbs) <= 1e-13 * sc2, "ln.beta-symmetric", "fn=lnBeta", [&] { return "lnBeta(" + str(a) + "," + str(b) + ") = " + str(lbv) + " but swapped = " + str(lbs); });
    chk(fabs(lbv - lnBetaRef(a, b)) <= 1e-13 * sc2, "ln.beta-definition", "fn=lnBeta", [&] { return "lnBeta(" + str(a) + "," + str(b) + ") = " + str(lbv) + " but lgamma(a)+lgamma(b)-lgamma(a+b) = " + str(lnBetaRef(a, b)); });
    double l1 = val(LNBETA, a, 1.);
    chk(fabs(l1 + log(a)) <= 1e-13 * (1 + 2 * fabs(lgamma(a + 1)) + fabs(log(a))), "ln.beta-special", "fn=lnBeta,case=b=1", [&] { return "lnBeta(" + str(a) + ",1) = " + str(l1) + " but -ln(a) = " + str(-log(a)); });
    vrt::cover("ln:a" + bucket(a) + ",b" + bucket(b));
  }
  double f = 0;
  for (int k = 1; k <= 170; ++k)
  {
    double l = val(LNGAMMA, static_cast<double>(k), 0, 0, true);
    chk(fabs(l - f) <= 1e-13 * (1 + f), "ln.gamma-factorial", "fn=lnGamma,arg=integer", [&] { return "lnGamma(" + str(k) + ") = " + str(l) + " but ln((k-1)!) = " + str(f); });
    f += log(static_cast<double>(k));
  }
  double h = val(LNGAMMA, 0.5, 0, 0, true);
  chk(fabs(h - 0.5 * log(M_PI)) <= 1e-14, "ln.gamma-factorial", "fn=lnGamma,arg=half", [&] { return "lnGamma(0.5) = " + str(h); });
}
void caseLn(vrt::Case& c) { guarded(c, bodyLn); }

// ================================================================= invalid region
// "Arguments outside the domain give the documented error signal (exception or sentinel) rather than a plausible-looking number."
// Accepted: a bpp::Exception, the documented sentinel of the function, NaN, or (for functions that document no sentinel) a value
// outside the codomain.  Rejected: a number inside the codomain, a foreign exception.
struct Judge { bool ok; string got; };
Judge judge(const R& r, int fn)
{
  Judge j; j.ok = false;
  if (r.kind == 1) { j.ok = true; j.got = "raised " + r.what; return j; }
  if (r.kind == 2) { j.got = "raised the foreign exception " + r.what; return j; }
  j.got = "returned " + str(r.v);
  double v = r.v;
  if (std::isnan(v)) { j.ok = true; return j; }
  switch (fn)
  {
  case QNORM: case QNORM3: j.ok = (v == -9999); break;
  case IGAMMA: case QCHISQ: j.ok = (v == -1); break;
  case PGAMMA: case PCHISQ: j.ok = (v == -1); break;
  case QGAMMA: j.ok = (v < 0); break;
  case PBETA: case IBETA: case QBETA: j.ok = (v < 0 || v > 1); break;
  default: j.ok = false;
  }
  return j;
}
void invalidCall(int fn, double a, double b, double c, const string& why)
{
  R r = ev(fn, a, b, c);
  Judge j = judge(r, fn);
  vrt::cover(string("invalid:") + FNAME[fn] + ":" + why);
  chk(j.ok, "invalid.signal", string("fn=") + FNAME[fn] + ",arg=" + why, [&] { return callText(fn, a, b, c) + " (" + why + ") " + j.got + " instead of the documented error signal"; });
}
void bodyInvalid(vrt::Case& c)
{
  vrt::describe("invalid:region", "negative shapes / rates and probabilities outside [0,1] for every function");
  vrt::Rng& g = c.rng;
  auto negv = [&] { return -g.logReal(1e-6, 1e3); };
  auto badp = [&] { return g.chance(0.5) ? -g.logReal(1e-12, 1e3) : 1 + g.logReal(1e-12, 1e3); };
  auto shape = [&] { return g.logReal(0.05, 200); };
  // probabilities for the invalid-shape calls: the interior, and the ends 0 / 1 and their neighbourhood, where a
  // quantile function may leave through an early exit before it has looked at its shape arguments
  auto prob = [&] { double u = g.unit(); return u < 0.15 ? 0. : u < 0.3 ? 1. : u < 0.4 ? 1e-6 : u < 0.5 ? 1 - 1e-6 : g.real(0.01, 0.99); };
  int n = c.tier ? 40 : 10;
  for (int i = 0; i < n; ++i)
  {
    double x = g.logReal(1e-3, 1e3);
    invalidCall(PGAMMA, x, negv(), g.logReal(1e-3, 1e3), "negative-shape");
    invalidCall(PGAMMA, x, shape(), negv(), "negative-rate");
    invalidCall(PCHISQ, x, negv(), 0, "negative-df");
    invalidCall(IGAMMA, x, negv(), 0.3, "negative-shape");
    { double a = shape(); invalidCall(IGAMMA, -x, a, lgamma(a), "negative-x"); }
    invalidCall(QCHISQ, badp(), 2 * shape(), 0, "p-outside-[0,1]");
    invalidCall(QCHISQ, prob(), negv(), 0, "negative-df");
    invalidCall(QGAMMA, badp(), shape(), g.logReal(1e-3, 1e3), "p-outside-[0,1]");
    invalidCall(QGAMMA, prob(), negv(), g.logReal(1e-3, 1e3), "negative-shape");
    invalidCall(PBETA, g.unit(), negv(), shape(), "negative-shape-a");
    invalidCall(PBETA, g.unit(), shape(), negv(), "negative-shape-b");
    invalidCall(PBETA, badp(), shape(), shape(), "x-outside-[0,1]");
    invalidCall(IBETA, g.unit(), negv(), shape(), "negative-shape-a");
    invalidCall(IBETA, g.unit(), shape(), negv(), "negative-shape-b");
    invalidCall(IBETA, badp(), shape(), shape(), "x-outside-[0,1]");
    invalidCall(QBETA, badp(), g.logReal(0.3, 200), g.logReal(0.3, 200), "p-outside-[0,1]");
    invalidCall(QBETA, prob(), negv(), g.logReal(0.3, 200), "negative-shape-a");
    invalidCall(QBETA, prob(), g.logReal(0.3, 200), negv(), "negative-shape-b");
    invalidCall(QNORM, badp(), 0, 0, "p-outside-[0,1]");
    invalidCall(QNORM3, badp(), g.chance(0.3) ? 0 : g.real(-1e4, 1e4), g.logReal(1e-3, 1e3), "p-outside-[0,1]");
  }
  // negative x of a cdf is not an error: below the support the cdf is 0 (pGamma documents the sentinel of incompleteGamma)
  for (int i = 0; i < n; ++i)
  {
    double x = -g.logReal(1e-6, 1e3), v = 2 * shape();
    R r = ev(PCHISQ, x, v);
    chk(r.kind == 1 || (r.ok() && (r.v == 0 || r.v == -1)), "invalid.below-support", "fn=pChisq", [&] { return "pChisq(" + str(x) + "," + str(v) + ") " + (r.ok() ? "= " + str(r.v) : "raised " + r.what) + " (expected 0 or the error signal)"; });
    R s = ev(PGAMMA, x, v / 2, 1.);
    chk(s.kind == 1 || (s.ok() && (s.v == 0 || s.v == -1)), "invalid.below-support", "fn=pGamma", [&] { return "pGamma(" + str(x) + "," + str(v / 2) + ",1) " + (s.ok() ? "= " + str(s.v) : "raised " + s.what) + " (expected 0 or the error signal)"; });
  }
}
void caseInvalid(vrt::Case& c) { guarded(c, bodyInvalid); }
} // namespace

int main(int argc, char** argv)
{
  logOpen(argc, argv);
  const size_t NGA = sizeof(GAMMA_A) / sizeof(double), NGB = sizeof(GAMMA_B) / sizeof(double);
  const size_t NBS = sizeof(BETA_S) / sizeof(double), NBQ = sizeof(BETAQ_S) / sizeof(double);
  vector<vrt::Group> groups = {
    { "norm-cdf", NORM_SEG + 64, NORM_SEG + 800, caseNormCdf, 600, false },
    { "norm-quantile", 32, 240, caseNormQ, 600, false },
    { "gamma-cdf", NGA * NGB + 500, NGA * NGB + 6000, caseGammaCdf, 900, false },
    { "gamma-quantile", 2 * NGA + 400, 2 * NGA + 4000, caseGammaQ, 900, false },
    { "gamma-far", 40 + 16, 40 + 200, caseGammaFar, 600, false },
    { "beta-cdf", NBS * NBS + 500, NBS * NBS + 6000, caseBetaCdf, 900, false },
    { "beta-quantile", NBQ * NBQ + 400, NBQ * NBQ + 4000, caseBetaQ, 900, false },
    { "ln", 8, 60, caseLn, 600, false },
    { "invalid", 48, 400, caseInvalid, 600, false },
  };
  vrt::Meta meta;
  meta.rule = "One case = one grid line: a deterministic lattice of parameter points first (shapes 0.05..200 incl. 0.5, 1, integers; rates 1e-3..1e3; "
      "beta shapes 0.1..200, quantile 0.3..200), then seeded random (log-uniform, 30% snapped to integers / half-integers / next to 1) parameter points. "
      "Along each line the argument runs over a sorted grid: x = 0, a log grid from 1e-300, a linear grid over mean +- 8..12 sd, 3-ulp / 1e-9 / 1e-4 neighbours of every "
      "branch switch of the implementation (series/continued fraction, power series/cf of the beta, |z| = 0.674, sqrt 32, 8.29, 37.5), the far tail (gamma-far: up to DBL_MAX "
      "and +inf); probabilities: [1e-6,1-1e-6] log + dyadic linear + random, the documented boundaries 2e-6 / 0.999998 and the ends 0, 1. pNorm: 64 segments of [-40,40]. "
      "A class key = (function, branch of the implementation the argument falls in, magnitude bucket of the shapes) resp. (closed-form special case) resp. "
      "(function, kind of invalid argument); every key stands for a real evaluation compared with at least one clause.";
  meta.assumptions = {
    "documented accuracies used as tolerances: pNorm 1e-12; pBeta 1e-12 + 4 eps max|lnGamma| of the shapes; gamma-type cdfs 2e-8 ('about 1e-8': 1e-8 is the series / continued-fraction stopping criterion); "
    "qNorm 1e-7 in probability (AS70, ~1.5e-8 in z); qChisq/qGamma 1e-6 relative in the quantile plus cdf accuracy (iteration tolerance .5e-6); qBeta 1e-12*pdf plus cdf accuracy, up to 4 ulp of the quantile",
    "monotone / identity clauses allow the sum of the accuracies of the two values compared (a function accurate to eps cannot be required monotone below 2 eps)",
    "qChisq/qGamma outside the documented range 0.000002<p<0.999998 (part of the quantifier's [1e-6,1-1e-6]) and qNorm at p = 0, 1: the documented error signal (-1, -9999) is the expected outcome, a value that passes every other clause (exact end quantile at p = 0, 1) is accepted as well; qGamma documents no sentinel: any negative value / NaN / exception counts as a signal",
    "invalid region = negative shape / rate / df (and zero where the source documents it), probability or beta argument outside [0,1]; zero rate, NaN arguments and sigma <= 0 are not judged",
    "the offline oracle (oracle/C08_oracle.py: scipy.special, mpmath 50 digits) judges a deterministic sample (1/8 quick, 1/64 thorough, plus every point next to a branch switch and every end point) of the calls made; a scipy/library disagreement only counts when mpmath confirms it",
    "a call is required to return within 10 s of process CPU time (cases take milliseconds)",
  };
  meta.requiredClauses = { "norm.range", "norm.monotone", "norm.ends", "norm.reflection", "norm.accuracy-erfc", "qnorm.monotone", "qnorm.inverse",
                           "gamma.range", "gamma.monotone", "gamma.ends", "gamma.chisq-identity", "gamma.recurrence", "gamma.special",
                           "qgamma.monotone", "qgamma.inverse", "qgamma.outside-documented-range",
                           "beta.range", "beta.monotone", "beta.ends", "beta.symmetry", "beta.recurrence", "beta.special",
                           "qbeta.monotone", "qbeta.inverse", "qbeta.ends", "invalid.signal", "call.terminates", "oracle.accuracy", "oracle.inverse" };
  int rc = vrt::run(argc, argv, "C08", groups, meta);
  if (gLog) fclose(gLog);
  return rc;
}
