// C06 - Eigen-decomposition satisfies A.V = V.D for every real square matrix.
//
// Every case builds one real square matrix (n = 1..12) from a generator named by the quantifier, hands it
// to EigenValue<double> in one of the three storage classes and audits all views (getV, getD,
// getRealEigenValues, getImagEigenValues, isSymmetric).  Numeric oracles are residual / backward-error
// bounds evaluated in long double on what the library returned:
//   non-symmetric (Householder-Hessenberg + shifted QR, EISPACK orthes/hqr2): the computed Schur form is
//   that of A+E with |E|_F <= p(n) eps |A|_F; every eigenvector column (pair of columns for a complex pair)
//   comes from a triangular back substitution, so column-wise |A v - v B|_F <= CQR n eps |A|_F |v|_F.
//   symmetric (tred2/tql2): the same with orthonormal V, eigenvalues within CSYM n eps |A|_F of the exact
//   ones (Weyl), which are obtained by a long double Jacobi iteration on the same input.
//   trace: sum(d) = tr(A+E);  determinant: prod(lambda) = det(A+E), bounded through multilinearity and
//   Hadamard by prod(|a_i|+delta) - prod|a_i| with delta = CQR n eps |A|_F.
// Constants: CQR = 1e4, CSYM = 1e3, orthonormality 100 n eps, eps = 2^-52: two to three orders of magnitude
// above what the theory predicts for n <= 12 and ten orders below an O(1) error.
// exp / pow(A,p) are compared with long double references (scaling and squaring Taylor series, repeated
// products, S f(Lambda) S^-1) within bounds that use the condition number of the returned V.
#include "vrt.h"

#include <Bpp/Exceptions.h>
#include <Bpp/Numeric/Matrix/Matrix.h>
#include <Bpp/Numeric/Matrix/EigenValue.h>
#include <Bpp/Numeric/Matrix/MatrixTools.h>
#include <Bpp/Numeric/Stat/Mva/DualityDiagram.h>

#include <algorithm>
#include <cmath>
#include <complex>
#include <limits>
#include <memory>
#include <numeric>
#include <sstream>
#include <string>
#include <vector>

using namespace bpp;
using namespace std;
using vrt::str;

namespace
{
typedef long double LD;
typedef __int128 I128;
typedef complex<LD> CLD;
const LD EPS = numeric_limits<double>::epsilon(); // 2^-52
const LD CQR = 1e4L;   // backward-error budget of Hessenberg + QR, in units of n eps |A|_F
const LD CSYM = 1e3L;  // same for tridiagonalisation + QL
const LD CORTH = 100;  // |V^T V - I|_F <= CORTH n eps
const LD TINYABS = 1e-290L;
const char KN[] = "RCL";

// ---------------------------------------------------------------- containers
struct Dense
{
  size_t r, c;
  vector<double> a;
  Dense() : r(0), c(0), a() {}
  Dense(size_t r_, size_t c_) : r(r_), c(c_), a(r_ * c_, 0.0) {}
  double& operator()(size_t i, size_t j) { return a.at(i * c + j); }
  const double& operator()(size_t i, size_t j) const { return a.at(i * c + j); }
};
struct LMat // long double square or rectangular matrix
{
  size_t r, c;
  vector<LD> a;
  LMat() : r(0), c(0), a() {}
  LMat(size_t r_, size_t c_) : r(r_), c(c_), a(r_ * c_, 0.0L) {}
  LD& operator()(size_t i, size_t j) { return a[i * c + j]; }
  const LD& operator()(size_t i, size_t j) const { return a[i * c + j]; }
};
string num(double x) { ostringstream o; o.precision(17); o << x; return o.str(); }
string numL(LD x) { ostringstream o; o.precision(21); o << x; return o.str(); }
string dump(const Dense& d)
{
  ostringstream o;
  o.precision(17);
  o << d.r << "x" << d.c << "[";
  for (size_t i = 0; i < d.r; ++i)
  {
    o << (i ? ",[" : "[");
    for (size_t j = 0; j < d.c; ++j) o << (j ? "," : "") << d(i, j);
    o << "]";
  }
  o << "]";
  return o.str();
}
string dumpV(const vector<double>& v)
{
  ostringstream o;
  o.precision(17);
  o << "(";
  for (size_t i = 0; i < v.size(); ++i) o << (i ? "," : "") << v[i];
  o << ")";
  return o.str();
}
Dense toDense(const Matrix<double>& m)
{
  Dense d(m.getNumberOfRows(), m.getNumberOfColumns());
  for (size_t i = 0; i < d.r; ++i) for (size_t j = 0; j < d.c; ++j) d(i, j) = m(i, j);
  return d;
}
LMat toL(const Dense& d)
{
  LMat m(d.r, d.c);
  for (size_t i = 0; i < d.a.size(); ++i) m.a[i] = d.a[i];
  return m;
}
Dense roundL(const LMat& m)
{
  Dense d(m.r, m.c);
  for (size_t i = 0; i < d.a.size(); ++i) d.a[i] = static_cast<double>(m.a[i]);
  return d;
}
unique_ptr<Matrix<double>> newM(int k)
{
  switch (k)
  {
  case 0: return unique_ptr<Matrix<double>>(new RowMatrix<double>());
  case 1: return unique_ptr<Matrix<double>>(new ColMatrix<double>());
  default: return unique_ptr<Matrix<double>>(new LinearMatrix<double>());
  }
}
unique_ptr<Matrix<double>> newM(int k, size_t r, size_t c)
{
  switch (k)
  {
  case 0: return unique_ptr<Matrix<double>>(new RowMatrix<double>(r, c));
  case 1: return unique_ptr<Matrix<double>>(new ColMatrix<double>(r, c));
  default: return unique_ptr<Matrix<double>>(new LinearMatrix<double>(r, c));
  }
}
unique_ptr<Matrix<double>> fromDense(int k, const Dense& d)
{
  unique_ptr<Matrix<double>> m = newM(k, d.r, d.c);
  for (size_t i = 0; i < d.r; ++i) for (size_t j = 0; j < d.c; ++j) (*m)(i, j) = d(i, j);
  return m;
}
unique_ptr<Matrix<double>> preState(int k, int pre, size_t r, size_t c)
{
  if (pre == 0) return newM(k);
  size_t rr = r, cc = c;
  if (pre == 2) { rr = r + 2; cc = c + 1; }
  if (pre == 3) { rr = r > 1 ? r - 1 : 1; cc = c > 1 ? c - 1 : 1; }
  unique_ptr<Matrix<double>> m = newM(k, rr, cc);
  for (size_t i = 0; i < rr; ++i) for (size_t j = 0; j < cc; ++j) (*m)(i, j) = 777.25 + static_cast<double>(i) - 3.0 * static_cast<double>(j);
  return m;
}

// ---------------------------------------------------------------- long double reference arithmetic
LMat mul(const LMat& A, const LMat& B)
{
  LMat C(A.r, B.c);
  for (size_t i = 0; i < A.r; ++i)
    for (size_t k = 0; k < A.c; ++k)
    {
      LD x = A(i, k);
      if (x == 0) continue;
      for (size_t j = 0; j < B.c; ++j) C(i, j) += x * B(k, j);
    }
  return C;
}
LMat transposeL(const LMat& A)
{
  LMat T(A.c, A.r);
  for (size_t i = 0; i < A.r; ++i) for (size_t j = 0; j < A.c; ++j) T(j, i) = A(i, j);
  return T;
}
LMat identityL(size_t n)
{
  LMat I(n, n);
  for (size_t i = 0; i < n; ++i) I(i, i) = 1;
  return I;
}
LD frob(const LMat& A)
{
  LD s = 0;
  for (LD x : A.a) s += x * x;
  return sqrtl(s);
}
LD frob(const Dense& A)
{
  LD s = 0;
  for (double x : A.a) s += static_cast<LD>(x) * x;
  return sqrtl(s);
}
LD frobDiff(const Dense& X, const LMat& R)
{
  LD s = 0;
  for (size_t i = 0; i < X.a.size(); ++i) { LD d = static_cast<LD>(X.a[i]) - R.a[i]; s += d * d; }
  return sqrtl(s);
}
// inverse by Gauss-Jordan with partial pivoting; false when a pivot vanishes
bool inverseL(const LMat& A, LMat& X)
{
  size_t n = A.r;
  LMat M = A;
  X = identityL(n);
  for (size_t k = 0; k < n; ++k)
  {
    size_t p = k;
    for (size_t i = k + 1; i < n; ++i) if (fabsl(M(i, k)) > fabsl(M(p, k))) p = i;
    if (M(p, k) == 0) return false;
    if (p != k) for (size_t j = 0; j < n; ++j) { swap(M(p, j), M(k, j)); swap(X(p, j), X(k, j)); }
    LD piv = M(k, k);
    for (size_t j = 0; j < n; ++j) { M(k, j) /= piv; X(k, j) /= piv; }
    for (size_t i = 0; i < n; ++i)
    {
      if (i == k) continue;
      LD f = M(i, k);
      if (f == 0) continue;
      for (size_t j = 0; j < n; ++j) { M(i, j) -= f * M(k, j); X(i, j) -= f * X(k, j); }
    }
  }
  return true;
}
LD detL(const Dense& A) // complete pivoting
{
  size_t n = A.r;
  vector<LD> m(n * n);
  for (size_t i = 0; i < n * n; ++i) m[i] = A.a[i];
  LD d = 1;
  for (size_t k = 0; k < n; ++k)
  {
    size_t pi = k, pj = k;
    LD best = -1;
    for (size_t i = k; i < n; ++i) for (size_t j = k; j < n; ++j) if (fabsl(m[i * n + j]) > best) { best = fabsl(m[i * n + j]); pi = i; pj = j; }
    if (best == 0) return 0;
    if (pi != k) { for (size_t j = 0; j < n; ++j) swap(m[k * n + j], m[pi * n + j]); d = -d; }
    if (pj != k) { for (size_t i = 0; i < n; ++i) swap(m[i * n + k], m[i * n + pj]); d = -d; }
    d *= m[k * n + k];
    for (size_t i = k + 1; i < n; ++i)
    {
      LD l = m[i * n + k] / m[k * n + k];
      for (size_t j = k + 1; j < n; ++j) m[i * n + j] -= l * m[k * n + j];
    }
  }
  return d;
}
// eigenvalues of a symmetric matrix by cyclic Jacobi rotations in long double, ascending
vector<LD> jacobiEigenvalues(LMat S)
{
  size_t n = S.r;
  for (int sweep = 0; sweep < 60; ++sweep)
  {
    LD off = 0, all = 0;
    for (size_t i = 0; i < n; ++i) for (size_t j = 0; j < n; ++j) { all += S(i, j) * S(i, j); if (i != j) off += S(i, j) * S(i, j); }
    if (off <= 1e-40L * all || off == 0) break;
    for (size_t p = 0; p + 1 < n; ++p)
      for (size_t q = p + 1; q < n; ++q)
      {
        if (S(p, q) == 0) continue;
        LD theta = (S(q, q) - S(p, p)) / (2 * S(p, q));
        LD t = (theta >= 0 ? 1 : -1) / (fabsl(theta) + sqrtl(theta * theta + 1));
        LD cs = 1 / sqrtl(t * t + 1), sn = t * cs;
        for (size_t k = 0; k < n; ++k) { LD a = S(k, p), b = S(k, q); S(k, p) = cs * a - sn * b; S(k, q) = sn * a + cs * b; }
        for (size_t k = 0; k < n; ++k) { LD a = S(p, k), b = S(q, k); S(p, k) = cs * a - sn * b; S(q, k) = sn * a + cs * b; }
      }
  }
  vector<LD> ev(n);
  for (size_t i = 0; i < n; ++i) ev[i] = S(i, i);
  sort(ev.begin(), ev.end());
  return ev;
}
// exp(A) by scaling and squaring with a Taylor series in long double
LMat expL(const LMat& A)
{
  size_t n = A.r;
  LD nrm = frob(A);
  int s = 0;
  while (ldexpl(nrm, -s) > 0.25L) ++s;
  LMat B = A;
  for (LD& x : B.a) x = ldexpl(x, -s);
  LMat term = identityL(n), sum = identityL(n);
  for (int k = 1; k <= 40; ++k)
  {
    term = mul(term, B);
    for (LD& x : term.a) x /= k;
    for (size_t i = 0; i < sum.a.size(); ++i) sum.a[i] += term.a[i];
  }
  for (int i = 0; i < s; ++i) sum = mul(sum, sum);
  return sum;
}
LMat powL(const LMat& A, unsigned p)
{
  LMat R = identityL(A.r);
  for (unsigned i = 0; i < p; ++i) R = mul(R, A);
  return R;
}
bool bareiss(const Dense& A, I128& det)
{
  size_t n = A.r;
  vector<I128> m(n * n);
  for (size_t i = 0; i < n; ++i) for (size_t j = 0; j < n; ++j) m[i * n + j] = static_cast<I128>(static_cast<long long>(A(i, j)));
  I128 prev = 1;
  int sign = 1;
  for (size_t k = 0; k + 1 < n; ++k)
  {
    if (m[k * n + k] == 0)
    {
      size_t p = k + 1;
      while (p < n && m[p * n + k] == 0) ++p;
      if (p == n) { det = 0; return true; }
      for (size_t j = 0; j < n; ++j) swap(m[k * n + j], m[p * n + j]);
      sign = -sign;
    }
    for (size_t i = k + 1; i < n; ++i)
      for (size_t j = k + 1; j < n; ++j)
      {
        I128 x, y, z;
        if (__builtin_mul_overflow(m[i * n + j], m[k * n + k], &x)) return false;
        if (__builtin_mul_overflow(m[i * n + k], m[k * n + j], &y)) return false;
        if (__builtin_sub_overflow(x, y, &z)) return false;
        m[i * n + j] = z / prev;
      }
    prev = m[k * n + k];
  }
  det = sign * m[(n - 1) * n + (n - 1)];
  return true;
}

// random orthogonal matrix: product of n Householder reflections (long double)
LMat randomOrthogonal(vrt::Rng& g, size_t n)
{
  LMat Q = identityL(n);
  for (size_t h = 0; h < n; ++h)
  {
    vector<LD> v(n);
    LD nv = 0;
    for (size_t i = 0; i < n; ++i) { v[i] = g.gauss(); nv += v[i] * v[i]; }
    if (nv == 0) continue;
    for (size_t i = 0; i < n; ++i)
    {
      LD s = 0;
      for (size_t j = 0; j < n; ++j) s += Q(i, j) * v[j];
      s = 2 * s / nv;
      for (size_t j = 0; j < n; ++j) Q(i, j) -= s * v[j];
    }
  }
  return Q;
}
// S = Q1 diag(s) Q2^T with singular values between 1 and kappa, and its exact inverse Q2 diag(1/s) Q1^T
void conditionedBasis(vrt::Rng& g, size_t n, LD kappa, LMat& S, LMat& Si)
{
  LMat Q1 = randomOrthogonal(g, n), Q2 = randomOrthogonal(g, n);
  vector<LD> s(n);
  for (size_t i = 0; i < n; ++i) s[i] = n == 1 ? 1 : powl(kappa, static_cast<LD>(i) / static_cast<LD>(n - 1));
  S = LMat(n, n);
  Si = LMat(n, n);
  for (size_t i = 0; i < n; ++i)
    for (size_t j = 0; j < n; ++j)
    {
      LD a = 0, b = 0;
      for (size_t k = 0; k < n; ++k) { a += Q1(i, k) * s[k] * Q2(j, k); b += Q2(i, k) / s[k] * Q1(j, k); }
      S(i, j) = a;
      Si(i, j) = b;
    }
}
// exactly symmetric double matrix from a long double one (upper triangle mirrored)
Dense symmetrised(const LMat& M)
{
  Dense A(M.r, M.c);
  for (size_t i = 0; i < M.r; ++i) for (size_t j = i; j < M.c; ++j) A(i, j) = A(j, i) = static_cast<double>((M(i, j) + M(j, i)) / 2);
  return A;
}
bool exactlySymmetric(const Dense& A)
{
  for (size_t i = 0; i < A.r; ++i) for (size_t j = 0; j < A.c; ++j) if (A(i, j) != A(j, i)) return false;
  return true;
}

// ---------------------------------------------------------------- what a case knows about its matrix
struct Spec
{
  string gen;
  Dense A;
  bool haveSpectrum;     // eigenvalues known by construction: A = S B S^-1, B normal, kappa_2(S) = kappaS, simple and separated
  vector<CLD> spectrum;
  LD kappaS;
  Spec() : gen(), A(), haveSpectrum(false), spectrum(), kappaS(1) {}
};
struct EigOut
{
  bool ok;
  bool symmetric;
  Dense V;
  vector<double> d, e;
  EigOut() : ok(false), symmetric(false), V(), d(), e() {}
};
string nClass(size_t n) { return n == 1 ? "n=1" : n == 2 ? "n=2" : "n>2"; }

EigOut auditEigen(vrt::Case& c, const Spec& sp)
{
  EigOut out;
  const Dense& A = sp.A;
  const size_t n = A.r;
  const bool symIn = exactlySymmetric(A);
  // violation classes stay structural (algorithm branch, size class): one defect gives a handful of signatures whatever the generator
  const string cls = string(symIn ? "symmetric" : "non-symmetric") + "," + nClass(n);
  const int kA = static_cast<int>(c.rng.below(3));
  const string head = "A(" + string(1, KN[kA]) + ")=" + dump(A);
  unique_ptr<Matrix<double>> mA = fromDense(kA, A);
  vrt::step("EigenValue(A) gen=" + sp.gen + " n=" + str(n) + " storage=" + KN[kA] + (symIn ? " symmetric" : " non-symmetric"));
  unique_ptr<EigenValue<double>> eig;
  vrt::Outcome oc = vrt::capture([&] { eig.reset(new EigenValue<double>(*mA)); });
  if (!vrt::expect(oc.returned(), "eigen.returns", cls, [&] { return head + " => constructor " + oc.text(); })) return out;
  Dense V = toDense(eig->getV()), D = toDense(eig->getD());
  vector<double> d = eig->getRealEigenValues(), e = eig->getImagEigenValues();
  bool flag = eig->isSymmetric();
  out.symmetric = flag;
  Dense A2 = toDense(*mA);
  vrt::expect(A2.a == A.a, "input-unchanged", cls, [&] { return head + " was modified: " + dump(A2); });

  bool shape = V.r == n && V.c == n && D.r == n && D.c == n && d.size() == n && e.size() == n;
  vrt::expect(shape, "eigen.shape", cls, [&] { return head + " => V " + str(V.r) + "x" + str(V.c) + " D " + str(D.r) + "x" + str(D.c) + " d " + str(d.size()) + " e " + str(e.size()); });
  if (!shape) return out;
  bool finite = true;
  for (double x : V.a) if (!std::isfinite(x)) finite = false;
  for (double x : D.a) if (!std::isfinite(x)) finite = false;
  for (size_t i = 0; i < n; ++i) if (!std::isfinite(d[i]) || !std::isfinite(e[i])) finite = false;
  vrt::expect(finite, "eigen.finite", cls, [&] { return head + " => d=" + dumpV(d) + " e=" + dumpV(e) + " V=" + dump(V); });
  vrt::expect(flag == symIn, "symmetric.flag", cls, [&] { return head + " => isSymmetric()=" + str(flag) + " but A==A^T is " + str(symIn); });
  if (!finite) return out;

  // ---- (d,e) consistent with D: conjugate pairs adjacent, 2x2 block [a b; -b a] with b>0 first
  bool cons = true;
  string why;
  vector<size_t> blockStart; // start index of every 1x1 / 2x2 block
  for (size_t i = 0; i < n && cons; ++i)
  {
    if (e[i] > 0)
    {
      if (!(i + 1 < n && e[i + 1] == -e[i] && d[i + 1] == d[i])) { cons = false; why = "e[" + str(i) + "]>0 is not followed by its conjugate"; break; }
    }
    else if (e[i] < 0)
    {
      if (!(i > 0 && e[i - 1] == -e[i] && d[i - 1] == d[i])) { cons = false; why = "e[" + str(i) + "]<0 does not follow its conjugate"; break; }
    }
    for (size_t j = 0; j < n; ++j)
    {
      double want = 0;
      if (j == i) want = d[i];
      else if (e[i] > 0 && j == i + 1) want = e[i];
      else if (e[i] < 0 && j + 1 == i) want = e[i];
      if (D(i, j) != want) { cons = false; why = "D(" + str(i) + "," + str(j) + ")=" + num(D(i, j)) + " expected " + num(want); break; }
    }
  }
  vrt::expect(cons, "D.consistent-with-d-e", cls, [&] { return head + " => d=" + dumpV(d) + " e=" + dumpV(e) + " D=" + dump(D) + ": " + why; });
  if (!cons) return out;
  size_t pairs = 0;
  for (size_t i = 0; i < n; ) { blockStart.push_back(i); if (e[i] > 0) { ++pairs; i += 2; } else ++i; }

  // ---- residual A.V - V.D, block column by block column
  const LMat AL = toL(A), VL = toL(V), DL = toL(D);
  const LD normA = frob(A);
  const LD C = symIn ? CSYM : CQR;
  LMat R = mul(AL, VL);
  {
    LMat VD = mul(VL, DL);
    for (size_t i = 0; i < R.a.size(); ++i) R.a[i] -= VD.a[i];
  }
  bool resOk = true, nonzero = true;
  size_t wcol = 0;
  LD wres = 0, wtol = 0, worst = 0;
  for (size_t b = 0; b < blockStart.size(); ++b)
  {
    size_t j0 = blockStart[b], j1 = j0 + (e[j0] > 0 ? 2 : 1);
    LD r2 = 0, v2 = 0;
    for (size_t j = j0; j < j1; ++j) for (size_t i = 0; i < n; ++i) { r2 += R(i, j) * R(i, j); v2 += VL(i, j) * VL(i, j); }
    if (v2 == 0) nonzero = false;
    LD tol = C * static_cast<LD>(n) * EPS * normA * sqrtl(v2) + TINYABS;
    if (normA > 0 && v2 > 0) worst = max(worst, sqrtl(r2) / (static_cast<LD>(n) * EPS * normA * sqrtl(v2)));
    if (!(sqrtl(r2) <= tol) && resOk) { resOk = false; wcol = j0; wres = sqrtl(r2); wtol = tol; }
  }
  vrt::expect(resOk, "A.V=V.D", cls + (pairs ? ",complex-pairs" : ",real-spectrum"), [&] {
      return head + " => d=" + dumpV(d) + " e=" + dumpV(e) + " V=" + dump(V) + ": |A.v - v.B|_F for the block at column " + str(wcol) + " = " + numL(wres) + " > " + numL(C) + ".n.eps.|A|_F.|v|_F = " + numL(wtol);
    });
  vrt::expect(nonzero, "V.columns-nonzero", cls, [&] { return head + " => V has a zero eigenvector column: V=" + dump(V); });
  if (vrt::replaying()) vrt::note("worst residual ratio / (n eps |A| |v|) = " + numL(worst));
  vrt::tally(string("residual-ratio<") + (worst < 1 ? "1" : worst < 10 ? "10" : worst < 100 ? "100" : worst < 1000 ? "1000" : "inf") + (symIn ? ":sym" : ":nonsym"));

  // ---- trace and determinant are reproduced by the spectrum
  {
    LD tr = 0, sd = 0;
    for (size_t i = 0; i < n; ++i) { tr += A(i, i); sd += d[i]; }
    LD tol = C * static_cast<LD>(n) * EPS * normA + TINYABS;
    vrt::expect(fabsl(tr - sd) <= tol, "spectrum.trace", cls, [&] { return head + " => d=" + dumpV(d) + ": sum " + numL(sd) + " but trace " + numL(tr) + ", tolerance " + numL(tol); });
    LD prod = 1;
    for (size_t b = 0; b < blockStart.size(); ++b)
    {
      size_t j = blockStart[b];
      prod *= e[j] > 0 ? static_cast<LD>(d[j]) * d[j] + static_cast<LD>(e[j]) * e[j] : static_cast<LD>(d[j]);
    }
    I128 di;
    bool isInt = true;
    for (double x : A.a) if (x != floor(x) || fabs(x) > 9) isInt = false;
    LD ref = isInt && bareiss(A, di) ? static_cast<LD>(di) : detL(A);
    LD delta = C * static_cast<LD>(n) * EPS * normA, p0 = 1, p1 = 1;
    for (size_t i = 0; i < n; ++i)
    {
      LD a2 = 0;
      for (size_t j = 0; j < n; ++j) a2 += static_cast<LD>(A(i, j)) * A(i, j);
      p0 *= sqrtl(a2);
      p1 *= sqrtl(a2) + delta;
    }
    LD dtol = 2 * (p1 - p0) + 16 * static_cast<LD>(n) * EPS * fabsl(ref) + TINYABS;
    vrt::expect(fabsl(prod - ref) <= dtol, "spectrum.determinant", cls, [&] {
        return head + " => d=" + dumpV(d) + " e=" + dumpV(e) + ": product of the eigenvalues " + numL(prod) + " but det A = " + numL(ref) + ", tolerance " + numL(dtol);
      });
  }

  // ---- symmetric input: real ascending eigenvalues, orthonormal vectors, eigenvalues close to the exact ones
  if (symIn)
  {
    bool realAsc = true;
    for (size_t i = 0; i < n; ++i) { if (e[i] != 0) realAsc = false; if (i + 1 < n && !(d[i] <= d[i + 1])) realAsc = false; }
    vrt::expect(realAsc, "symmetric.real-ascending", cls, [&] { return head + " => d=" + dumpV(d) + " e=" + dumpV(e); });
    LMat G = mul(transposeL(VL), VL);
    for (size_t i = 0; i < n; ++i) G(i, i) -= 1;
    LD dev = frob(G), tol = CORTH * static_cast<LD>(n) * EPS;
    vrt::expect(dev <= tol, "symmetric.orthonormal", cls, [&] { return head + " => |V^T V - I|_F = " + numL(dev) + " > " + numL(tol) + " V=" + dump(V); });
    vector<LD> ref = jacobiEigenvalues(AL);
    vector<double> ds = d;
    sort(ds.begin(), ds.end());
    LD etol = CSYM * static_cast<LD>(n) * EPS * normA + TINYABS, wd = 0;
    for (size_t i = 0; i < n; ++i) wd = max(wd, fabsl(static_cast<LD>(ds[i]) - ref[i]));
    vrt::expect(wd <= etol, "symmetric.eigenvalues", cls, [&] { return head + " => d=" + dumpV(d) + " differs from the exact spectrum by " + numL(wd) + " > " + numL(etol); });
  }
  // ---- prescribed simple separated spectrum of S.B.S^-1: Bauer-Fike radius kappa(S).CQR.n.eps.|A|_F
  if (sp.haveSpectrum && !symIn)
  {
    LD rad = sp.kappaS * (CQR * static_cast<LD>(n) * EPS * normA) + TINYABS;
    vector<CLD> got;
    for (size_t i = 0; i < n; ++i) got.push_back(CLD(d[i], e[i]));
    vector<char> used(n, 0);
    bool ok = true;
    LD wdist = 0;
    CLD wl;
    for (size_t i = 0; i < sp.spectrum.size() && ok; ++i)
    {
      size_t best = n;
      LD bd = 0;
      for (size_t j = 0; j < n; ++j)
      {
        if (used[j]) continue;
        LD dist = abs(got[j] - sp.spectrum[i]);
        if (best == n || dist < bd) { best = j; bd = dist; }
      }
      if (best == n || !(bd <= rad)) { ok = false; wdist = bd; wl = sp.spectrum[i]; }
      else used[best] = 1;
    }
    vrt::expect(ok, "spectrum.prescribed", cls + (pairs ? ",complex-pairs" : ",real-spectrum"), [&] {
        return head + " => d=" + dumpV(d) + " e=" + dumpV(e) + ": prescribed eigenvalue " + numL(wl.real()) + (wl.imag() >= 0 ? "+" : "") + numL(wl.imag()) + "i has no computed partner within " + numL(rad) + " (nearest " + numL(wdist) + "), kappa(S)=" + numL(sp.kappaS);
      });
  }
  vrt::cover(sp.gen + ":n" + str(n) + (symIn ? ":sym" : ":nonsym") + ":pairs" + str(min<size_t>(pairs, 3)) + ":" + KN[kA]);
  out.ok = resOk;
  out.V = V;
  out.d = d;
  out.e = e;
  return out;
}

// ---------------------------------------------------------------- generators
vector<size_t> randomPerm(vrt::Rng& g, size_t n)
{
  vector<size_t> p(n);
  iota(p.begin(), p.end(), 0);
  g.shuffle(p);
  return p;
}
LD scalePick(vrt::Rng& g)
{
  static const LD sc[] = { 1, 1, 1, 1e-3L, 1e3L, 1e-6L, 1e6L, 0.5L, 16 };
  return sc[g.below(9)];
}

// random dense real / integer matrices
void caseDense(vrt::Case& c)
{
  size_t n = 1 + c.index % 12;
  Spec sp;
  sp.A = Dense(n, n);
  int f = static_cast<int>((c.index / 12) % 6);
  LD s = scalePick(c.rng);
  switch (f)
  {
  case 0: sp.gen = "dense-uniform"; for (double& x : sp.A.a) x = static_cast<double>(s * c.rng.real(-1, 1)); break;
  case 1: sp.gen = "dense-gauss"; for (double& x : sp.A.a) x = static_cast<double>(s * c.rng.gauss()); break;
  case 2: sp.gen = "dense-int"; for (double& x : sp.A.a) x = static_cast<double>(c.rng.range(-9, 9)); break;
  case 3: sp.gen = "dense-sparse-int"; for (double& x : sp.A.a) x = c.rng.chance(0.6) ? 0.0 : static_cast<double>(c.rng.range(-3, 3)); break;
  case 4: sp.gen = "dense-positive"; for (double& x : sp.A.a) x = static_cast<double>(s * c.rng.unit()); break;
  default: // stochastic-like rows (rate matrix: rows sum to zero)
    sp.gen = "dense-rate-matrix";
    for (size_t i = 0; i < n; ++i)
    {
      double sum = 0;
      for (size_t j = 0; j < n; ++j) if (j != i) { sp.A(i, j) = c.rng.unit(); sum += sp.A(i, j); }
      sp.A(i, i) = -sum;
    }
  }
  vrt::describe(sp.gen + ":n=" + str(n), "A=" + dump(sp.A));
  auditEigen(c, sp);
}

// symmetric matrices
void caseSymmetric(vrt::Case& c)
{
  size_t n = 1 + c.index % 12;
  Spec sp;
  int f = static_cast<int>((c.index / 12) % 8);
  LD s = scalePick(c.rng);
  LMat M(n, n);
  switch (f)
  {
  case 0: sp.gen = "sym-uniform"; for (LD& x : M.a) x = s * c.rng.real(-1, 1); sp.A = symmetrised(M); break;
  case 1: sp.gen = "sym-int"; for (LD& x : M.a) x = 2 * c.rng.range(-4, 4); sp.A = symmetrised(M); break;
  case 2: // prescribed spectrum, possibly repeated / zero / negative eigenvalues
  {
    sp.gen = "sym-spectrum";
    vector<LD> mu(n);
    int rep = static_cast<int>(c.rng.below(3));
    for (size_t i = 0; i < n; ++i)
      mu[i] = rep == 0 ? s * c.rng.real(-2, 2) : rep == 1 ? s * static_cast<LD>(c.rng.range(-2, 2)) : (i % 3 == 0 ? s : i % 3 == 1 ? -s : 0);
    LMat Q = randomOrthogonal(c.rng, n);
    for (size_t i = 0; i < n; ++i) for (size_t j = 0; j < n; ++j) { LD t = 0; for (size_t k = 0; k < n; ++k) t += Q(i, k) * mu[k] * Q(j, k); M(i, j) = t; }
    sp.A = symmetrised(M);
    if (rep) sp.gen = "sym-repeated";
    break;
  }
  case 3: sp.gen = "diagonal"; for (size_t i = 0; i < n; ++i) M(i, i) = c.rng.chance(0.3) ? static_cast<LD>(c.rng.range(-2, 2)) : s * c.rng.real(-3, 3); sp.A = symmetrised(M); break;
  case 4: // zero, identity, scalar
  {
    int z = static_cast<int>(c.rng.below(3));
    sp.gen = z == 0 ? "zero" : z == 1 ? "identity" : "scalar";
    LD v = z == 0 ? 0 : z == 1 ? 1 : s * c.rng.real(-3, 3);
    for (size_t i = 0; i < n; ++i) M(i, i) = v;
    sp.A = symmetrised(M);
    break;
  }
  case 5: // tridiagonal (already in the form tred2 produces), some exactly zero couplings
    sp.gen = "sym-tridiagonal";
    for (size_t i = 0; i < n; ++i)
    {
      M(i, i) = s * c.rng.real(-2, 2);
      if (i + 1 < n) M(i, i + 1) = M(i + 1, i) = c.rng.chance(0.2) ? 0 : s * c.rng.real(-1, 1);
    }
    sp.A = symmetrised(M);
    break;
  case 6: // graded: entries spanning 1e-6 .. 1e6
    sp.gen = "sym-graded";
    for (size_t i = 0; i < n; ++i) for (size_t j = 0; j < n; ++j)
        M(i, j) = c.rng.real(-1, 1) * powl(10.0L, (n == 1 ? 0 : 6.0L - 12.0L * static_cast<LD>(i + j) / static_cast<LD>(2 * (n - 1))));
    sp.A = symmetrised(M);
    break;
  default: // rank one plus diagonal, covariance-like (positive semi-definite)
  {
    sp.gen = "sym-gram";
    size_t m = 1 + c.rng.below(n + 2);
    LMat X(n, m);
    for (LD& x : X.a) x = s * c.rng.real(-1, 1);
    M = mul(X, transposeL(X));
    sp.A = symmetrised(M);
  }
  }
  vrt::describe(sp.gen + ":n=" + str(n), "A=" + dump(sp.A));
  auditEigen(c, sp);
}

// triangular, companion, rotation blocks, defective, permutation, graded ...
void caseStructured(vrt::Case& c)
{
  size_t n = 1 + c.index % 12;
  Spec sp;
  sp.A = Dense(n, n);
  Dense& A = sp.A;
  int f = static_cast<int>((c.index / 12) % 15);
  LD s = scalePick(c.rng);
  switch (f)
  {
  case 0: case 1: // upper / lower triangular, diagonal possibly repeated
  {
    bool up = f == 0;
    int rep = static_cast<int>(c.rng.below(3));
    sp.gen = string(up ? "upper-triangular" : "lower-triangular") + (rep == 2 ? "-repeated" : "");
    for (size_t i = 0; i < n; ++i)
      for (size_t j = i; j < n; ++j)
      {
        double v = i == j ? (rep == 0 ? static_cast<double>(s * c.rng.real(-2, 2)) : rep == 1 ? static_cast<double>(c.rng.range(-3, 3)) : static_cast<double>(c.rng.range(0, 1)))
          : static_cast<double>(s * c.rng.real(-1, 1));
        if (up) A(i, j) = v; else A(j, i) = v;
      }
    break;
  }
  case 2: case 3: // companion matrix of a polynomial with prescribed real roots / complex pairs
  {
    bool cplx = f == 3 && n >= 2;
    sp.gen = cplx ? "companion-complex" : "companion-real";
    vector<CLD> roots;
    while (roots.size() < n)
    {
      if (cplx && roots.size() + 2 <= n && c.rng.chance(0.7))
      {
        LD re = c.rng.real(-1.5, 1.5), im = c.rng.real(0.1, 1.5);
        roots.push_back(CLD(re, im));
        roots.push_back(CLD(re, -im));
      }
      else roots.push_back(CLD(c.rng.chance(0.2) ? static_cast<LD>(c.rng.range(-2, 2)) : static_cast<LD>(c.rng.real(-2, 2)), 0));
    }
    vector<CLD> p(1, CLD(1, 0)); // coefficients, highest first
    for (const CLD& r : roots)
    {
      vector<CLD> q(p.size() + 1, CLD(0, 0));
      for (size_t i = 0; i < p.size(); ++i) { q[i] += p[i]; q[i + 1] -= p[i] * r; }
      p = q;
    }
    int layout = static_cast<int>(c.rng.below(2));
    for (size_t i = 0; i + 1 < n; ++i) { if (layout == 0) A(i + 1, i) = 1.0; else A(i, i + 1) = 1.0; }
    for (size_t i = 0; i < n; ++i)
    {
      double coef = static_cast<double>(-p[i + 1].real());
      if (layout == 0) A(0, i) = coef; // first row
      else A(n - 1, n - 1 - i) = coef; // last row
    }
    break;
  }
  case 4: case 5: // rotation blocks [a b; -b a], block diagonal, optionally permuted / rotated by an orthogonal similarity
  {
    int how = static_cast<int>(c.rng.below(3));
    sp.gen = string("rotation-blocks") + (how == 0 ? "" : how == 1 ? "-permuted" : "-rotated");
    LMat B(n, n);
    for (size_t i = 0; i < n; )
    {
      if (i + 1 < n && c.rng.chance(0.8))
      {
        LD a = f == 4 ? 0 : s * c.rng.real(-1, 1), b = f == 4 ? (c.rng.chance(0.5) ? 1 : -1) : s * c.rng.real(0.05, 1) * (c.rng.chance(0.5) ? 1 : -1);
        if (c.rng.chance(0.3)) { LD th = c.rng.real(0, 6.283185307179586); a = s * cosl(th); b = s * sinl(th); }
        B(i, i) = a; B(i, i + 1) = b; B(i + 1, i) = -b; B(i + 1, i + 1) = a;
        i += 2;
      }
      else { B(i, i) = f == 4 ? static_cast<LD>(c.rng.range(-1, 1)) : s * c.rng.real(-1, 1); ++i; }
    }
    if (how == 1)
    {
      vector<size_t> p = randomPerm(c.rng, n);
      for (size_t i = 0; i < n; ++i) for (size_t j = 0; j < n; ++j) A(p[i], p[j]) = static_cast<double>(B(i, j));
    }
    else if (how == 2)
    {
      LMat Q = randomOrthogonal(c.rng, n);
      A = roundL(mul(mul(Q, B), transposeL(Q)));
    }
    else A = roundL(B);
    break;
  }
  case 6: // defective: Jordan blocks, optionally hidden by an orthogonal similarity
  {
    bool rot = c.rng.chance(0.5);
    sp.gen = rot ? "jordan-rotated" : "jordan";
    LMat J(n, n);
    LD lam = static_cast<LD>(c.rng.range(-2, 2));
    for (size_t i = 0; i < n; ++i)
    {
      if (i > 0 && c.rng.chance(0.3)) lam = c.rng.chance(0.5) ? static_cast<LD>(c.rng.range(-2, 2)) : static_cast<LD>(c.rng.real(-2, 2));
      J(i, i) = lam;
      if (i + 1 < n && c.rng.chance(0.7)) J(i, i + 1) = 1;
    }
    if (rot) { LMat Q = randomOrthogonal(c.rng, n); A = roundL(mul(mul(Q, J), transposeL(Q))); }
    else A = roundL(J);
    break;
  }
  case 7: // permutation matrices (eigenvalues on the unit circle, zero diagonal), signed
  {
    sp.gen = "permutation";
    vector<size_t> p = randomPerm(c.rng, n);
    bool sgn = c.rng.chance(0.4);
    for (size_t i = 0; i < n; ++i) A(i, p[i]) = sgn && c.rng.chance(0.5) ? -1.0 : 1.0;
    break;
  }
  case 8: // nilpotent: strictly triangular
    sp.gen = "nilpotent";
    for (size_t i = 0; i < n; ++i) for (size_t j = i + 1; j < n; ++j) A(i, j) = c.rng.chance(0.5) ? 1.0 : static_cast<double>(s * c.rng.real(-1, 1));
    if (c.rng.chance(0.5)) A = roundL(transposeL(toL(A)));
    break;
  case 9: // graded, non-symmetric: entries spanning 1e-6 .. 1e6
  {
    int how = static_cast<int>(c.rng.below(3));
    sp.gen = how == 0 ? "graded-rows" : how == 1 ? "graded-diagonal" : "graded-random";
    for (size_t i = 0; i < n; ++i)
      for (size_t j = 0; j < n; ++j)
      {
        LD ex = how == 0 ? (n == 1 ? 0 : 6.0L - 12.0L * static_cast<LD>(i) / static_cast<LD>(n - 1))
          : how == 1 ? (n == 1 ? 0 : 6.0L - 12.0L * static_cast<LD>(i + j) / static_cast<LD>(2 * (n - 1)))
          : static_cast<LD>(c.rng.real(-6, 6));
        A(i, j) = static_cast<double>(c.rng.real(-1, 1) * powl(10.0L, ex));
      }
    break;
  }
  case 10: // 0/1 matrices (adjacency matrices: many exact zeros, zero diagonal)
    sp.gen = "zero-one";
    for (size_t i = 0; i < n; ++i) for (size_t j = 0; j < n; ++j) A(i, j) = (i != j || c.rng.chance(0.3)) && c.rng.chance(0.45) ? 1.0 : 0.0;
    break;
  case 11: // nearly defective: triangular with diagonal entries 1e-6 .. 1e-12 apart (huge eigenvector components, overflow control of the back substitution)
  {
    sp.gen = "near-defective";
    LD base = static_cast<LD>(c.rng.range(-2, 2));
    LD sep = powl(10.0L, static_cast<LD>(c.rng.real(-12, -6)));
    bool up = c.rng.chance(0.5);
    for (size_t i = 0; i < n; ++i)
      for (size_t j = i; j < n; ++j)
      {
        double v = i == j ? static_cast<double>(base + (c.rng.chance(0.6) ? static_cast<LD>(i) * sep : static_cast<LD>(c.rng.range(0, 2)))) : (c.rng.chance(0.7) ? 1.0 : static_cast<double>(c.rng.real(-1, 1)));
        if (up) A(i, j) = v; else A(j, i) = v;
      }
    if (c.rng.chance(0.3)) { LMat Q = randomOrthogonal(c.rng, n); A = roundL(mul(mul(Q, toL(A)), transposeL(Q))); sp.gen += "-rotated"; }
    break;
  }
  case 12: // symmetric except for one pair of entries (anywhere): must take the non-symmetric route
  {
    sp.gen = "one-pair-asymmetric";
    LMat M(n, n);
    for (LD& x : M.a) x = s * c.rng.real(-1, 1);
    A = symmetrised(M);
    if (n >= 2)
    {
      size_t i = c.rng.below(n), j = c.rng.below(n - 1);
      if (j >= i) ++j;
      int how = static_cast<int>(c.rng.below(3));
      A(i, j) = how == 0 ? nextafter(A(i, j), 1e300) : how == 1 ? A(i, j) * 1.001 + 1e-9 * static_cast<double>(s) : -A(i, j) + static_cast<double>(s);
    }
    break;
  }
  case 13: // skew-symmetric and orthogonal: Q.J.Q^T with J = 90-degree rotations; all eigenvalues +-i (and 0 for odd n), zero diagonal
  {
    sp.gen = "skew-orthogonal";
    LMat J(n, n);
    for (size_t i = 0; i + 1 < n; i += 2) { LD b = c.rng.chance(0.5) ? 1 : -1; J(i, i + 1) = b; J(i + 1, i) = -b; }
    LMat Q = randomOrthogonal(c.rng, n);
    LMat M = mul(mul(Q, J), transposeL(Q));
    bool exact = c.rng.chance(0.7); // exactly skew-symmetric (zero diagonal) or as rounded
    for (size_t i = 0; i < n; ++i)
      for (size_t j = i; j < n; ++j)
      {
        if (exact) { double v = i == j ? 0.0 : static_cast<double>((M(i, j) - M(j, i)) / 2); A(i, j) = v; A(j, i) = -v; }
        else { A(i, j) = static_cast<double>(M(i, j)); A(j, i) = static_cast<double>(M(j, i)); }
      }
    if (n == 1) A(0, 0) = 0;
    break;
  }
  default: // upper Hessenberg with some exactly zero subdiagonal entries (deflation from the start)
    sp.gen = "hessenberg";
    for (size_t i = 0; i < n; ++i) for (size_t j = 0; j < n; ++j)
        if (j + 1 >= i) A(i, j) = j + 1 == i && c.rng.chance(0.3) ? 0.0 : static_cast<double>(s * c.rng.real(-1, 1));
  }
  vrt::describe(sp.gen + ":n=" + str(n), "A=" + dump(sp.A));
  auditEigen(c, sp);
}

// builds A = S.B.S^-1 with B = block diagonal of the prescribed eigenvalues (real, or complex pairs as rotation-scaling blocks)
Dense similarityBuilt(const vector<CLD>& spectrum, const LMat& S, const LMat& Si)
{
  size_t n = S.r;
  LMat B(n, n);
  for (size_t i = 0; i < n; )
  {
    if (spectrum[i].imag() != 0) { LD a = spectrum[i].real(), b = spectrum[i].imag(); B(i, i) = a; B(i, i + 1) = b; B(i + 1, i) = -b; B(i + 1, i + 1) = a; i += 2; }
    else { B(i, i) = spectrum[i].real(); ++i; }
  }
  return roundL(mul(mul(S, B), Si));
}
// simple spectrum with mutual distances >= gap (conjugates count as one point in the upper half plane, |Im| >= gap)
vector<CLD> separatedSpectrum(vrt::Rng& g, size_t n, bool allowComplex, LD lo, LD hi, LD gap)
{
  vector<CLD> sp;
  size_t guard = 0;
  while (sp.size() < n && guard++ < 100000)
  {
    bool cp = allowComplex && sp.size() + 2 <= n && g.chance(0.5);
    CLD z = cp ? CLD(g.real(static_cast<double>(lo), static_cast<double>(hi)), g.real(static_cast<double>(gap), static_cast<double>(hi > 0 ? hi : -lo)))
      : CLD(g.real(static_cast<double>(lo), static_cast<double>(hi)), 0);
    bool ok = true;
    for (const CLD& w : sp) if (abs(w - z) < gap || abs(conj(w) - z) < gap) ok = false;
    if (!ok) continue;
    sp.push_back(z);
    if (cp) sp.push_back(conj(z));
  }
  return sp;
}

// similarity-built matrices with known, simple, separated spectrum and known kappa(S)
void caseSpectrum(vrt::Case& c)
{
  size_t n = 1 + c.index % 12;
  Spec sp;
  bool cplx = (c.index / 12) % 2 == 1 && n >= 2;
  LD kappa = powl(10.0L, static_cast<LD>(c.rng.real(0, 2)));
  if (c.rng.chance(0.2)) kappa = 1;
  LD scale = scalePick(c.rng);
  LD gap = 0.4L / static_cast<LD>(n);
  sp.spectrum = separatedSpectrum(c.rng, n, cplx, -2, 2, gap);
  if (sp.spectrum.size() != n) { vrt::tally("spectrum-generation-gave-up"); return; }
  for (CLD& z : sp.spectrum) z *= scale;
  LMat S, Si;
  conditionedBasis(c.rng, n, kappa, S, Si);
  sp.A = similarityBuilt(sp.spectrum, S, Si);
  sp.kappaS = kappa;
  sp.haveSpectrum = true;
  sp.gen = cplx ? "similarity-complex" : "similarity-real";
  vrt::describe(sp.gen + ":n=" + str(n), "kappa(S)=" + numL(kappa) + " scale=" + numL(scale) + " A=" + dump(sp.A));
  vrt::cover(sp.gen + ":n" + str(n) + ":kappa1e" + str(static_cast<int>(floorl(log10l(kappa)))));
  auditEigen(c, sp);
}

// Eigenvector basis S (and its inverse) with a structural pattern of exact zeros, so that S.diag(lambda).S^-1 has the
// same pattern: triangular (lower / upper / hidden by a symmetric permutation; dense, sparse or with one single
// off-diagonal entry), block triangular and block diagonal with dense diagonal blocks.  keep(i,j) = 0 marks the
// entries of S.diag(lambda).S^-1 that vanish by construction.  Returns the flavour name.
const int SHAPED_PATTERNS = 12;
string shapedBasis(vrt::Rng& g, size_t n, int pat, LMat& S, LMat& Si, vector<char>& keep)
{
  keep.assign(n * n, 1);
  string name;
  if (pat < 9)
  {
    const int orient = pat / 3, dens = pat % 3; // 0 lower, 1 upper, 2 permuted; 0 dense, 1 sparse, 2 one entry
    LMat T = identityL(n); // unit lower triangular
    if (n >= 2)
    {
      if (dens == 2)
      {
        size_t p = g.below(n), q = g.below(n - 1);
        if (q >= p) ++q;
        T(max(p, q), min(p, q)) = static_cast<LD>(g.real(0.25, 1)) * (g.chance(0.5) ? 1 : -1);
      }
      else
      {
        LD amp = dens == 0 ? 1 / sqrtl(static_cast<LD>(n)) : 1;
        bool any = false;
        for (size_t i = 1; i < n; ++i)
          for (size_t j = 0; j < i; ++j)
            if (dens == 0 || g.chance(0.3)) { T(i, j) = amp * static_cast<LD>(g.real(-1, 1)); any = true; }
        if (!any) T(1 + g.below(n - 1), 0) = static_cast<LD>(g.real(0.25, 1));
      }
    }
    LMat Ti;
    if (!inverseL(T, Ti)) return string();
    for (size_t i = 0; i < n; ++i) for (size_t j = i + 1; j < n; ++j) { Ti(i, j) = 0; keep[i * n + j] = 0; }
    bool lower = orient == 0 || (orient == 2 && g.chance(0.5));
    if (!lower)
    {
      T = transposeL(T);
      Ti = transposeL(Ti);
      vector<char> k2(n * n);
      for (size_t i = 0; i < n; ++i) for (size_t j = 0; j < n; ++j) k2[j * n + i] = keep[i * n + j];
      keep = k2;
    }
    if (orient == 2)
    {
      vector<size_t> p = randomPerm(g, n); // S = P.T, S^-1 = T^-1.P^T: the product is P.(triangular).P^T
      S = LMat(n, n);
      Si = LMat(n, n);
      vector<char> k2(n * n);
      for (size_t i = 0; i < n; ++i)
        for (size_t j = 0; j < n; ++j) { S(p[i], j) = T(i, j); Si(i, p[j]) = Ti(i, j); k2[p[i] * n + p[j]] = keep[i * n + j]; }
      keep = k2;
    }
    else { S = T; Si = Ti; }
    name = string(orient == 0 ? "fn-lower-triangular" : orient == 1 ? "fn-upper-triangular" : "fn-permuted-triangular") + (dens == 0 ? "" : dens == 1 ? "-sparse" : "-one-entry");
  }
  else
  {
    // [[S1,0],[X,S2]] with inverse [[S1^-1,0],[-S2^-1.X.S1^-1,S2^-1]]; X = 0: block diagonal; transposed: block upper triangular
    name = pat == 9 ? "fn-block-lower-triangular" : pat == 10 ? "fn-block-upper-triangular" : "fn-block-diagonal";
    S = identityL(n);
    Si = identityL(n);
    if (n >= 2)
    {
      size_t k = 1 + g.below(n - 1), m = n - k;
      LMat S1, S1i, S2, S2i, X(m, k);
      conditionedBasis(g, k, powl(10.0L, static_cast<LD>(g.real(0, 0.5))), S1, S1i);
      conditionedBasis(g, m, powl(10.0L, static_cast<LD>(g.real(0, 0.5))), S2, S2i);
      if (pat != 11) for (LD& x : X.a) x = static_cast<LD>(g.real(-0.5, 0.5));
      LMat Y = mul(mul(S2i, X), S1i);
      S = LMat(n, n);
      Si = LMat(n, n);
      for (size_t i = 0; i < k; ++i) for (size_t j = 0; j < k; ++j) { S(i, j) = S1(i, j); Si(i, j) = S1i(i, j); }
      for (size_t i = 0; i < m; ++i) for (size_t j = 0; j < m; ++j) { S(k + i, k + j) = S2(i, j); Si(k + i, k + j) = S2i(i, j); }
      for (size_t i = 0; i < m; ++i) for (size_t j = 0; j < k; ++j) { S(k + i, j) = X(i, j); Si(k + i, j) = -Y(i, j); }
      for (size_t i = 0; i < n; ++i)
        for (size_t j = 0; j < n; ++j)
          if ((i < k && j >= k) || (pat == 11 && i >= k && j < k)) keep[i * n + j] = 0;
      if (pat == 10)
      {
        S = transposeL(S);
        Si = transposeL(Si);
        vector<char> k2(n * n);
        for (size_t i = 0; i < n; ++i) for (size_t j = 0; j < n; ++j) k2[j * n + i] = keep[i * n + j];
        keep = k2;
      }
    }
  }
  return name;
}

// exp and pow(A,p) on diagonalisable matrices with real spectrum; f = flavour family (0..3 group `functions`,
// 4 = matrices with a structural zero pattern, group `functions-shaped`, pattern pat)
void functionsCase(vrt::Case& c, int f, int pat)
{
  size_t n = 1 + c.index % 12;
  bool positive = c.rng.chance(0.5); // spectrum in [0.25, 2]: fractional and negative powers allowed
  LD kappa = 1;
  LD specGap = 0; // mutual distance of the eigenvalues (family 4)
  vector<LD> lam(n);
  vector<char> keep;
  LMat S, Si;
  string gen;
  if (f == 4)
  {
    // S.diag(lambda).S^-1 with a separated real spectrum and a basis S that has a pattern of exact zeros: the matrix is
    // lower / upper / permuted triangular (eigenvalues on its diagonal), block triangular or block diagonal.  Decomposition,
    // exp and pow must not depend on the shape; kappa = |S|_F |S^-1|_F bounds kappa_2(S).
    specGap = (positive ? 1.0L : 2.0L) / static_cast<LD>(2 * n + 2);
    vector<CLD> z = separatedSpectrum(c.rng, n, false, positive ? 0.25L : -2, 2, specGap);
    if (z.size() != n) { vrt::tally("spectrum-generation-gave-up"); return; }
    for (size_t i = 0; i < n; ++i) lam[i] = z[i].real();
    gen = shapedBasis(c.rng, n, pat, S, Si, keep);
    if (gen.empty()) { vrt::tally("shaped-basis-gave-up"); return; }
    kappa = frob(S) * frob(Si);
  }
  else if (f == 0 || f == 1)
  {
    // non-symmetric S.diag(lambda).S^-1, kappa(S) <= 10, separated real spectrum, |lambda| <= 2
    kappa = powl(10.0L, static_cast<LD>(c.rng.real(0, 1)));
    vector<CLD> z = separatedSpectrum(c.rng, n, false, positive ? 0.25L : -2, 2, (positive ? 1.0L : 2.0L) / static_cast<LD>(2 * n + 2));
    if (z.size() != n) { vrt::tally("spectrum-generation-gave-up"); return; }
    for (size_t i = 0; i < n; ++i) lam[i] = z[i].real();
    conditionedBasis(c.rng, n, kappa, S, Si);
    gen = "fn-similarity";
  }
  else if (f == 2)
  {
    // symmetric Q.diag(lambda).Q^T, eigenvalues possibly repeated
    bool rep = c.rng.chance(0.4);
    for (size_t i = 0; i < n; ++i)
      lam[i] = positive ? (rep ? static_cast<LD>(c.rng.range(1, 4)) / 2 : static_cast<LD>(c.rng.real(0.25, 2))) : (rep ? static_cast<LD>(c.rng.range(-2, 2)) : static_cast<LD>(c.rng.real(-2, 2)));
    S = randomOrthogonal(c.rng, n);
    Si = transposeL(S);
    gen = rep ? "fn-symmetric-repeated" : "fn-symmetric";
  }
  else
  {
    // diagonal, identity, zero
    int z = static_cast<int>(c.rng.below(3));
    for (size_t i = 0; i < n; ++i) lam[i] = z == 0 ? (positive ? static_cast<LD>(c.rng.real(0.25, 2)) : static_cast<LD>(c.rng.real(-2, 2))) : z == 1 ? 1 : 0;
    if (z == 2) positive = false;
    if (z == 1) positive = true;
    S = identityL(n);
    Si = identityL(n);
    gen = z == 0 ? "fn-diagonal" : z == 1 ? "fn-identity" : "fn-zero";
  }
  LMat L(n, n);
  for (size_t i = 0; i < n; ++i) L(i, i) = lam[i];
  LMat AL0 = mul(mul(S, L), Si);
  Dense A = f == 2 || f == 3 ? symmetrised(AL0) : roundL(AL0);
  if (f == 4) // entries that vanish by construction are exact zeros (the long double products leave at most rounding noise there)
    for (size_t i = 0; i < n * n; ++i) if (!keep[i]) A.a[i] = 0.0;
  const bool symIn = exactlySymmetric(A);
  const LMat AL = toL(A);
  const LD normA = frob(A);
  LD minAbs = fabsl(lam[0]);
  for (LD x : lam) minAbs = min(minAbs, fabsl(x));
  vrt::describe(gen + ":n=" + str(n), "kappa(S)=" + numL(kappa) + " A=" + dump(A));
  const string cls = string(symIn ? "symmetric" : "non-symmetric") + "," + nClass(n);
  // family 4: the basis is not bounded by 10; the run is judged only while the Bauer-Fike radius of the backward error stays
  // far below the separation of the eigenvalues (otherwise a complex pair / a merged pair would be a legitimate answer)
  if (f == 4 && !(kappa * CQR * static_cast<LD>(n) * EPS * normA < specGap / 4)) { vrt::counted("functions.ill-conditioned-S-unjudged"); return; }

  // condition number of the eigenvector matrix the library works with (a-posteriori)
  int kA = static_cast<int>(c.rng.below(3));
  unique_ptr<Matrix<double>> mA = fromDense(kA, A);
  const string head = "A(" + string(1, KN[kA]) + ")=" + dump(A);
  LD kV = 0;
  {
    unique_ptr<EigenValue<double>> eig;
    vrt::Outcome oc = vrt::capture([&] { eig.reset(new EigenValue<double>(*mA)); });
    if (!vrt::expect(oc.returned(), "eigen.returns", cls, [&] { return head + " => constructor " + oc.text(); })) return;
    LMat VL = toL(toDense(eig->getV())), Vi;
    if (VL.r != n || VL.c != n || !inverseL(VL, Vi)) { vrt::counted("functions.singular-V-unjudged"); return; }
    kV = frob(VL) * frob(Vi);
    bool realSpec = true;
    for (double x : eig->getImagEigenValues()) if (x != 0) realSpec = false;
    // separated real spectrum, kappa(S) <= 10: a complex pair would be an error of the decomposition (Bauer-Fike radius << gap)
    vrt::expect(realSpec, "functions.real-spectrum", cls, [&] { return head + " has a real, separated spectrum but imaginary parts " + dumpV(eig->getImagEigenValues()); });
    if (!realSpec) return;
  }
  if (!(kV < 1e8L)) { vrt::counted("functions.ill-conditioned-V-unjudged"); return; }
  const LD unit = (symIn ? CSYM : CQR) * static_cast<LD>(n) * EPS * kV;

  auto runOne = [&](const string& what, const function<void(Matrix<double>&)>& call, const LMat& ref, LD tol, const string& clause) {
      int kO = static_cast<int>(c.rng.below(3)), pre = static_cast<int>(c.rng.below(4));
      unique_ptr<Matrix<double>> mO = preState(kO, pre, n, n);
      string callText = what + " into O(" + string(1, KN[kO]) + ",pre-state " + str(pre) + ")";
      vrt::step(callText);
      vrt::Outcome o = vrt::capture([&] { call(*mO); });
      vrt::cover(gen + ":" + what.substr(0, what.find('(') == string::npos ? what.size() : what.find(',')) + ":" + KN[kA] + KN[kO] + ":pre" + str(pre));
      if (!vrt::expect(o.returned(), "functions.returns", cls + "," + clause, [&] { return head + ": " + callText + " " + o.text(); })) return Dense();
      Dense O = toDense(*mO);
      if (!vrt::expect(O.r == n && O.c == n, "functions.dims", cls + "," + clause, [&] { return head + ": " + callText + " => " + str(O.r) + "x" + str(O.c); })) return Dense();
      LD dev = frobDiff(O, ref);
      vrt::expect(dev <= tol, clause.c_str(), cls, [&] {
          return head + ": " + callText + " => " + dump(O) + " deviates from the reference by " + numL(dev) + " (Frobenius) > " + numL(tol) + ", kappa_F(V)=" + numL(kV);
        });
      return O;
    };

  // exp: scaling-and-squaring Taylor series in long double.  |exp(A+E)-exp(A)| <= |E| e^|A|, |E| <= C n eps kappa(V) |A|
  {
    LMat ref = expL(AL);
    LD tol = unit * (1 + normA) * expl(normA) + TINYABS;
    runOne("exp(A)", [&](Matrix<double>& O) { MatrixTools::exp(*mA, O); }, ref, tol, "exp.power-series");
  }
  // integer powers against repeated products
  {
    static const int ps[] = { 0, 1, 2, 3, 5 };
    int p = ps[c.rng.below(5)];
    LMat ref = powL(AL, static_cast<unsigned>(p));
    LD tol = unit * static_cast<LD>(p + 1) * powl(max<LD>(1, normA), p) + TINYABS;
    runOne("pow(A," + str(p) + ".0)", [&](Matrix<double>& O) { MatrixTools::pow(*mA, static_cast<double>(p), O); }, ref, tol, "pow.repeated-products");
  }
  if (minAbs >= 0.25L)
  {
    // negative integer powers against repeated products of the long double inverse
    LMat Ai;
    if (inverseL(AL, Ai))
    {
      int p = c.rng.chance(0.5) ? 1 : 2;
      LMat ref = powL(Ai, static_cast<unsigned>(p));
      LD nAi = frob(Ai);
      LD tol = unit * static_cast<LD>(p + 1) * powl(max<LD>(1, nAi), p + 1) * max<LD>(1, normA) + TINYABS;
      runOne("pow(A,-" + str(p) + ".0)", [&](Matrix<double>& O) { MatrixTools::pow(*mA, -static_cast<double>(p), O); }, ref, tol, "pow.repeated-products");
    }
  }
  if (positive)
  {
    // fractional powers: reference S.diag(lambda^p).S^-1; the rounding of A and the backward error E move it by at most
    // kappa(S)^2 max|f'| (|E| + eps|A|) (Frechet derivative of a function of a diagonalisable matrix with real spectrum)
    static const double ps[] = { 0.5, 1.0 / 3.0, 2.5, -0.5, 1.5 };
    double p = ps[c.rng.below(5)];
    LMat F(n, n);
    LD maxf = 0, maxd = 0;
    for (size_t i = 0; i < n; ++i) { F(i, i) = powl(lam[i], p); maxf = max(maxf, fabsl(F(i, i))); }
    for (LD x : { static_cast<LD>(0.2L), static_cast<LD>(2.1L) }) maxd = max(maxd, fabsl(static_cast<LD>(p) * powl(x, static_cast<LD>(p) - 1)));
    LMat ref = mul(mul(S, F), Si);
    LD tol = (unit * normA + EPS * normA) * kappa * kappa * maxd + unit * kappa * maxf * static_cast<LD>(n) + TINYABS;
    Dense X = runOne("pow(A," + num(p) + ")", [&](Matrix<double>& O) { MatrixTools::pow(*mA, p, O); }, ref, tol, "pow.fractional");
    // a root taken k times gives A back (repeated products of the returned matrix)
    if (X.r == n && (p == 0.5 || p == 1.0 / 3.0))
    {
      unsigned k = p == 0.5 ? 2 : 3;
      LMat XL = toL(X);
      LMat back = powL(XL, k);
      LD nX = frob(XL);
      LD tol2 = unit * normA * kappa * kappa + static_cast<LD>(k) * unit * powl(max<LD>(1, nX), k) + TINYABS;
      LD dev = frobDiff(A, back);
      vrt::expect(dev <= tol2, "pow.root-repeated-products", cls, [&] { return head + ": pow(A," + num(p) + ")^" + str(k) + " deviates from A by " + numL(dev) + " > " + numL(tol2); });
    }
  }
  Dense A2 = toDense(*mA);
  vrt::expect(A2.a == A.a, "input-unchanged", cls, [&] { return head + " was modified: " + dump(A2); });
}
void caseFunctions(vrt::Case& c) { functionsCase(c, static_cast<int>((c.index / 12) % 4), 0); }
// the same functions on matrices with a structural pattern of zeros (triangular, permuted triangular, block triangular, block diagonal)
void caseFunctionsShaped(vrt::Case& c) { functionsCase(c, 4, static_cast<int>((c.index / 12) % SHAPED_PATTERNS)); }

// DualityDiagram: the eigen-decomposition of the weighted cross-product matrix drives all outputs
void caseDuality(vrt::Case& c)
{
  size_t r = 1 + c.rng.below(8), q = 1 + c.rng.below(8);
  size_t m = min(r, q);
  // data with singular values in [0.5, 2], weights in [0.5, 2]: full rank, eigenvalue ratios <= 256 (far above the 1e-7 cut)
  LMat Q1 = randomOrthogonal(c.rng, r), Q2 = randomOrthogonal(c.rng, q);
  LMat XL(r, q);
  vector<LD> sv(m);
  for (size_t k = 0; k < m; ++k) sv[k] = 0.5L + 1.5L * (m == 1 ? 0.5L : static_cast<LD>(k) / static_cast<LD>(m - 1)) * static_cast<LD>(c.rng.real(0.9, 1.0));
  for (size_t i = 0; i < r; ++i) for (size_t j = 0; j < q; ++j) { LD t = 0; for (size_t k = 0; k < m; ++k) t += Q1(i, k) * sv[k] * Q2(j, k); XL(i, j) = t; }
  Dense X = roundL(XL);
  vector<double> rw(r), cw(q);
  bool unitW = c.rng.chance(0.25);
  for (double& w : rw) w = unitW ? 1.0 / static_cast<double>(r) : c.rng.real(0.5, 2);
  for (double& w : cw) w = unitW ? 1.0 : c.rng.real(0.5, 2);
  unsigned want = static_cast<unsigned>(c.rng.chance(0.3) ? m + 1 + c.rng.below(3) : 1 + c.rng.below(m));
  size_t kept = min<size_t>(want, m);
  int kX = static_cast<int>(c.rng.below(3));
  string orient = r < q ? "wide" : "tall-or-square";
  const string cls = orient + (want > m ? ",axes-reduced" : ",axes-kept");
  vrt::describe("duality:" + orient, str(r) + "x" + str(q) + " data, " + str(want) + " axes requested, X=" + dump(X) + " row weights " + dumpV(rw) + " column weights " + dumpV(cw));
  const string head = "X(" + string(1, KN[kX]) + ")=" + dump(X) + " rw=" + dumpV(rw) + " cw=" + dumpV(cw) + " axes=" + str(want);
  unique_ptr<Matrix<double>> mX = fromDense(kX, X);
  unique_ptr<DualityDiagram> dd;
  vrt::step("DualityDiagram(X, rw, cw, " + str(want) + ")");
  const bool viaSetData = c.rng.chance(0.4); // second route: default construction, a first data set, then setData with the case's data
  vrt::Outcome o = vrt::capture([&] {
      if (!viaSetData) dd.reset(new DualityDiagram(*mX, rw, cw, want, 1e-7, false));
      else
      {
        dd.reset(new DualityDiagram());
        RowMatrix<double> first(3, 2);
        first(0, 0) = 1; first(1, 1) = 2; first(2, 0) = -1; first(2, 1) = 0.5;
        dd->setData(first, vector<double>(3, 1.0), vector<double>(2, 1.0), 2, 1e-7, false);
        dd->setData(*mX, rw, cw, want, 1e-7, false);
      }
    });
  if (!vrt::expect(o.returned(), "duality.returns", cls, [&] { return head + " => " + o.text(); })) return;
  vrt::cover("duality:" + orient + ":m" + str(m) + ":kept" + str(kept) + (want > m ? ":reduced" : "") + ":" + KN[kX] + (viaSetData ? ":setData" : ":ctor"));
  // reference spectrum of the weighted cross-product matrix (the smaller of the two Gram matrices)
  XL = toL(X);
  LMat M2(r, q);
  for (size_t i = 0; i < r; ++i) for (size_t j = 0; j < q; ++j) M2(i, j) = XL(i, j) * sqrtl(static_cast<LD>(rw[i])) * sqrtl(static_cast<LD>(cw[j]));
  LMat G = r < q ? mul(M2, transposeL(M2)) : mul(transposeL(M2), M2);
  vector<LD> ref = jacobiEigenvalues(G);
  reverse(ref.begin(), ref.end());
  LD lmax = ref.front(), lmin = ref.back();
  const vector<double>& ev = dd->getEigenValues();
  bool dimsOk = dd->getNbOfKeptAxes() == kept && ev.size() == kept
    && dd->getRowCoordinates().getNumberOfRows() == r && dd->getRowCoordinates().getNumberOfColumns() == kept
    && dd->getColCoordinates().getNumberOfRows() == q && dd->getColCoordinates().getNumberOfColumns() == kept
    && dd->getPrincipalAxes().getNumberOfRows() == q && dd->getPrincipalAxes().getNumberOfColumns() == kept
    && dd->getPrincipalComponents().getNumberOfRows() == r && dd->getPrincipalComponents().getNumberOfColumns() == kept;
  if (!vrt::expect(dimsOk, "duality.dims", cls, [&] {
      return head + " => kept " + str(dd->getNbOfKeptAxes()) + " (expected " + str(kept) + "), " + str(ev.size()) + " eigenvalues, row coordinates " + str(dd->getRowCoordinates().getNumberOfRows()) + "x" + str(dd->getRowCoordinates().getNumberOfColumns())
      + ", column coordinates " + str(dd->getColCoordinates().getNumberOfRows()) + "x" + str(dd->getColCoordinates().getNumberOfColumns());
    })) return;
  LD etol = CSYM * static_cast<LD>(m + r + q) * EPS * lmax;
  bool evOk = true;
  for (size_t i = 0; i < kept; ++i) if (!(fabsl(static_cast<LD>(ev[i]) - ref[i]) <= etol)) evOk = false;
  vrt::expect(evOk, "duality.eigenvalues", cls, [&] {
      string s = "(";
      for (size_t i = 0; i < kept; ++i) s += (i ? "," : "") + numL(ref[i]);
      return head + " => eigenvalues " + dumpV(ev) + " expected the " + str(kept) + " largest, descending: " + s + ") within " + numL(etol);
    });
  // duality relations: A^T Dc A = I, K^T Dr K = I, R^T Dr R = Lambda, C^T Dc C = Lambda, R = X Dc A, C = X^T Dr K.
  // They follow from the eigen-equation; the error is the eigen residual amplified by at most lmax/lmin <= 256 and the weights <= 2:
  // tolerance 1e-6 relative to the natural scale (an exchanged or mis-ordered vector gives an error of order one).
  LMat Aa = toL(toDense(dd->getPrincipalAxes())), K = toL(toDense(dd->getPrincipalComponents())), R = toL(toDense(dd->getRowCoordinates())), Cc = toL(toDense(dd->getColCoordinates()));
  LMat Dr(r, r), Dc(q, q), Lam(kept, kept);
  for (size_t i = 0; i < r; ++i) Dr(i, i) = rw[i];
  for (size_t j = 0; j < q; ++j) Dc(j, j) = cw[j];
  for (size_t i = 0; i < kept; ++i) Lam(i, i) = ref[i];
  const LD REL = 1e-6L;
  auto rel = [&](const LMat& got, const LMat& want2, LD scale, const char* clause, const string& what) {
      LD dev = 0;
      for (size_t i = 0; i < got.a.size(); ++i) dev = max(dev, fabsl(got.a[i] - want2.a[i]));
      vrt::expect(dev <= REL * scale, clause, cls, [&] { return head + " => " + what + " violated by " + numL(dev) + " > " + numL(REL * scale) + " (lmax/lmin=" + numL(lmax / lmin) + ")"; });
    };
  rel(mul(mul(transposeL(Aa), Dc), Aa), identityL(kept), 1, "duality.axes-orthonormal", "A^T.Dc.A = I");
  rel(mul(mul(transposeL(K), Dr), K), identityL(kept), 1, "duality.components-orthonormal", "K^T.Dr.K = I");
  rel(mul(mul(transposeL(R), Dr), R), Lam, lmax, "duality.row-inertia", "R^T.Dr.R = Lambda");
  rel(mul(mul(transposeL(Cc), Dc), Cc), Lam, lmax, "duality.column-inertia", "C^T.Dc.C = Lambda");
  rel(R, mul(mul(XL, Dc), Aa), 8 * sqrtl(lmax), "duality.row-coordinates", "R = X.Dc.A");
  rel(Cc, mul(mul(transposeL(XL), Dr), K), 8 * sqrtl(lmax), "duality.column-coordinates", "C = X^T.Dr.K");
}

// stored witnesses and fixed small matrices worth running on every seed
void caseFixed(vrt::Case& c)
{
  Spec sp;
  switch (c.index % 13)
  {
  case 0: // JAMA's regression matrix for the hqr2 non-termination (JAMA 1.0.3)
  {
    static const double b[5][5] = { { 0, 0, 0, 0, 0 }, { 0, 0, 0, 0, 1 }, { 0, 0, 0, 1, 0 }, { 1, 1, 0, 0, 1 }, { 1, 0, 1, 0, 1 } };
    sp.gen = "fixed-jama-badeigs";
    sp.A = Dense(5, 5);
    for (size_t i = 0; i < 5; ++i) for (size_t j = 0; j < 5; ++j) sp.A(i, j) = b[i][j];
    break;
  }
  case 1: sp.gen = "fixed-rotation90"; sp.A = Dense(2, 2); sp.A(0, 1) = -1; sp.A(1, 0) = 1; break;
  case 2: sp.gen = "fixed-cyclic3"; sp.A = Dense(3, 3); sp.A(0, 1) = 1; sp.A(1, 2) = 1; sp.A(2, 0) = 1; break;
  case 3: sp.gen = "fixed-cyclic4"; sp.A = Dense(4, 4); sp.A(0, 1) = 1; sp.A(1, 2) = 1; sp.A(2, 3) = 1; sp.A(3, 0) = 1; break;
  case 4: sp.gen = "fixed-jordan2"; sp.A = Dense(2, 2); sp.A(0, 0) = 1; sp.A(0, 1) = 1; sp.A(1, 1) = 1; break;
  case 5: sp.gen = "fixed-test-eigen"; sp.A = Dense(2, 2); sp.A(0, 0) = 2.3; sp.A(0, 1) = 1.4; sp.A(1, 0) = 5.0; sp.A(1, 1) = -0.9; break;
  case 6: sp.gen = "fixed-zero-nonsym"; sp.A = Dense(3, 3); sp.A(0, 2) = 1; break;
  case 7: // exactly double, defective eigenvalue 1: discriminant of the trailing 2x2 block is exactly zero
    sp.gen = "fixed-double-root"; sp.A = Dense(2, 2); sp.A(0, 0) = 2; sp.A(0, 1) = 1; sp.A(1, 0) = -1; sp.A(1, 1) = 0; break;
  case 8: // the same block below a real eigenvalue
    sp.gen = "fixed-double-root-3x3"; sp.A = Dense(3, 3); sp.A(0, 0) = 3; sp.A(0, 1) = 1; sp.A(0, 2) = -2; sp.A(1, 1) = 2; sp.A(1, 2) = 1; sp.A(2, 1) = -1; sp.A(2, 0) = 0.5; break;
  case 9: // signed cyclic shift: eigenvalues are the 5th roots of -1
    sp.gen = "fixed-cyclic5-signed"; sp.A = Dense(5, 5); sp.A(0, 1) = 1; sp.A(1, 2) = 1; sp.A(2, 3) = 1; sp.A(3, 4) = 1; sp.A(4, 0) = -1; break;
  case 10: // complex pair above a real eigenvalue, integer entries
    sp.gen = "fixed-pair-and-real"; sp.A = Dense(3, 3); sp.A(0, 0) = 1; sp.A(0, 1) = -2; sp.A(1, 0) = 2; sp.A(1, 1) = 1; sp.A(0, 2) = 3; sp.A(1, 2) = -1; sp.A(2, 2) = 4; sp.A(2, 0) = 1; break;
  case 11: // exactly skew-symmetric, eigenvalues +-i twice and 0: the QR iteration stagnated on a 1e-29 coupling between two converged 2x2 blocks
  {
    static const double w[5][5] = {
      { 0, 0.40891795326544617, -0.20121601110516879, 0.69763828172752629, 0.1477750667060384 },
      { -0.40891795326544617, 0, -0.62559915420773382, -0.097444099764396538, -0.65319120919727158 },
      { 0.20121601110516879, 0.62559915420773382, 0, 0.20675018295606329, -0.2330037139972361 },
      { -0.69763828172752629, 0.097444099764396538, -0.20675018295606329, 0, 0.59933029534191129 },
      { -0.1477750667060384, 0.65319120919727158, 0.2330037139972361, -0.59933029534191129, 0 } };
    sp.gen = "fixed-skew-stagnation";
    sp.A = Dense(5, 5);
    for (size_t i = 0; i < 5; ++i) for (size_t j = 0; j < 5; ++j) sp.A(i, j) = w[i][j];
    break;
  }
  default: sp.gen = "fixed-1x1"; sp.A = Dense(1, 1); sp.A(0, 0) = -3.5; break;
  }
  vrt::describe(sp.gen, "A=" + dump(sp.A));
  auditEigen(c, sp);
}
} // namespace

int main(int argc, char** argv)
{
  vector<vrt::Group> groups = {
    { "fixed", 13, 13, caseFixed, 300, true },
    { "dense", 14400, 720000, caseDense, 300, false },
    { "symmetric", 15360, 720000, caseSymmetric, 300, false },
    { "structured", 28800, 1188000, caseStructured, 300, false },
    { "spectrum", 9600, 360000, caseSpectrum, 300, false },
    { "functions", 14400, 540000, caseFunctions, 300, false },
    { "functions-shaped", 4320, 172800, caseFunctionsShaped, 300, false },
    { "duality", 8000, 300000, caseDuality, 300, false },
  };
  vrt::Meta meta;
  meta.rule = "One case = one real square matrix, n = 1 + index mod 12, flavour = (index div 12) mod #flavours of its group: dense (uniform, gaussian, integers in [-9,9], sparse integers, "
      "positive, rate matrices; scales 1e-6..1e6), symmetric (uniform, integer, prescribed / repeated spectrum, diagonal, zero / identity / scalar, tridiagonal, graded 1e-6..1e6, Gram), "
      "structured (upper / lower triangular incl. repeated diagonal, companion matrices of polynomials with prescribed real roots or complex pairs, rotation blocks plain / permuted / "
      "orthogonally rotated incl. pure 90-degree rotations, Jordan blocks plain / rotated, nearly defective triangular (diagonal entries 1e-12..1e-6 apart), signed permutation matrices, nilpotent, symmetric matrices with one entry of one pair changed (by one ulp, 0.1 %, or replaced), skew-symmetric orthogonal matrices (all eigenvalues +-i), graded non-symmetric, 0/1 matrices, Hessenberg with zero "
      "subdiagonal entries), spectrum (S.B.S^-1 with kappa(S)=1..100 and a simple spectrum with mutual distances >= 0.4/n, real or with complex pairs), functions (exp, pow(A,p) for p in "
      "{0,1,2,3,5,-1,-2,0.5,1/3,1.5,2.5,-0.5} on S.diag(lambda).S^-1 with kappa(S)<=10, symmetric, diagonal, identity, zero matrices, |lambda|<=2), functions-shaped (the same calls on S.diag(lambda).S^-1 whose basis S has a pattern of exact zeros, pattern = (index div 12) mod 12: "
      "lower / upper / symmetrically permuted triangular, each dense, sparse or with one single off-diagonal entry, block lower / block upper triangular and block diagonal with dense diagonal blocks; "
      "separated real spectrum, |lambda|<=2), duality (DualityDiagram on r x q data, "
      "r,q in 1..8, positive weights), fixed (thirteen stored matrices). Every matrix is passed as RowMatrix / ColMatrix / LinearMatrix (random). A class key = (flavour, n, symmetric or not, "
      "number of complex pairs returned, storage class): each involves a full decomposition.";
  meta.assumptions = {
    "tolerances: block-column residual |A.v - v.B|_F <= C n eps |A|_F |v|_F with C = 1e4 (non-symmetric) / 1e3 (symmetric); trace within C n eps |A|_F; determinant within 2(prod(|a_i|+C n eps|A|_F) - prod|a_i|); "
    "|V^T V - I|_F <= 100 n eps; symmetric eigenvalues within 1e3 n eps |A|_F of a long double Jacobi reference; prescribed spectra within kappa(S) 1e4 n eps |A|_F (Bauer-Fike); eps = 2^-52",
    "exp / pow: deviation from the long double reference <= C n eps kappa_F(V) (1+|A|) e^|A| resp. (p+1) max(1,|A|)^p (kappa_F(V) of the returned eigenvector matrix; runs with kappa_F(V) >= 1e8 are not judged); "
    "fractional powers additionally kappa(S)^2 max|f'|; only diagonalisable matrices with real spectrum, |lambda| <= 2, positive spectrum >= 0.25 for fractional and negative powers",
    "functions-shaped: kappa(S) is bounded by |S|_F |S^-1|_F; a case is judged only while kappa(S) 1e4 n eps |A|_F stays below a quarter of the separation of the prescribed eigenvalues",
    "a column of V that is entirely zero is reported (an eigenvector is non-zero); V is otherwise allowed to be ill conditioned or singular (defective matrices)",
    "DualityDiagram: full-rank data with singular values in [0.5,2] and weights in [0.5,2] (strictly positive), duality relations within 1e-6 relative",
    "n = 1..12, finite entries between 1e-6 and 1e6 in magnitude (or zero); the 0x0 matrix and non-finite entries are outside the quantifier; termination is bounded by the driver's watchdog",
  };
  meta.requiredClauses = { "A.V=V.D", "D.consistent-with-d-e", "spectrum.trace", "spectrum.determinant", "symmetric.flag", "symmetric.real-ascending", "symmetric.orthonormal", "symmetric.eigenvalues",
                           "spectrum.prescribed", "exp.power-series", "pow.repeated-products", "pow.fractional", "pow.root-repeated-products", "duality.eigenvalues", "duality.row-inertia" };
  return vrt::run(argc, argv, "C06", groups, meta);
}
