// C11 - Constraint-removing reparametrisation is a faithful change of variables.
//
// Two layers are monitored:
//  (1) the parameter transforms themselves (IntervalTransformedParameter hyperbolic / tangent,
//      RTransformedParameter positive / negative, PlaceboTransformedParameter): round trip, strict
//      monotonicity, derivatives against Richardson-extrapolated finite differences of the map itself;
//  (2) the three ReparametrizationFunctionWrapper classes around a polynomial test double with analytic
//      derivatives whose 1..5 parameters mix the eight bound configurations, unconstrained parameters and a
//      non-interval constraint: untouched function after wrapping, value = original function at the
//      back-transformed point, feasibility of that point, chain rule (formula-agnostic: the map seen by the
//      wrapped function is differentiated numerically), pass-through of untransformed parameters.  The wrapper under
//      test may be a copy (clone / copy constructor / assignment) and the wrapped function may live in a parameter
//      namespace (parameters called "model.p0" ...).
#include "vrt.h"

#include <Bpp/Numeric/AbstractParametrizable.h>
#include <Bpp/Numeric/Function/Functions.h>
#include <Bpp/Numeric/Function/ReparametrizationFunctionWrapper.h>
#include <Bpp/Numeric/TransformedParameter.h>

#include <algorithm>
#include <functional>
#include <memory>

using namespace bpp;
using namespace std;
using vrt::str;

namespace
{
const double INF = numeric_limits<double>::infinity();
const double EPS = numeric_limits<double>::epsilon();

// ------------------------------------------------------------------------------------------------
// Finite differences of a scalar map (central, one Richardson step) + rounding allowances
// ------------------------------------------------------------------------------------------------
struct FD
{
  double d1, d2; // estimates
  double r1, r2; // rounding allowance (absolute) of the estimates, from the magnitude of the sampled values
};

// mag: magnitude of the quantities entering the map's value (bounds, width), so that the allowance covers the
// absolute error of one evaluation of the map (a few ulp of the largest intermediate), amplified by 1/h, 1/h^2.
FD fdiff(const function<double(double)>& g, double x, double h, double mag)
{
  double g0 = g(x), p1 = g(x + h), m1 = g(x - h), p2 = g(x + h / 2), m2 = g(x - h / 2);
  double D1a = (p1 - m1) / (2 * h), D1b = (p2 - m2) / h;
  double D2a = (p1 - 2 * g0 + m1) / (h * h), D2b = (p2 - 2 * g0 + m2) / (h * h / 4);
  FD r;
  r.d1 = (4 * D1b - D1a) / 3;
  r.d2 = (4 * D2b - D2a) / 3;
  double m = max(max(fabs(g0), mag), max(max(fabs(p1), fabs(m1)), max(fabs(p2), fabs(m2))));
  r.r1 = 64 * EPS * m / h;
  r.r2 = 512 * EPS * m / (h * h);
  return r;
}

const double RELTOL = 1e-6; // relative tolerance of "derivative agrees with finite differences" (truncation error of the
                            // extrapolated stencils is < 1e-7 relative for the maps of the statement at the steps used)

bool agrees(double analytic, double numeric, double rounding)
{
  if (!std::isfinite(analytic) || !std::isfinite(numeric)) return false;
  return fabs(analytic - numeric) <= RELTOL * max(fabs(analytic), fabs(numeric)) + rounding;
}

// ------------------------------------------------------------------------------------------------
// bound configurations
// ------------------------------------------------------------------------------------------------
enum Config { CC = 0, OO, CO, OC, O_INF, C_INF, INF_O, INF_C, NONE, CUSTOM, NCONFIG };
const char* configName(int c)
{
  static const char* n[] = { "[a,b]", "]a,b[", "[a,b[", "]a,b]", "]a,+inf[", "[a,+inf[", "]-inf,b[", "]-inf,b]", "unconstrained", "non-interval-constraint" };
  return n[c];
}
bool isFiniteInterval(int c) { return c <= OC; }
bool isHalfLine(int c) { return c >= O_INF && c <= INF_C; }
bool isTransformed(int c) { return c <= INF_C; }

// A constraint that is not an IntervalConstraint: |x| <= limit.
class MagnitudeConstraint : public virtual ConstraintInterface
{
  double limit_;

public:
  MagnitudeConstraint(double limit) : limit_(limit) {}
  MagnitudeConstraint* clone() const override { return new MagnitudeConstraint(*this); }
  bool isCorrect(double value) const override { return fabs(value) <= limit_; }
  bool includes(double mn, double mx) const override { return isCorrect(mn) && isCorrect(mx); }
  double getLimit(double value) const override { return isCorrect(value) ? value : (value < 0 ? -limit_ : limit_); }
  double getAcceptedLimit(double value) const override { return getLimit(value); }
  string getDescription() const override { return "|x|<=" + str(limit_); }
  ConstraintInterface* operator&(const ConstraintInterface&) const override { return clone(); }
  bool isEmpty() const override { return false; }
};

struct Spec
{
  int config;
  double a, b; // bounds (a = -inf / b = +inf when absent)
  bool flagAtInfinity; // inclusive flag given for the infinite side (irrelevant for membership)
  double value;        // initial value of the parameter
  string text() const
  {
    string s = configName(config);
    if (isFiniteInterval(config)) s += " a=" + str(a) + " b=" + str(b);
    else if (config == O_INF || config == C_INF) s += " a=" + str(a);
    else if (config == INF_O || config == INF_C) s += " b=" + str(b);
    return s + " value=" + str(value);
  }
  bool lowerClosed() const { return config == CC || config == CO || config == C_INF; }
  bool upperClosed() const { return config == CC || config == OC || config == INF_C; }
  bool feasible(double v) const
  {
    if (std::isnan(v)) return false;
    if (config == NONE) return true;
    if (config == CUSTOM) return fabs(v) <= 1e7;
    bool lo = std::isinf(a) ? true : (lowerClosed() ? v >= a : v > a);
    bool hi = std::isinf(b) ? true : (upperClosed() ? v <= b : v < b);
    return lo && hi;
  }
  shared_ptr<ConstraintInterface> constraint() const
  {
    if (config == NONE) return nullptr;
    if (config == CUSTOM) return make_shared<MagnitudeConstraint>(1e7);
    bool il = std::isinf(a) ? flagAtInfinity : lowerClosed();
    bool iu = std::isinf(b) ? flagAtInfinity : upperClosed();
    return make_shared<IntervalConstraint>(a, b, il, iu);
  }
  // magnitude of the numbers entering the map
  double mag() const
  {
    double m = 1;
    if (std::isfinite(a)) m = max(m, fabs(a));
    if (std::isfinite(b)) m = max(m, fabs(b));
    if (std::isfinite(a) && std::isfinite(b)) m = max(m, b - a);
    return m;
  }
};

// bounds over [-1e3,1e3]; widths 1e-3 .. 2e3
void drawBounds(vrt::Rng& rng, double& a, double& b)
{
  static const vector<double> nice = { -1000, -100, -10, -2, -1, -0.5, 0, 0.5, 1, 2, 10, 100, 1000 };
  if (rng.chance(0.3))
  {
    size_t i = rng.below(nice.size() - 1), j = i + 1 + rng.below(nice.size() - 1 - i);
    a = nice[i];
    b = nice[j];
    return;
  }
  double w = rng.logReal(1e-3, 2e3);
  a = rng.real(-1e3, 1e3 - w);
  b = a + w;
  if (b > 1e3) b = 1e3;
}

double drawBound(vrt::Rng& rng)
{
  static const vector<double> nice = { -1000, -100, -1, 0, 1, 10, 1000 };
  return rng.chance(0.3) ? rng.pick(nice) : rng.real(-1e3, 1e3);
}

// a value strictly inside ]a,b[, at distance >= 1e-9 from either bound (as computed), biased to the bounds
double drawInterior(vrt::Rng& rng, double a, double b, string* kind = nullptr)
{
  static const vector<double> dist = { 1e-9, 2e-9, 5e-9, 1e-8, 1e-7, 1e-6, 1e-4 };
  double w = b - a;
  int k = static_cast<int>(rng.below(10));
  double v;
  if (k <= 1 || k == 2)
  {
    double d = rng.pick(dist);
    if (k == 2) d = rng.logReal(1e-9, 1e-3);
    if (d > w / 8) d = w / 8;
    v = rng.chance(0.5) ? a + d : b - d;
    if (kind) *kind = "near-bound";
  }
  else if (k == 3) { v = a + w / 2; if (kind) *kind = "middle"; }
  else { v = a + w * rng.real(0.001, 0.999); if (kind) *kind = "interior"; }
  if (!(v > a)) v = nextafter(a, INF);
  if (!(v < b)) v = nextafter(b, -INF);
  return v;
}

// a value on the half line beyond `bound` (positive: above), distance >= 1e-9, around the junction at one unit, far away
double drawHalfLine(vrt::Rng& rng, double bound, bool positive, string* kind = nullptr)
{
  int k = static_cast<int>(rng.below(10));
  double d;
  if (k <= 1) { static const vector<double> dist = { 1e-9, 2e-9, 1e-8, 1e-6, 1e-3 }; d = rng.pick(dist); if (kind) *kind = "near-bound"; }
  else if (k == 2) { d = rng.logReal(1e-9, 1); if (kind) *kind = "log-part"; }
  else if (k == 3) { static const vector<double> j = { 1 - 1e-9, 1 - 1e-6, 1, 1 + 1e-9, 1 + 1e-6, 0.999, 1.001 }; d = rng.pick(j); if (kind) *kind = "junction"; }
  else if (k <= 6) { d = rng.real(0.01, 1); if (kind) *kind = "log-part"; }
  else if (k <= 8) { d = rng.real(1, 50); if (kind) *kind = "linear-part"; }
  else { d = rng.logReal(1, 1e6); if (kind) *kind = "linear-part"; }
  double v = positive ? bound + d : bound - d;
  if (positive && !(v > bound)) v = nextafter(bound, INF);
  if (!positive && !(v < bound)) v = nextafter(bound, -INF);
  return v;
}

// ================================================================================================
// Group "transform": the parameter transforms on their own
// ================================================================================================
enum TKind { HYPER = 0, TANGENT, RPOS, RNEG, PLACEBO };
const char* tkindName(int k)
{
  static const char* n[] = { "interval-hyperbolic", "interval-tangent", "halfline-positive", "halfline-negative", "placebo" };
  return n[k];
}

void caseTransform(vrt::Case& c)
{
  vrt::Rng& rng = c.rng;
  int kind = static_cast<int>(c.index % 9);
  // 0-2 hyper, 3-5 tangent, 6 rpos, 7 rneg, 8: placebo (rare) or rpos/rneg
  if (kind <= 2) kind = HYPER;
  else if (kind <= 5) kind = TANGENT;
  else if (kind == 6) kind = RPOS;
  else if (kind == 7) kind = RNEG;
  else kind = (c.index % 27 == 8) ? PLACEBO : (rng.chance(0.5) ? RPOS : RNEG);

  double a = -INF, b = INF, scale = 1;
  unique_ptr<TransformedParameter> tp;
  vector<double> values; // original values to convert, sorted ascending, pairwise separated by more than the resolution
  string cls = tkindName(kind);
  string desc;
  double mag = 1;

  if (kind == HYPER || kind == TANGENT)
  {
    drawBounds(rng, a, b);
    static const vector<double> scales = { 0.1, 0.25, 0.5, 1, 1, 2, 5, 10 };
    scale = rng.chance(0.5) ? rng.pick(scales) : rng.logReal(0.1, 10);
    mag = max(max(fabs(a), fabs(b)), b - a);
    for (int i = 0; i < 14; ++i) values.push_back(drawInterior(rng, a, b));
    // always the four extreme admissible distances
    double w = b - a;
    for (double d : { 1e-9, 3e-9 })
      if (d < w / 8) { values.push_back(a + d); values.push_back(b - d); }
    desc = string(tkindName(kind)) + " a=" + str(a) + " b=" + str(b) + " scale=" + str(scale);
  }
  else if (kind == RPOS || kind == RNEG)
  {
    a = drawBound(rng); // the single bound
    b = a;
    mag = max(1.0, fabs(a));
    for (int i = 0; i < 16; ++i) values.push_back(drawHalfLine(rng, a, kind == RPOS));
    for (double d : { 1e-9, 1.0 - 1e-7, 1.0, 1.0 + 1e-7, 3.0 })
      values.push_back(kind == RPOS ? a + d : a - d);
    desc = string(tkindName(kind)) + " bound=" + str(a) + " scale=1";
  }
  else
  {
    for (int i = 0; i < 12; ++i) values.push_back(rng.chance(0.5) ? rng.real(-30, 30) : rng.real(-1e6, 1e6));
    mag = 1;
    desc = "placebo";
  }
  vrt::describe(cls, desc);
  sort(values.begin(), values.end());
  // keep values separated by more than the resolution of the map at that magnitude (strictness can only be
  // demanded of inputs the arithmetic can tell apart)
  {
    vector<double> v2;
    for (double v : values)
    {
      double sep = 256 * EPS * max(mag, fabs(v));
      if (v2.empty() || v - v2.back() > sep) v2.push_back(v);
    }
    values.swap(v2);
  }

  // construction with an interior value
  double v0 = values[values.size() / 2];
  vrt::Outcome oc = vrt::capture([&] {
        if (kind == HYPER || kind == TANGENT) tp.reset(new IntervalTransformedParameter("t", v0, a, b, scale, kind == HYPER));
        else if (kind == RPOS || kind == RNEG) tp.reset(new RTransformedParameter("t", v0, a, kind == RPOS, 1.));
        else tp.reset(new PlaceboTransformedParameter("t", v0));
      });
  if (!vrt::expect(oc.returned() && tp, "transform.accepts-interior", cls + ":ctor", [&] { return desc + ": constructing with interior value " + str(v0) + " " + oc.text(); }))
    return;

  auto rtTol = [&](double v) { return 64 * EPS * (max(mag, fabs(v))); };

  // the constructor converts like setOriginalValue
  {
    double back = tp->getOriginalValue();
    vrt::expect(fabs(back - v0) <= rtTol(v0), "transform.roundtrip", cls + ":ctor", [&] {
          return desc + ": constructed with " + str(v0) + " -> transformed " + str(tp->getValue()) + " -> back " + str(back) + " (tolerance " + str(rtTol(v0)) + ")";
        });
  }

  // ---- round trip + strict monotonicity over the sorted inputs
  vector<double> xs;
  bool allSet = true;
  for (double v : values)
  {
    vrt::Outcome o = vrt::capture([&] { tp->setOriginalValue(v); });
    if (!vrt::expect(o.returned(), "transform.accepts-interior", cls + ":set", [&] { return desc + ": setOriginalValue(" + str(v) + ") " + o.text(); }))
    {
      allSet = false;
      break;
    }
    double x = tp->getValue();
    xs.push_back(x);
    string where = "interior";
    if (kind == HYPER || kind == TANGENT)
      where = (v - a < 1e-6 * (b - a)) ? "near-lower" : (b - v < 1e-6 * (b - a)) ? "near-upper" : "interior";
    else if (kind == RPOS || kind == RNEG)
      where = fabs(v - a) < 1 ? "log-part" : "linear-part";
    vrt::cover(cls + ":" + where);
    if (!vrt::expect(std::isfinite(x), "transform.finite", cls + ":" + where, [&] { return desc + ": setOriginalValue(" + str(v) + ") gives transformed value " + str(x); }))
      continue;
    double back = tp->getOriginalValue();
    vrt::expect(fabs(back - v) <= rtTol(v), "transform.roundtrip", cls + ":" + where, [&] {
          return desc + ": " + str(v) + " -> transformed " + str(x) + " -> back " + str(back) + " (error " + str(back - v) + ", tolerance " + str(rtTol(v)) + ")";
        });
    if (kind == PLACEBO)
      vrt::expect(x == v && back == v && tp->getFirstOrderDerivative() == 1. && tp->getSecondOrderDerivative() == 0., "transform.placebo-identity", cls, [&] {
            return desc + ": " + str(v) + " -> " + str(x) + " -> " + str(back) + " d1=" + str(tp->getFirstOrderDerivative()) + " d2=" + str(tp->getSecondOrderDerivative());
          });
  }
  if (allSet && xs.size() >= 2)
  {
    // one direction for the whole map
    int dir = 0;
    for (size_t i = 0; i + 1 < xs.size(); ++i)
    {
      int d = xs[i + 1] > xs[i] ? 1 : xs[i + 1] < xs[i] ? -1 : 0;
      string rel = d == 0 ? "equal" : "reversed";
      bool ok = d != 0 && (dir == 0 || d == dir);
      if (dir == 0 && d != 0) dir = d;
      vrt::expect(ok, "transform.strictly-monotone", cls + ":" + rel, [&] {
            return desc + ": originals " + str(values[i]) + " < " + str(values[i + 1]) + " map to " + str(xs[i]) + " and " + str(xs[i + 1]) + (dir ? (dir > 0 ? " (map increasing elsewhere)" : " (map decreasing elsewhere)") : "");
          });
    }
  }

  // ---- inverse map on a sorted grid of transformed coordinates: monotone in one direction (weakly: it saturates)
  {
    vector<double> grid = { -30, -25, -19, -12, -7, -3, -1.5, -0.7, -0.2, -1e-3, 0, 1e-3, 0.2, 0.7, 1.5, 3, 7, 12, 19, 25, 30 };
    for (int i = 0; i < 6; ++i) grid.push_back(rng.real(-30, 30));
    sort(grid.begin(), grid.end());
    vector<double> os;
    for (double x : grid) { tp->setValue(x); os.push_back(tp->getOriginalValue()); }
    int dir = 0;
    double slack = 8 * EPS * max(mag, 40.0);
    for (size_t i = 0; i + 1 < os.size(); ++i)
    {
      double d = os[i + 1] - os[i];
      int s = d > slack ? 1 : d < -slack ? -1 : 0;
      bool ok = std::isfinite(os[i]) && std::isfinite(os[i + 1]) && (s == 0 || dir == 0 || s == dir);
      if (dir == 0) dir = s;
      vrt::expect(ok, "transform.inverse-monotone", cls, [&] {
            return desc + ": transformed " + str(grid[i]) + " < " + str(grid[i + 1]) + " map back to " + str(os[i]) + " and " + str(os[i + 1]) + " against the direction seen before";
          });
    }
    // clearly separated, unsaturated coordinates must give distinct originals
    if (kind != PLACEBO)
    {
      double o[5];
      double pts[5] = { -4 * scale, -1 * scale, 0, 1 * scale, 4 * scale };
      for (int i = 0; i < 5; ++i) { tp->setValue(pts[i]); o[i] = tp->getOriginalValue(); }
      bool inc = o[0] < o[1] && o[1] < o[2] && o[2] < o[3] && o[3] < o[4];
      bool dec = o[0] > o[1] && o[1] > o[2] && o[2] > o[3] && o[3] > o[4];
      vrt::expect(inc || dec, "transform.inverse-monotone", cls + ":strict-centre", [&] {
            return desc + ": transformed -4s,-s,0,s,4s map back to " + str(o[0]) + "," + str(o[1]) + "," + str(o[2]) + "," + str(o[3]) + "," + str(o[4]);
          });
      // inside the interval (the transform's own open interval, closure allowed for saturation)
      if (kind == HYPER || kind == TANGENT)
        for (double x : grid)
        {
          tp->setValue(x);
          double ov = tp->getOriginalValue();
          vrt::expect(ov >= a - rtTol(a) && ov <= b + rtTol(b), "transform.inverse-in-interval", cls, [&] { return desc + ": transformed " + str(x) + " maps back to " + str(ov); });
        }
      else
        for (double x : grid)
        {
          tp->setValue(x);
          double ov = tp->getOriginalValue();
          vrt::expect(kind == RPOS ? ov >= a : ov <= a, "transform.inverse-in-interval", cls, [&] { return desc + ": transformed " + str(x) + " maps back to " + str(ov); });
        }
    }
  }

  // ---- derivatives of the map against finite differences of the map
  if (kind != PLACEBO)
  {
    vector<double> pts;
    for (double y : { -3.0, -1.2, -0.4, -0.11, 0.13, 0.5, 1.1, 2.5, 6.0 }) pts.push_back(y * scale);
    for (int i = 0; i < 4; ++i) pts.push_back(rng.real(-30, 30));
    for (int i = 0; i < 3; ++i) pts.push_back(rng.real(-3, 3) * scale);
    pts.insert(pts.end(), xs.begin(), xs.end()); // and where the inputs landed
    const double h = 0.02 * scale;
    unique_ptr<TransformedParameter> probe(tp->clone());
    auto g = [&](double x) { probe->setValue(x); return probe->getOriginalValue(); };
    auto gd = [&](double x) { probe->setValue(x); return probe->getFirstOrderDerivative(); };
    size_t judged = 0;
    for (double x : pts)
    {
      if (!(fabs(x) <= 30)) continue;
      bool halfLine = kind == RPOS || kind == RNEG;
      if (halfLine && fabs(x) <= 1.01 * h) continue; // the two pieces meet at 0: no finite difference across the junction
      if (judged >= 40) break;
      ++judged;
      tp->setValue(x);
      double d1 = tp->getFirstOrderDerivative(), d2 = tp->getSecondOrderDerivative();
      FD fd = fdiff(g, x, h, mag);
      string reg = halfLine ? (x < 0 ? "log-part" : "linear-part") : (fabs(x / scale) < 2 ? "centre" : "tail");
      vrt::cover(cls + ":derivative:" + reg);
      vrt::expect(agrees(d1, fd.d1, fd.r1), "transform.derivative1", cls + ":" + reg, [&] {
            return desc + ": at transformed " + str(x) + " getFirstOrderDerivative=" + str(d1) + " finite difference of the map=" + str(fd.d1) + " (rounding allowance " + str(fd.r1) + ")";
          });
      vrt::expect(agrees(d2, fd.d2, fd.r2), "transform.derivative2", cls + ":" + reg, [&] {
            return desc + ": at transformed " + str(x) + " getSecondOrderDerivative=" + str(d2) + " second difference of the map=" + str(fd.d2) + " (rounding allowance " + str(fd.r2) + ")";
          });
      // the second derivative is the derivative of the first (sharper when the bounds are large compared with the width)
      FD fdd = fdiff(gd, x, h, 0);
      vrt::expect(agrees(d2, fdd.d1, fdd.r1), "transform.derivative2-of-derivative1", cls + ":" + reg, [&] {
            return desc + ": at transformed " + str(x) + " getSecondOrderDerivative=" + str(d2) + " finite difference of getFirstOrderDerivative=" + str(fdd.d1) + " (rounding allowance " + str(fdd.r1) + ")";
          });
    }
  }

  // clone keeps the state
  {
    tp->setValue(rng.real(-5, 5));
    unique_ptr<TransformedParameter> cl(tp->clone());
    vrt::expect(cl->getValue() == tp->getValue() && vrt::sameDouble(cl->getOriginalValue(), tp->getOriginalValue()) && vrt::sameDouble(cl->getFirstOrderDerivative(), tp->getFirstOrderDerivative()),
        "transform.clone", cls, [&] { return desc + ": clone differs at transformed " + str(tp->getValue()); });
  }
}

// ================================================================================================
// Polynomial test double: F(p) = c0 + sum_i (c1_i u_i + c2_i u_i^2 + c3_i u_i^3) + sum_{i<j} (q_ij u_i u_j + r_ij u_i^2 u_j),
// u_i = (p_i - m_i) / s_i.  Analytic derivatives.  Counts the updates it receives.
// ================================================================================================
struct Poly
{
  size_t n;
  vector<double> m, s, c1, c2, c3, q, r; // q, r: n*n (i<j used)
  double c0;

  vector<double> u(const vector<double>& p) const
  {
    vector<double> v(n);
    for (size_t i = 0; i < n; ++i) v[i] = (p[i] - m[i]) / s[i];
    return v;
  }
  double eval(const vector<double>& p) const
  {
    vector<double> v = u(p);
    double f = c0;
    for (size_t i = 0; i < n; ++i) f += c1[i] * v[i] + c2[i] * v[i] * v[i] + c3[i] * v[i] * v[i] * v[i];
    for (size_t i = 0; i < n; ++i)
      for (size_t j = i + 1; j < n; ++j)
        f += q[i * n + j] * v[i] * v[j] + r[i * n + j] * v[i] * v[i] * v[j];
    return f;
  }
  double d1(const vector<double>& p, size_t k) const
  {
    vector<double> v = u(p);
    double d = c1[k] + 2 * c2[k] * v[k] + 3 * c3[k] * v[k] * v[k];
    for (size_t j = k + 1; j < n; ++j) d += q[k * n + j] * v[j] + 2 * r[k * n + j] * v[k] * v[j];
    for (size_t i = 0; i < k; ++i) d += q[i * n + k] * v[i] + r[i * n + k] * v[i] * v[i];
    return d / s[k];
  }
  double d2(const vector<double>& p, size_t k, size_t l) const
  {
    vector<double> v = u(p);
    if (k == l)
    {
      double d = 2 * c2[k] + 6 * c3[k] * v[k];
      for (size_t j = k + 1; j < n; ++j) d += 2 * r[k * n + j] * v[j];
      return d / (s[k] * s[k]);
    }
    size_t i = min(k, l), j = max(k, l);
    return (q[i * n + j] + 2 * r[i * n + j] * v[i]) / (s[i] * s[j]);
  }
};

class PolyFunction :
  public virtual SecondOrderDerivable,
  public AbstractParametrizable
{
public:
  Poly poly;
  size_t updates;
  bool d1on, d2on;

  // ns: the parameter namespace the function lives in (AbstractParametrizable's prefix): its parameters are called
  // ns + "p0", ns + "p1", ...  ("" = no namespace)
  PolyFunction(const Poly& p, const vector<Spec>& specs, const string& ns = "") : AbstractParametrizable(ns), poly(p), updates(0), d1on(true), d2on(true)
  {
    for (size_t i = 0; i < specs.size(); ++i)
      addParameter_(new Parameter(ns + "p" + str(i), specs[i].value, specs[i].constraint()));
  }
  PolyFunction* clone() const override { return new PolyFunction(*this); }

  vector<double> point() const
  {
    vector<double> v(poly.n);
    for (size_t i = 0; i < poly.n; ++i) v[i] = getParameters()[i].getValue();
    return v;
  }
  // a derivation variable may be named by the parameter's full name or by its name without the namespace (the library does
  // not document which one a wrapper hands on for a function in a namespace): the test double understands both
  size_t indexOf(const string& name) const
  {
    for (size_t i = 0; i < poly.n; ++i) if (getParameters()[i].getName() == name) return i;
    for (size_t i = 0; i < poly.n; ++i) if (getParameters()[i].getName() == getNamespace() + name) return i;
    throw Exception("PolyFunction: no parameter " + name);
  }
  void setParameters(const ParameterList& pl) override { ++updates; matchParametersValues(pl); }
  double getValue() const override { return poly.eval(point()); }
  void enableFirstOrderDerivatives(bool yn) override { d1on = yn; }
  bool enableFirstOrderDerivatives() const override { return d1on; }
  void enableSecondOrderDerivatives(bool yn) override { d2on = yn; }
  bool enableSecondOrderDerivatives() const override { return d2on; }
  double getFirstOrderDerivative(const string& v) const override { return poly.d1(point(), indexOf(v)); }
  double getSecondOrderDerivative(const string& v) const override { size_t k = indexOf(v); return poly.d2(point(), k, k); }
  double getSecondOrderDerivative(const string& v1, const string& v2) const override { return poly.d2(point(), indexOf(v1), indexOf(v2)); }
};

Spec drawSpec(vrt::Rng& rng, int config)
{
  Spec s;
  s.config = config;
  s.a = -INF;
  s.b = INF;
  s.flagAtInfinity = rng.chance(0.2);
  if (isFiniteInterval(config))
  {
    drawBounds(rng, s.a, s.b);
    int k = static_cast<int>(rng.below(8));
    if (k == 0 && s.lowerClosed()) s.value = s.a;
    else if (k == 1 && s.upperClosed()) s.value = s.b;
    else s.value = drawInterior(rng, s.a, s.b);
  }
  else if (config == O_INF || config == C_INF)
  {
    s.a = drawBound(rng);
    if (config == C_INF && rng.chance(0.15)) s.value = s.a;
    else s.value = drawHalfLine(rng, s.a, true);
  }
  else if (config == INF_O || config == INF_C)
  {
    s.b = drawBound(rng);
    if (config == INF_C && rng.chance(0.15)) s.value = s.b;
    else s.value = drawHalfLine(rng, s.b, false);
  }
  else
    s.value = rng.chance(0.5) ? rng.real(-30, 30) : rng.real(-1e3, 1e3);
  return s;
}

Poly drawPoly(vrt::Rng& rng, const vector<Spec>& specs)
{
  Poly p;
  p.n = specs.size();
  size_t n = p.n;
  p.c0 = rng.real(-5, 5);
  p.m.resize(n); p.s.resize(n); p.c1.resize(n); p.c2.resize(n); p.c3.resize(n);
  p.q.assign(n * n, 0); p.r.assign(n * n, 0);
  for (size_t i = 0; i < n; ++i)
  {
    const Spec& sp = specs[i];
    if (isFiniteInterval(sp.config)) { p.m[i] = sp.a + (sp.b - sp.a) * rng.real(-0.2, 1.2); p.s[i] = (sp.b - sp.a) * rng.real(0.3, 2); }
    else if (isHalfLine(sp.config)) { double bd = std::isfinite(sp.a) ? sp.a : sp.b; p.m[i] = bd + rng.real(-3, 3); p.s[i] = rng.real(0.5, 4); }
    else { p.m[i] = rng.real(-10, 10); p.s[i] = rng.real(0.5, 20); }
    p.c1[i] = rng.real(-2, 2);
    p.c2[i] = rng.real(-2, 2);
    p.c3[i] = rng.chance(0.7) ? rng.real(-1, 1) : 0;
    for (size_t j = i + 1; j < n; ++j)
    {
      p.q[i * n + j] = rng.real(-2, 2);
      p.r[i * n + j] = rng.chance(0.5) ? rng.real(-1, 1) : 0;
    }
  }
  return p;
}

string pointStr(const vector<double>& v) { return vrt::vecStr(v, 8); }

// A non-empty parameter namespace for the wrapped function: the usual dotted forms, nested ones, one without separator, ones that
// look like the parameter names themselves ("p", "p0": the parameters are then called pp0, p0p1 ...), or a random one.
string drawNamespace(vrt::Rng& rng)
{
  static const vector<string> fixed = { "model.", "a.b_", "ns1.ns2.", "f_", "p", "p0", "x", "M.", "1." };
  if (rng.chance(0.75)) return rng.pick(fixed);
  static const string alphabet = "abcxyzPQ019._";
  string s;
  size_t len = 1 + rng.below(6);
  for (size_t i = 0; i < len; ++i) s += alphabet[rng.below(alphabet.size())];
  return s;
}

// transformed coordinate for the evaluation points, over [-30,30]
double drawCoordinate(vrt::Rng& rng)
{
  int k = static_cast<int>(rng.below(12));
  if (k == 0) return rng.chance(0.5) ? 30 : -30;
  if (k == 1) return rng.chance(0.5) ? rng.real(18, 30) : rng.real(-30, -18);
  if (k == 2) return 0;
  if (k == 3) return rng.real(-0.01, 0.01);
  if (k <= 7) return rng.real(-3, 3);
  return rng.real(-30, 30);
}

void caseWrapper(vrt::Case& c)
{
  vrt::Rng& rng = c.rng;
  size_t n = 1 + c.index % 5;
  vector<Spec> specs;
  string cfgs;
  for (size_t i = 0; i < n; ++i)
  {
    // every configuration gets its turn as first parameter; the others are mixed at random
    int cfg = (i == 0) ? static_cast<int>((c.index / 5) % NCONFIG) : static_cast<int>(rng.below(NCONFIG));
    specs.push_back(drawSpec(rng, cfg));
    cfgs += string(i ? " ; " : "") + "p" + str(i) + ":" + specs.back().text();
  }
  int wkind = static_cast<int>((c.index / 50) % 4); // 0,1: second order wrapper, 2: first order, 3: plain
  const char* wname = wkind <= 1 ? "second-order-wrapper" : wkind == 2 ? "first-order-wrapper" : "function-wrapper";
  bool subsetCtor = n >= 2 && rng.chance(0.2);

  // Decisions about copies of the wrapper and about the order of a parameter selection come from a stream of their own,
  // so that the histories drawn from c.rng stay what they were.
  vrt::Rng aux(vrt::mix(vrt::mix(c.seed, vrt::hashStr("C11/wrapper/copies")), c.index));
  // At four stages of the history (0: right after wrapping, 1: after the come-back, 2: after the third evaluation point,
  // 3: before the sweep) the wrapper may be replaced by a copy of itself: 1 clone(), 2 copy constructor,
  // 3 assignment onto a wrapper of the same class that was built around another function.  0: no copy.
  static const char* routeName[] = { "", "clone", "copy-constructor", "assignment" };
  int copyPlan[4];
  string planTxt;
  for (int s = 0; s < 4; ++s)
  {
    copyPlan[s] = aux.chance(0.15) ? 1 + static_cast<int>(aux.below(3)) : 0;
    if (copyPlan[s]) planTxt += string(planTxt.empty() ? "" : ",") + routeName[copyPlan[s]] + "@stage" + str(s);
  }
  bool permuteSelection = subsetCtor && aux.chance(0.5);
  // The parameter namespace the wrapped function lives in (a third of the cases: a non-empty one), again from a stream of its
  // own.  The property speaks of "the original function" without restriction: a function whose parameters are called
  // "model.p0", ... is reparametrised like any other, the wrapper takes over its namespace and its parameter names.
  vrt::Rng aux2(vrt::mix(vrt::mix(c.seed, vrt::hashStr("C11/wrapper/namespace")), c.index));
  const string ns = aux2.chance(0.35) ? drawNamespace(aux2) : string();
  const string nsCls = ns.empty() ? "" : ":namespaced-function"; // class suffix of the per-update clauses
  auto fullName = [&](size_t i) { return ns + "p" + str(i); };
  vrt::describe(string(wname) + (subsetCtor ? ":subset-ctor" : "") + nsCls, str(n) + " parameters { " + cfgs + " }" + (ns.empty() ? "" : " ; function in parameter namespace '" + ns + "' (parameters " + fullName(0) + " ...)") + (permuteSelection ? " ; selection in another order" : "") + (planTxt.empty() ? "" : " ; wrapper replaced by a copy: " + planTxt));

  Poly poly = drawPoly(rng, specs);
  shared_ptr<PolyFunction> F;
  {
    vrt::Outcome o = vrt::capture([&] { F = make_shared<PolyFunction>(poly, specs, ns); });
    if (!o.returned()) { vrt::counted("harness.function-construction-refused"); return; } // not this property's business
  }
  const vector<double> P0 = F->point();
  const size_t updates0 = F->updates;

  // which parameters the wrapper takes
  vector<size_t> taken;
  ParameterList sel;
  if (subsetCtor)
  {
    for (size_t i = 0; i < n; ++i) if (rng.chance(0.6)) taken.push_back(i);
    if (taken.empty()) taken.push_back(rng.below(n));
    size_t foreignAt = taken.size();
    if (permuteSelection)
    {
      aux.shuffle(taken); // the selection names the parameters in another order than the function does
      foreignAt = aux.below(taken.size() + 1);
    }
    // the name in the selection that is not a parameter of the function; for a function in a namespace it may be the name of
    // one of its parameters *without* the namespace (the function's parameter is called ns+"p1", so "p1" is foreign to it)
    string foreignName = "not-a-parameter-of-the-function";
    if (!ns.empty() && aux2.chance(0.5))
    {
      foreignName = "p" + str(aux2.below(n));
      for (size_t i = 0; i < n; ++i) if (foreignName == fullName(i)) foreignName = "not-a-parameter-of-the-function";
    }
    for (size_t k = 0; k <= taken.size(); ++k)
    {
      if (k == foreignAt) sel.addParameter(Parameter(foreignName, 1.));
      if (k < taken.size()) sel.addParameter(F->getParameters()[taken[k]]);
    }
  }
  else
    for (size_t i = 0; i < n; ++i) taken.push_back(i);

  shared_ptr<ReparametrizationFunctionWrapper> W;
  shared_ptr<ReparametrizationDerivableFirstOrderWrapper> W1;
  shared_ptr<ReparametrizationDerivableSecondOrderWrapper> W2;
  vrt::Outcome ow = vrt::capture([&] {
        if (wkind <= 1)
        {
          W2 = subsetCtor ? make_shared<ReparametrizationDerivableSecondOrderWrapper>(F, sel, false) : make_shared<ReparametrizationDerivableSecondOrderWrapper>(F, false);
          W1 = W2;
          W = W2;
        }
        else if (wkind == 2)
        {
          W1 = subsetCtor ? make_shared<ReparametrizationDerivableFirstOrderWrapper>(F, sel, false) : make_shared<ReparametrizationDerivableFirstOrderWrapper>(F, false);
          W = W1;
        }
        else
          W = subsetCtor ? make_shared<ReparametrizationFunctionWrapper>(F, sel, false) : make_shared<ReparametrizationFunctionWrapper>(F, false);
      });
  auto atBound = [&](size_t i) { return isTransformed(specs[i].config) && (P0[i] == specs[i].a || P0[i] == specs[i].b); };
  string firstCls = string(configName(specs[taken[0]].config));
  {
    // class of a construction failure: the configurations present (sorted, distinct) would be too fine; name the first transformed one at a bound, else the first
    string cls = firstCls;
    for (size_t i : taken) if (atBound(i)) { cls = string(configName(specs[i].config)) + ":value-at-bound"; break; }
    if (!vrt::expect(ow.returned() && W, "wrapper.construct", cls, [&] { return "wrapping " + cfgs + " " + ow.text(); })) return;
  }

  // ---- immediately after wrapping the function still has its values
  {
    vector<double> now = F->point();
    bool same = true;
    for (size_t i = 0; i < n; ++i) same = same && vrt::sameDouble(now[i], P0[i]);
    vrt::expect(same && F->updates == updates0, "wrapper.untouched-after-wrapping", wname, [&] {
          return cfgs + ": function parameters were " + pointStr(P0) + " and are " + pointStr(now) + " after wrapping (" + str(F->updates - updates0) + " updates received)";
        });
    vrt::expect(vrt::sameDouble(W->getValue(), poly.eval(P0)), "wrapper.untouched-after-wrapping", string(wname) + ":value", [&] {
          return cfgs + ": wrapper value after wrapping " + str(W->getValue()) + " but the function at its values is " + str(poly.eval(P0));
        });
  }

  // ---- wrapper parameters: same names in the same order, transformed coordinates are finite reals
  const ParameterList* wpp = &W->getParameters(); // re-pointed when the wrapper is replaced by a copy of itself
  {
    bool ok = (*wpp).size() == taken.size();
    if (permuteSelection)
    {
      // the order of the wrapper's parameters is not documented for a selection given in another order than the function's:
      // every selected name exactly once, in any order; the harness follows the wrapper's order from here on
      vector<size_t> order;
      for (size_t k = 0; ok && k < (*wpp).size(); ++k)
      {
        bool found = false;
        for (size_t i : taken)
          if ((*wpp)[k].getName() == fullName(i) && find(order.begin(), order.end(), i) == order.end()) { order.push_back(i); found = true; break; }
        ok = found;
      }
      if (ok) taken = order;
    }
    else
      for (size_t k = 0; ok && k < taken.size(); ++k) ok = (*wpp)[k].getName() == fullName(taken[k]);
    if (!vrt::expect(ok, "wrapper.parameter-names", wname + nsCls, [&] { return cfgs + ": wrapper parameters " + vrt::vecStr((*wpp).getParameterNames()); })) return;
  }
  vector<double> X0(taken.size());
  for (size_t k = 0; k < taken.size(); ++k)
  {
    size_t i = taken[k];
    X0[k] = (*wpp)[k].getValue();
    string cls = string(configName(specs[i].config)) + (atBound(i) ? ":value-at-bound" : "");
    vrt::cover(string("wrap:") + cls);
    vrt::expect(std::isfinite(X0[k]), "wrapper.initial-coordinate-finite", cls, [&] { return specs[i].text() + ": transformed coordinate after wrapping is " + str(X0[k]); });
    if (!isTransformed(specs[i].config))
      vrt::expect(X0[k] == P0[i], "wrapper.passthrough", string(configName(specs[i].config)) + ":initial", [&] { return specs[i].text() + ": coordinate of the untransformed parameter after wrapping is " + str(X0[k]); });
  }
  for (double x : X0) if (!std::isfinite(x)) return;

  // helper: one update through the wrapper and all the per-update clauses
  auto nameOf = [&](size_t k) { return fullName(taken[k]); };          // the parameter's name: the function's, with its namespace
  auto shortOf = [&](size_t k) { return "p" + str(taken[k]); };        // the same without the namespace
  vector<double> X = X0;            // current transformed coordinates (model)
  vector<double> expectedF = P0;    // function parameters we expect to see for parameters not (yet) updated
  // the wrapper's k-th parameter (its name was checked above and is re-checked at every copy); by position, so that nothing is
  // assumed about how a wrapper in a namespace wants its parameters to be named in parameter()
  auto tparam = [&](size_t k) -> const TransformedParameter& { return dynamic_cast<const TransformedParameter&>((*wpp)[k]); };
  string cp = nsCls;                // class suffix of the per-update clauses: the function lives in a namespace; (later) the wrapper under test is a copy
  if (!ns.empty()) vrt::cover(string("namespace:") + wname + (subsetCtor ? ":selection" : ":all-parameters"));

  auto update = [&](const vector<size_t>& which, const vector<double>& vals, bool viaF, const string& what) -> bool {
      ParameterList pl;
      string txt;
      for (size_t t = 0; t < which.size(); ++t)
      {
        Parameter p((*wpp)[which[t]]);
        p.setValue(vals[t]);
        pl.addParameter(p);
        txt += (t ? "," : "") + nameOf(which[t]) + "=" + str(vals[t]);
      }
      vrt::step(string(viaF ? "f(" : "setParameters(") + txt + ")");
      double ret = 0;
      vrt::Outcome o = vrt::capture([&] {
          if (viaF) ret = W->f(pl);
          else { W->setParameters(pl); ret = W->getValue(); }
        });
      // class: configuration of the (first) parameter whose coordinate is extreme, else first updated
      string cls = configName(specs[taken[which[0]]].config);
      if (!o.returned())
      {
        // find the culprit: a parameter whose back-transformed value is infeasible or not finite
        for (size_t t = 0; t < which.size(); ++t)
        {
          double ov = tparam(which[t]).getOriginalValue();
          if (!specs[taken[which[t]]].feasible(ov)) { cls = string(configName(specs[taken[which[t]]].config)) + (vals[t] < 0 ? ":negative-coordinate" : ":positive-coordinate"); break; }
        }
      }
      if (!vrt::expect(o.returned(), "wrapper.accepts-any-real-point", cls + cp, [&] { return cfgs + ": " + what + " " + txt + " " + o.text(); }))
        return false;
      if (!ns.empty()) vrt::counted("wrapper.namespaced-function-updates");
      for (size_t t = 0; t < which.size(); ++t) X[which[t]] = vals[t];
      // the wrapper's own coordinates hold what was set
      for (size_t k = 0; k < taken.size(); ++k)
        vrt::expect((*wpp)[k].getValue() == X[k], "wrapper.coordinates-kept", wname + cp, [&] { return cfgs + ": after " + txt + " wrapper coordinate " + nameOf(k) + " is " + str((*wpp)[k].getValue()) + " expected " + str(X[k]); });
      // function parameters: updated ones = back-transformed coordinate; the others keep their value
      vector<double> now = F->point();
      for (size_t t = 0; t < which.size(); ++t)
      {
        size_t k = which[t], i = taken[k];
        double ov = tparam(k).getOriginalValue();
        string cc = configName(specs[i].config);
        vrt::expect(vrt::sameDouble(now[i], ov), "wrapper.function-at-backtransformed-point", cc + cp, [&] {
              return cfgs + ": after " + txt + " function parameter p" + str(i) + "=" + str(now[i]) + " but the back-transformed coordinate is " + str(ov);
            });
        string side = fabs(vals[t]) >= 18 ? (vals[t] < 0 ? ":far-negative" : ":far-positive") : "";
        vrt::cover("update:" + cc + side);
        if (!ns.empty()) vrt::cover("update:namespaced-function:" + cc);
        vrt::expect(specs[i].feasible(now[i]), "wrapper.backtransformed-feasible", cc + side + cp, [&] {
              return cfgs + ": after " + txt + " function parameter p" + str(i) + "=" + str(now[i]) + " violates " + specs[i].text();
            });
        if (!isTransformed(specs[i].config))
          vrt::expect(now[i] == vals[t], "wrapper.passthrough", cc + cp, [&] { return cfgs + ": after " + txt + " untransformed parameter p" + str(i) + "=" + str(now[i]); });
        expectedF[i] = now[i];
      }
      // parameters the update did not name: untouched, or (equally faithful) re-set to the back-transformed value of their coordinate;
      // parameters the wrapper does not manage: untouched
      bool othersKept = true;
      for (size_t i = 0; i < n; ++i)
      {
        bool ok = vrt::sameDouble(now[i], expectedF[i]);
        for (size_t k = 0; !ok && k < taken.size(); ++k)
          if (taken[k] == i) ok = vrt::sameDouble(now[i], tparam(k).getOriginalValue());
        othersKept = othersKept && ok;
        expectedF[i] = now[i];
      }
      vrt::expect(othersKept, "wrapper.other-parameters-kept", wname + cp, [&] { return cfgs + ": after " + txt + " function parameters are " + pointStr(now) + " (neither the previous values nor the back-transformed coordinates)"; });
      // value
      double want = poly.eval(now);
      vrt::expect(vrt::sameDouble(ret, want) && vrt::sameDouble(W->getValue(), want), "wrapper.value", wname + cp, [&] {
            return cfgs + ": " + what + " " + txt + " returned " + str(ret) + " (getValue " + str(W->getValue()) + ") but the function at the back-transformed point " + pointStr(now) + " is " + str(want);
          });
      return true;
    };

  vector<size_t> all(taken.size());
  for (size_t k = 0; k < all.size(); ++k) all[k] = k;

  // Derivation variables.  Without a namespace a variable has one name.  For a function in a namespace the library does not say
  // whether a wrapper wants the variable with or without the namespace: the name without it is tried first (what parameter() and
  // getParameterValue() of a Parametrizable take), the full name when the wrapper refuses that one; only a refusal of both is judged.
  auto withVariables = [&](size_t k, size_t l, const function<void(const string&, const string&)>& call) -> vrt::Outcome {
      vrt::Outcome o = vrt::capture([&] { call(shortOf(k), shortOf(l)); });
      if (o.returned() || ns.empty()) return o;
      vrt::Outcome o2 = vrt::capture([&] { call(nameOf(k), nameOf(l)); });
      return o2.returned() ? o2 : o;
    };

  // ---- replacing the wrapper by a copy of itself (clone through the base class, copy constructor of its own class,
  //      assignment onto a wrapper of its class built around another function).  A copy of a reparametrised function is a
  //      reparametrised function of the same original function at the same transformed point: it has the same parameters
  //      at the same coordinates, and every clause of `update` applies to it for the rest of the history.
  bool nonPrefix = false; // the wrapper's parameters are not the leading parameters of the function in the function's order
  for (size_t k = 0; k < taken.size(); ++k) nonPrefix = nonPrefix || taken[k] != k;
  const string shape = !subsetCtor ? "all-parameters" : nonPrefix ? "selection-not-a-prefix" : "selection-prefix";
  vector<shared_ptr<void>> keepAlive; // originals / assignment targets' functions that stay alive next to the copy
  auto replaceByCopy = [&](int route) -> bool {
      const string rn = routeName[route];
      vrt::step("the wrapper is replaced by a copy of itself (" + rn + ")");
      const vector<double> before = F->point();
      shared_ptr<ReparametrizationFunctionWrapper> nW;
      shared_ptr<ReparametrizationDerivableFirstOrderWrapper> nW1;
      shared_ptr<ReparametrizationDerivableSecondOrderWrapper> nW2;
      bool targetBuilt = true;
      vrt::Outcome o = vrt::capture([&] {
          if (route == 1)
          {
            nW.reset(W->clone()); // through the base class, as a polymorphic client does
            nW1 = dynamic_pointer_cast<ReparametrizationDerivableFirstOrderWrapper>(nW);
            nW2 = dynamic_pointer_cast<ReparametrizationDerivableSecondOrderWrapper>(nW);
          }
          else if (route == 2)
          {
            if (W2) { nW2 = make_shared<ReparametrizationDerivableSecondOrderWrapper>(*W2); nW1 = nW2; nW = nW2; }
            else if (W1) { nW1 = make_shared<ReparametrizationDerivableFirstOrderWrapper>(*W1); nW = nW1; }
            else nW = make_shared<ReparametrizationFunctionWrapper>(*W);
          }
          else
          {
            // a wrapper of the same class around another function (same parameter names, other constraints / values / count)
            size_t n2 = 1 + aux.below(5);
            vector<Spec> specs2;
            for (size_t i = 0; i < n2; ++i) specs2.push_back(drawSpec(aux, static_cast<int>(aux.below(NCONFIG))));
            Poly poly2 = drawPoly(aux, specs2);
            shared_ptr<PolyFunction> G;
            ParameterList sel2;
            bool sub2 = aux.chance(0.5);
            targetBuilt = false;
            try
            {
              // ... in the same namespace or in another one (assignment replaces the target's whole state, names included)
              G = make_shared<PolyFunction>(poly2, specs2, aux2.chance(0.5) ? ns : aux2.chance(0.5) ? drawNamespace(aux2) : string());
              for (size_t i = n2; i-- > 0;) if (aux.chance(0.5)) sel2.addParameter(G->getParameters()[i]);
              if (W2) { nW2 = sub2 ? make_shared<ReparametrizationDerivableSecondOrderWrapper>(G, sel2, false) : make_shared<ReparametrizationDerivableSecondOrderWrapper>(G, false); nW1 = nW2; nW = nW2; }
              else if (W1) { nW1 = sub2 ? make_shared<ReparametrizationDerivableFirstOrderWrapper>(G, sel2, false) : make_shared<ReparametrizationDerivableFirstOrderWrapper>(G, false); nW = nW1; }
              else nW = sub2 ? make_shared<ReparametrizationFunctionWrapper>(G, sel2, false) : make_shared<ReparametrizationFunctionWrapper>(G, false);
              targetBuilt = true;
            }
            catch (...) {} // building the assignment target is judged by the construction clauses of its own cases, not here
            if (targetBuilt)
            {
              if (aux.chance(0.5)) keepAlive.push_back(G);
              if (W2) *nW2 = *W2;
              else if (W1) *nW1 = *W1;
              else *nW = *W;
            }
          }
        });
      if (!targetBuilt) { vrt::counted("harness.assignment-target-construction-refused"); return true; } // carry on with the wrapper as it is
      if (!vrt::expect(o.returned() && nW, "wrapper.copy", rn, [&] { return cfgs + ": " + rn + " of the wrapper " + o.text(); })) return false;
      vrt::cover("copy:" + rn + ":" + wname + ":" + shape);
      // same class
      if (!vrt::expect((W1 != nullptr) == (nW1 != nullptr) && (W2 != nullptr) == (nW2 != nullptr), "wrapper.copy-keeps-class", rn + ":" + wname, [&] {
              return cfgs + ": the " + rn + " of a " + wname + " is a " + vrt::typeName(typeid(*nW));
            })) return false;
      // same parameters at the same transformed coordinates
      const ParameterList& np = nW->getParameters();
      bool same = np.size() == taken.size();
      for (size_t k = 0; same && k < taken.size(); ++k)
        same = np[k].getName() == nameOf(k) && vrt::sameDouble(np[k].getValue(), X[k]) && dynamic_cast<const TransformedParameter*>(&np[k]) != nullptr;
      if (!vrt::expect(same, "wrapper.copy-keeps-coordinates", rn, [&] {
              string got;
              for (size_t k = 0; k < np.size(); ++k) got += (k ? "," : "") + np[k].getName() + "=" + str(np[k].getValue());
              string exp;
              for (size_t k = 0; k < taken.size(); ++k) exp += (k ? "," : "") + nameOf(k) + "=" + str(X[k]);
              return cfgs + ": the " + rn + " has the transformed parameters " + got + ", the wrapper it was copied from " + exp;
            })) return false;
      // copying does not move the function away from the back-transformed point (untouched, or re-set to the back-transformed coordinates)
      vector<double> now = F->point();
      bool kept = true;
      for (size_t i = 0; i < n; ++i)
      {
        bool ok = vrt::sameDouble(now[i], before[i]);
        for (size_t k = 0; !ok && k < taken.size(); ++k)
          if (taken[k] == i) ok = vrt::sameDouble(now[i], dynamic_cast<const TransformedParameter&>(np[k]).getOriginalValue());
        kept = kept && ok;
        expectedF[i] = now[i];
      }
      vrt::expect(kept, "wrapper.other-parameters-kept", string(wname) + ":" + rn, [&] { return cfgs + ": the function's parameters were " + pointStr(before) + " and are " + pointStr(now) + " after the " + rn + " of its wrapper"; });
      vrt::expect(vrt::sameDouble(nW->getValue(), poly.eval(now)), "wrapper.value", string(wname) + ":" + rn, [&] {
            return cfgs + ": value of the " + rn + " " + str(nW->getValue()) + " but the function at its parameters " + pointStr(now) + " is " + str(poly.eval(now));
          });
      if (aux.chance(0.5)) keepAlive.push_back(W); // else the original dies here: the copy must not depend on it
      W = nW;
      W1 = nW1;
      W2 = nW2;
      wpp = &W->getParameters();
      cp = nsCls + ":copied-wrapper";
      return true;
    };
  auto stage = [&](int s) -> bool { return copyPlan[s] == 0 || replaceByCopy(copyPlan[s]); };
  if (!stage(0)) return;

  // ---- going away and coming back to the initial coordinates returns the initial values (to rounding; a value
  //      that sat on a closed bound may have been moved inside by the documented 1e-12)
  {
    vector<double> away(taken.size());
    for (size_t k = 0; k < taken.size(); ++k) away[k] = X0[k] + (rng.chance(0.5) ? 1.0 : -1.0) * rng.real(0.5, 2);
    if (!update(all, away, true, "f")) return;
    if (!update(all, X0, rng.chance(0.5), "back to the initial coordinates")) return;
    vector<double> now = F->point();
    for (size_t k = 0; k < taken.size(); ++k)
    {
      size_t i = taken[k];
      double tol = 64 * EPS * max(specs[i].mag(), fabs(P0[i])) + 2.5e-12;
      string cls = string(configName(specs[i].config)) + (atBound(i) ? ":value-at-bound" : "");
      vrt::expect(fabs(now[i] - P0[i]) <= tol, "wrapper.roundtrip", cls + cp, [&] {
            return specs[i].text() + ": wrapped at " + str(P0[i]) + " (coordinate " + str(X0[k]) + "), evaluating at that coordinate gives the function " + str(now[i]) + " (error " + str(now[i] - P0[i]) + ", tolerance " + str(tol) + ")";
          });
    }
  }

  if (!stage(1)) return;

  // ---- evaluation points
  size_t nPoints = 6;
  for (size_t pt = 0; pt < nPoints; ++pt)
  {
    if (pt == 3 && !stage(2)) return;
    vector<size_t> which = all;
    bool subset = taken.size() >= 2 && rng.chance(0.3);
    if (subset)
    {
      rng.shuffle(which);
      which.resize(1 + rng.below(taken.size() - 1));
    }
    else if (rng.chance(0.5)) rng.shuffle(which);
    vector<double> vals(which.size());
    for (size_t t = 0; t < which.size(); ++t) vals[t] = drawCoordinate(rng);
    if (!update(which, vals, rng.chance(0.6), subset ? "subset update" : "update")) return;

    // ---- chain rule at this point
    if (!W1) continue;
    vector<double> now = F->point();
    const double h = 0.02;
    vector<FD> fds(taken.size());
    vector<bool> usable(taken.size(), true);
    for (size_t k = 0; k < taken.size(); ++k)
    {
      size_t i = taken[k];
      if (isHalfLine(specs[i].config) && fabs(X[k]) <= 1.01 * h) { usable[k] = false; continue; } // the two pieces of the half-line map meet at 0
      if (fabs(X[k]) > 30) { usable[k] = false; continue; } // a coordinate assigned at wrapping that was not updated yet: outside the stated range
      unique_ptr<TransformedParameter> probe(tparam(k).clone());
      auto g = [&](double x) { probe->setValue(x); return probe->getOriginalValue(); };
      fds[k] = fdiff(g, X[k], h, specs[i].mag());
    }
    for (size_t k = 0; k < taken.size(); ++k)
    {
      if (!usable[k]) { vrt::counted("wrapper.chain-rule-at-junction-unjudged"); continue; }
      size_t i = taken[k];
      string cc = configName(specs[i].config);
      double Fi = poly.d1(now, i), Fii = poly.d2(now, i, i);
      vrt::Outcome o;
      double got1 = 0;
      o = withVariables(k, k, [&](const string& v, const string&) { got1 = W1->getFirstOrderDerivative(v); });
      if (vrt::expect(o.returned(), "wrapper.chain-rule-1", cc + ":raised" + cp, [&] { return cfgs + ": getFirstOrderDerivative(" + nameOf(k) + ") " + o.text(); }))
      {
        double want = Fi * fds[k].d1;
        double allow = fabs(Fi) * fds[k].r1;
        vrt::cover("chain1:" + cc);
        vrt::expect(agrees(got1, want, allow), "wrapper.chain-rule-1", cc + cp, [&] {
              return cfgs + ": at coordinates " + pointStr(X) + " d/d" + nameOf(k) + " = " + str(got1) + " expected dF/dp=" + str(Fi) + " times dp/dx=" + str(fds[k].d1) + " = " + str(want) + " (allowance " + str(allow) + ")";
            });
        if (!isTransformed(specs[i].config))
          vrt::expect(got1 == Fi, "wrapper.passthrough-derivative", cc + ":first" + cp, [&] { return cfgs + ": untransformed " + nameOf(k) + " first derivative " + str(got1) + " function's " + str(Fi); });
      }
      if (!W2) continue;
      double got2 = 0;
      o = withVariables(k, k, [&](const string& v, const string&) { got2 = W2->getSecondOrderDerivative(v); });
      if (vrt::expect(o.returned(), "wrapper.chain-rule-2", cc + ":raised" + cp, [&] { return cfgs + ": getSecondOrderDerivative(" + nameOf(k) + ") " + o.text(); }))
      {
        double want = Fii * fds[k].d1 * fds[k].d1 + Fi * fds[k].d2;
        double allow = 2 * fabs(Fii * fds[k].d1) * fds[k].r1 + fabs(Fi) * fds[k].r2 + RELTOL * (fabs(Fii * fds[k].d1 * fds[k].d1) + fabs(Fi * fds[k].d2));
        vrt::cover("chain2:" + cc);
        vrt::expect(agrees(got2, want, allow), "wrapper.chain-rule-2", cc + cp, [&] {
              return cfgs + ": at coordinates " + pointStr(X) + " d2/d" + nameOf(k) + "2 = " + str(got2) + " expected F''=" + str(Fii) + " * (p')^2 with p'=" + str(fds[k].d1) + " + F'=" + str(Fi) + " * p''=" + str(fds[k].d2) + " = " + str(want) + " (allowance " + str(allow) + ")";
            });
        if (!isTransformed(specs[i].config))
          vrt::expect(got2 == Fii, "wrapper.passthrough-derivative", cc + ":second" + cp, [&] { return cfgs + ": untransformed " + nameOf(k) + " second derivative " + str(got2) + " function's " + str(Fii); });
      }
      for (size_t l = 0; l < taken.size(); ++l)
      {
        if (l == k || !usable[l]) continue;
        size_t j = taken[l];
        double Fij = poly.d2(now, i, j);
        double gotx = 0;
        o = withVariables(k, l, [&](const string& v1, const string& v2) { gotx = W2->getSecondOrderDerivative(v1, v2); });
        if (!vrt::expect(o.returned(), "wrapper.chain-rule-cross", cc + ":raised" + cp, [&] { return cfgs + ": getSecondOrderDerivative(" + nameOf(k) + "," + nameOf(l) + ") " + o.text(); })) continue;
        double want = Fij * fds[k].d1 * fds[l].d1;
        double allow = fabs(Fij) * (fabs(fds[k].d1) * fds[l].r1 + fabs(fds[l].d1) * fds[k].r1 + fds[k].r1 * fds[l].r1) + RELTOL * fabs(want);
        vrt::cover(string("chainx:") + cc);
        vrt::expect(agrees(gotx, want, allow), "wrapper.chain-rule-cross", cc + cp, [&] {
              return cfgs + ": at coordinates " + pointStr(X) + " d2/d" + nameOf(k) + "d" + nameOf(l) + " = " + str(gotx) + " expected " + str(Fij) + " * " + str(fds[k].d1) + " * " + str(fds[l].d1) + " = " + str(want) + " (allowance " + str(allow) + ")";
            });
      }
    }
  }

  if (!stage(3)) return;

  // ---- one coordinate swept over a sorted grid: the function's parameter moves monotonically, in one direction
  {
    size_t k = rng.below(taken.size()), i = taken[k];
    vector<double> grid = { -30, -22, -14, -8, -4, -2, -1, -0.3, 0, 0.3, 1, 2, 4, 8, 14, 22, 30 };
    vector<double> seen;
    for (double x : grid)
    {
      if (!update(vector<size_t>(1, k), vector<double>(1, x), true, "sweep")) return;
      seen.push_back(F->point()[i]);
    }
    int dir = 0;
    double slack = 8 * EPS * max(specs[i].mag(), 40.0);
    string cc = configName(specs[i].config);
    for (size_t t = 0; t + 1 < seen.size(); ++t)
    {
      double d = seen[t + 1] - seen[t];
      int s = d > slack ? 1 : d < -slack ? -1 : 0;
      bool ok = s == 0 || dir == 0 || s == dir;
      if (dir == 0) dir = s;
      vrt::expect(ok, "wrapper.monotone", cc + cp, [&] {
            return specs[i].text() + ": coordinates " + str(grid[t]) + " < " + str(grid[t + 1]) + " give the function " + str(seen[t]) + " and " + str(seen[t + 1]) + " against the direction seen before";
          });
    }
    // unsaturated part strictly
    bool inc = true, dec = true;
    for (size_t t = 4; t + 1 <= 12; ++t) { inc = inc && seen[t + 1] > seen[t]; dec = dec && seen[t + 1] < seen[t]; }
    vrt::expect(inc || dec, "wrapper.monotone", cc + ":strict-centre" + cp, [&] { return specs[i].text() + ": coordinates -4..4 give the function " + pointStr(vector<double>(seen.begin() + 4, seen.begin() + 13)); });
  }
}

// ================================================================================================
// Group "wrap-sweep": one configuration, sorted initial values, a fresh wrapper for each: the coordinate assigned at
// wrapping is strictly monotone in the value and evaluating at it gives the value back
// ================================================================================================
void caseWrapSweep(vrt::Case& c)
{
  vrt::Rng& rng = c.rng;
  int cfg = static_cast<int>(c.index % 8);
  Spec base = drawSpec(rng, cfg);
  vector<double> values;
  for (int i = 0; i < 12; ++i)
  {
    if (isFiniteInterval(cfg)) values.push_back(drawInterior(rng, base.a, base.b));
    else values.push_back(drawHalfLine(rng, std::isfinite(base.a) ? base.a : base.b, std::isfinite(base.a)));
  }
  if (isFiniteInterval(cfg) && base.b - base.a > 1e-6) { values.push_back(base.a + 1e-9); values.push_back(base.b - 1e-9); }
  if (base.lowerClosed() && std::isfinite(base.a)) values.push_back(base.a);
  if (base.upperClosed() && std::isfinite(base.b)) values.push_back(base.b);
  sort(values.begin(), values.end());
  {
    vector<double> v2;
    for (double v : values)
    {
      // a value on a closed bound is moved inside by 1e-12 at wrapping: keep the next value clear of that
      double sep = 256 * EPS * max(base.mag(), fabs(v)) + 4e-12;
      if (v2.empty() || v - v2.back() > sep) v2.push_back(v);
    }
    values.swap(v2);
  }
  string cc = configName(cfg);
  // every third block of eight cases: the functions live in a parameter namespace (own stream: the values above are unchanged)
  string ns;
  if ((c.index / 8) % 3 == 2)
  {
    vrt::Rng aux2(vrt::mix(vrt::mix(c.seed, vrt::hashStr("C11/wrap-sweep/namespace")), c.index));
    ns = drawNamespace(aux2);
    vrt::cover("wrap-sweep:namespaced-function:" + cc);
  }
  vrt::describe(cc, base.text() + " wrapped at " + str(values.size()) + " sorted values" + (ns.empty() ? "" : " ; functions in parameter namespace '" + ns + "'"));
  vector<double> xs;
  for (double v : values)
  {
    Spec s = base;
    s.value = v;
    vector<Spec> specs(1, s);
    Poly poly = drawPoly(rng, specs);
    shared_ptr<PolyFunction> F;
    vrt::Outcome o0 = vrt::capture([&] { F = make_shared<PolyFunction>(poly, specs, ns); });
    if (!o0.returned()) { vrt::counted("harness.function-construction-refused"); return; }
    shared_ptr<ReparametrizationFunctionWrapper> W;
    vrt::Outcome o = vrt::capture([&] { W = make_shared<ReparametrizationFunctionWrapper>(F, false); });
    bool bound = (v == base.a || v == base.b);
    string cls = cc + (bound ? ":value-at-bound" : "");
    if (!vrt::expect(o.returned(), "wrapper.construct", cls, [&] { return s.text() + ": wrapping " + o.text(); })) return;
    double x = W->getParameters()[0].getValue();
    if (!vrt::expect(std::isfinite(x), "wrapper.initial-coordinate-finite", cls, [&] { return s.text() + ": transformed coordinate after wrapping is " + str(x); })) return;
    xs.push_back(x);
    vrt::cover("wrap-sweep:" + cls);
    // evaluate at a nearby coordinate, then at the initial coordinate
    ParameterList pl = W->getParameters();
    pl[0].setValue(x + 0.75);
    vrt::Outcome o1 = vrt::capture([&] { W->f(pl); });
    pl[0].setValue(x);
    vrt::Outcome o2 = vrt::capture([&] { W->f(pl); });
    if (!vrt::expect(o1.returned() && o2.returned(), "wrapper.accepts-any-real-point", cc, [&] { return s.text() + ": f at " + str(x + 0.75) + " " + o1.text() + ", f at " + str(x) + " " + o2.text(); })) return;
    double back = F->point()[0];
    double tol = 64 * EPS * max(base.mag(), fabs(v)) + 2.5e-12;
    vrt::expect(fabs(back - v) <= tol, "wrapper.roundtrip", cls, [&] {
          return s.text() + ": coordinate " + str(x) + " evaluates the function at " + str(back) + " (error " + str(back - v) + ", tolerance " + str(tol) + ")";
        });
    vrt::expect(s.feasible(back), "wrapper.backtransformed-feasible", cls, [&] { return s.text() + ": coordinate " + str(x) + " evaluates the function at " + str(back); });
  }
  int dir = 0;
  for (size_t i = 0; i + 1 < xs.size(); ++i)
  {
    int d = xs[i + 1] > xs[i] ? 1 : xs[i + 1] < xs[i] ? -1 : 0;
    bool ok = d != 0 && (dir == 0 || d == dir);
    if (dir == 0 && d != 0) dir = d;
    vrt::expect(ok, "wrapper.strictly-monotone", cc + (d == 0 ? ":equal" : ":reversed"), [&] {
          return base.text() + ": values " + str(values[i]) + " < " + str(values[i + 1]) + " are wrapped at coordinates " + str(xs[i]) + " and " + str(xs[i + 1]);
        });
  }
}
} // namespace

int main(int argc, char** argv)
{
  vector<vrt::Group> groups = {
    { "transform", 21600, 1080000, caseTransform, 1800, false },
    { "wrapper", 16000, 800000, caseWrapper, 1800, false },
    { "wrap-sweep", 4800, 160000, caseWrapSweep, 1800, false },
  };
  vrt::Meta meta;
  meta.rule = "transform: one transform object per case (index mod 9: 3x interval-hyperbolic, 3x interval-tangent, half-line positive, half-line negative, mixed), bounds over "
      "[-1e3,1e3] (30% round numbers), widths 1e-3..2e3, interval scales 0.1..10 (unit scale for half lines), ~20 sorted original values inside the interval down to 1e-9 from "
      "a bound (half lines: log part, junction at one unit, linear part up to 1e6), derivative checks at the images of those values and at 16 further coordinates in [-30,30]. "
      "wrapper: polynomial test double with 1..5 parameters; the first parameter cycles through the eight bound configurations, 'unconstrained' and 'non-interval constraint', the others are "
      "drawn at random; the three wrapper classes and both constructors; 8 updates through f()/setParameters (full, reordered, subsets) at coordinates in [-30,30] (extremes, 0, "
      "near 0 included) plus a 17 point sweep of one coordinate; a selection given to the second constructor is in another order than the function's in half of those cases; "
      "at each of four stages of the history (after wrapping, after the come-back, after the third point, before the sweep) the wrapper is replaced with probability 0.15 by a copy of itself "
      "(clone() through the base class, copy constructor, assignment onto a wrapper of the same class built around another function) and the history goes on through the copy "
      "(decisions from a separate stream, the histories themselves are unchanged); in 35% of the cases (third stream) the wrapped function lives in a non-empty parameter namespace "
      "(its parameters are called model.p0, a.b_p1, pp0 ...; per-update classes then carry ':namespaced-function'), and the foreign name of a selection may then be a parameter's name without the namespace. wrap-sweep: one configuration, sorted initial values, a fresh wrapper each (every third block of eight cases: functions in a namespace). "
      "A class key = (transform kind or bound configuration, region: near-lower/near-upper/interior, log/linear part, centre/tail, value-at-bound, far-negative/far-positive coordinate, "
      "which derivative); every key involves a real conversion or wrapper update.";
  meta.assumptions = {
    "original values at distance >= 1e-9 from an open bound (closed bounds: the bound itself included); transformed coordinates in [-30,30]; half-line transforms at unit scale",
    "round trip tolerance 64 ulp of max(|bounds|, width, |value|) (the maps lose absolute, not relative, accuracy next to a bound) plus 2.5e-12 at wrapper level (documented 1e-12 nudges of bounds/values)",
    "strict monotonicity is demanded only of inputs separated by more than 256 ulp of that magnitude; the inverse map is required weakly monotone (it saturates) and strictly monotone over -4s..4s",
    "derivatives: central differences of the map itself with one Richardson step, h = 0.02*scale, relative tolerance 1e-6 plus a rounding allowance 64 eps*magnitude/h (512 eps*magnitude/h^2 for second differences); "
    "no finite difference is taken across the junction of the two pieces of a half-line map (coordinate within 0.0202 of 0)",
    "the wrapper is driven through f() and setParameters() (the update entry points it defines); the chain rule is judged against F'(p) and numerical derivatives of the map the wrapped function actually sees, not against a formula",
    "an interval constraint with two infinite bounds is outside the eight configurations and is not generated",
    "the original function may live in any parameter namespace (prefix of its parameter names); the wrapper's parameters carry the function's full parameter names, as without a namespace; "
    "a derivation variable of a wrapper around a namespaced function is named without the namespace, or with it if the wrapper refuses that (the test double understands both); "
    "the wrapper's transformed parameters are read by position, never through parameter(name)",
    "a copy (clone, copy constructor, assignment) of a wrapper is a reparametrised function of the same original function at the same transformed point: same parameter names and "
    "coordinates, and every per-update clause applies to it; the original is not used any more once it has been copied (both share the function); the order of the wrapper's parameters "
    "for a selection given in another order than the function's is not documented, any order is accepted",
  };
  meta.requiredClauses = { "transform.roundtrip", "transform.strictly-monotone", "transform.derivative1", "transform.derivative2", "transform.inverse-monotone",
                           "wrapper.untouched-after-wrapping", "wrapper.accepts-any-real-point", "wrapper.function-at-backtransformed-point", "wrapper.backtransformed-feasible",
                           "wrapper.value", "wrapper.chain-rule-1", "wrapper.chain-rule-2", "wrapper.chain-rule-cross", "wrapper.passthrough", "wrapper.passthrough-derivative",
                           "wrapper.roundtrip", "wrapper.strictly-monotone", "wrapper.monotone", "wrapper.copy-keeps-coordinates",
                           "wrapper.namespaced-function-updates" };
  return vrt::run(argc, argv, "C11", groups, meta);
}
