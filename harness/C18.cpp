// C18 - Random draws follow the named law, keep structural constraints, are reproducible.
//
// Oracles
//  * reproducibility: the same program of sampler calls is run twice after RandomTools::setSeed(s); the two
//    recorded streams must be bitwise identical (run seed + 15 derived seeds).
//  * law of continuous draws: Kolmogorov-Smirnov distance between the empirical cdf of N draws and the
//    library's OWN cumulative function with the same parameters; threshold from the Dvoretzky-Kiefer-Wolfowitz-
//    Massart inequality  P(D_N > e) <= 2 exp(-2 N e^2)  at DELTA per comparison (+ a fixed slack for the
//    approximation error of the library's cdf/quantile code, which belongs to another property).
//  * law of discrete draws: per-category frequency within the Bernstein bound at DELTA per comparison;
//    a category of probability zero must never be drawn.
//  * exact clauses on every draw: sampling without replacement -> distinct elements of the source (a permutation
//    when sizes match), over-long request refused; with replacement -> only source elements; emptiness raises a
//    library exception; rcont2 tables have exactly the requested margins; the test's p-value lies in [0,1].
// All thresholds are fixed functions of (N, DELTA): nothing is tuned to observed output.
#include "vrt.h"

#include <Bpp/Numeric/Random/RandomTools.h>
#include <Bpp/Numeric/Random/ContingencyTableGenerator.h>
#include <Bpp/Numeric/Stat/ContingencyTableTest.h>
#include <Bpp/Numeric/Prob/GammaDiscreteDistribution.h>
#include <Bpp/Numeric/Prob/BetaDiscreteDistribution.h>
#include <Bpp/Numeric/Prob/GaussianDiscreteDistribution.h>
#include <Bpp/Numeric/Prob/ExponentialDiscreteDistribution.h>
#include <Bpp/Numeric/Prob/TruncatedExponentialDiscreteDistribution.h>
#include <Bpp/Numeric/Prob/UniformDiscreteDistribution.h>
#include <Bpp/Numeric/Prob/SimpleDiscreteDistribution.h>
#include <Bpp/Numeric/Prob/ConstantDistribution.h>
#include <Bpp/Numeric/Prob/InvariantMixedDiscreteDistribution.h>
#include <Bpp/Numeric/Prob/MixtureOfDiscreteDistributions.h>
#include <Bpp/Numeric/Prob/DirichletDiscreteDistribution.h>
#include <Bpp/Numeric/Hmm/FullHmmTransitionMatrix.h>
#include <Bpp/Numeric/Hmm/AutoCorrelationTransitionMatrix.h>
#include <Bpp/Numeric/Hmm/HmmStateAlphabet.h>
#include <Bpp/Numeric/AbstractParametrizable.h>
#include <Bpp/Numeric/Constraints.h>

#include <algorithm>
#include <cmath>
#include <cstring>
#include <functional>
#include <map>
#include <memory>
#include <numeric>
#include <set>
#include <iterator>
#include <string>

using namespace bpp;
using namespace std;
using vrt::str;

namespace
{
typedef vrt::u64 u64;
typedef unsigned int u32;

// ------------------------------------------------------------------ statistical thresholds
// Error probability per statistical comparison.  The harness makes about 1.3e4 (quick) / 4e5 (thorough) such
// comparisons per run (tallied as "stat-comparisons"), so a run raises a false alarm with probability < 1e-6.
const double DELTA = 1e-13;
const double LOG2D = 30.626796; // ln(2/DELTA), rounded up
// Allowance for the approximation error of the library's own cdf / quantile routines (incompleteGamma is
// accurate to ~1e-8, the PAML beta quantile to ~1e-6); a convention error moves the cdf by > 0.05.
const double CDF_SLACK = 2e-3;

double ksThreshold(size_t n) { return std::sqrt(LOG2D / (2.0 * static_cast<double>(n))) + CDF_SLACK; }

// Bernstein: P(|K/n - p| >= t) <= 2 exp(-n t^2 / (2 (p(1-p) + t/3)));  solved for t at DELTA.
double freqBound(size_t n, double p)
{
  double a = LOG2D / (3.0 * static_cast<double>(n));
  double v = p * (1 - p);
  if (v < 0) v = 0;
  return a + std::sqrt(a * a + 2 * v * LOG2D / static_cast<double>(n)) + 1e-9;
}

u32 libSeed(vrt::Case& c) { return static_cast<u32>(c.rng.next() >> 32); }

u64 bitsOf(double x)
{
  u64 b;
  std::memcpy(&b, &x, sizeof b);
  return b;
}

// parameter values 0.1..20, never in (0.8,1.25): at 1 mean and rate, variance and deviation coincide
double gridParam(vrt::Rng& r)
{
  static const double G[] = { 0.1, 0.2, 0.3, 0.5, 0.7, 1.5, 2, 3, 5, 8, 12, 20 };
  if (r.chance(0.5)) return G[r.below(sizeof(G) / sizeof(G[0]))];
  for (;;)
  {
    double v = r.logReal(0.1, 20);
    if (v < 0.8 || v > 1.25) return v;
  }
}

struct Moments
{
  double mean, var, mn, mx;
};
Moments momentsOf(const vector<double>& x)
{
  Moments m{ 0, 0, 0, 0 };
  if (x.empty()) return m;
  long double s = 0, s2 = 0;
  m.mn = m.mx = x[0];
  for (double v : x) { s += v; m.mn = min(m.mn, v); m.mx = max(m.mx, v); }
  m.mean = static_cast<double>(s / x.size());
  for (double v : x) s2 += (v - m.mean) * (v - m.mean);
  m.var = static_cast<double>(s2 / x.size());
  return m;
}

// KS distance of the sorted sample xs against F; cdf values outside [0,1] by more than 1e-6 (or NaN) are counted in bad.
// A returned double stands for a real draw within a few ulps of it (a shifted sampler absorbs draws much smaller than
// the shift: offset + 1e-20 == offset), so the empirical cdf at x is compared with F(x + r) from below and F(x - r)
// from above, r = 4 ulp(x) (+ the denormal floor).  For r = 0 this is the usual two-sided statistic.
template<class Cdf> double ksDistance(const vector<double>& xs, Cdf F, double& where, size_t& bad)
{
  double D = 0, n = static_cast<double>(xs.size());
  where = xs.empty() ? 0 : xs[0];
  for (size_t i = 0; i < xs.size(); ++i)
  {
    double r = 4 * std::numeric_limits<double>::epsilon() * std::fabs(xs[i]) + std::numeric_limits<double>::min();
    double fl = F(xs[i] - r), fu = F(xs[i] + r);
    if (!(fl >= -1e-6 && fl <= 1 + 1e-6 && fu >= -1e-6 && fu <= 1 + 1e-6))
    {
      // the radius may leave the support where the library's cdf reports an error: fall back to the point itself
      fl = fu = F(xs[i]);
      if (!(fl >= -1e-6 && fl <= 1 + 1e-6)) { ++bad; continue; }
    }
    double d = max(fl - static_cast<double>(i) / n, static_cast<double>(i + 1) / n - fu);
    if (d > D) { D = d; where = xs[i]; }
  }
  return D;
}

// Law of a continuous sampler.  `altF` (optional) is a second admissible reading of the law (see Beta: the class
// itself narrows its domain by 1e-20 at the ends): the draw is accepted when it matches either.
void judgeLaw(const string& api, const string& what, u32 seed, vector<double>& xs, double lo, double hi,
    const function<double(double)>& F, const function<double(double)>& altF = function<double(double)>())
{
  size_t n = xs.size();
  size_t off = 0;
  double firstOff = 0;
  for (double v : xs)
    if (!(std::isfinite(v) && v >= lo && v <= hi)) { if (!off) firstOff = v; ++off; }
  bool ok = vrt::expect(off == 0, "law.support", api, [&] {
        return what + " seed " + str(seed) + ": " + str(off) + " of " + str(n) + " draws are not finite or outside the support [" + str(lo) + "," + str(hi) + "], first " + str(firstOff);
      });
  if (!ok) return;
  sort(xs.begin(), xs.end());
  double where = 0, where2 = 0;
  size_t bad = 0, bad2 = 0;
  double D = ksDistance(xs, F, where, bad);
  if (bad)
  {
    // the library's cdf is unusable at points the sampler produced inside the support: a defect of the cdf (other property)
    vrt::tally("cdf-unusable:" + api);
    return;
  }
  double thr = ksThreshold(n);
  double Dalt = D;
  if (altF && D > thr)
  {
    Dalt = ksDistance(xs, altF, where2, bad2);
    if (bad2) Dalt = D;
  }
  vrt::tally("stat-comparisons");
  vrt::expect(min(D, Dalt) <= thr, "law.ks", api, [&] {
        Moments m = momentsOf(xs);
        return what + " seed " + str(seed) + " N=" + str(n) + ": Kolmogorov-Smirnov distance to the library's cdf with the same parameters = " + str(D)
        + " at x=" + str(where) + (altF ? " (alternative reading: " + str(Dalt) + ")" : "") + " > threshold " + str(thr)
        + "; sample mean " + str(m.mean) + " variance " + str(m.var) + " min " + str(m.mn) + " max " + str(m.mx);
      });
}

// Law of a discrete sampler: counts[i] of N draws against probability p[i].
void judgeFreq(const string& api, const string& what, u32 seed, const vector<size_t>& counts, const vector<double>& p, size_t N)
{
  size_t reported = 0;
  for (size_t i = 0; i < counts.size(); ++i)
  {
    double f = static_cast<double>(counts[i]) / static_cast<double>(N);
    vrt::tally("stat-comparisons");
    bool ok;
    if (p[i] == 0)
      ok = vrt::expect(counts[i] == 0, "freq.zero-weight-never-drawn", api, [&] {
            return what + " seed " + str(seed) + " N=" + str(N) + ": category " + str(i) + " has probability 0 but was drawn " + str(counts[i]) + " times";
          });
    else
    {
      double b = freqBound(N, p[i]);
      ok = vrt::expect(std::fabs(f - p[i]) <= b, "freq.bound", api, [&] {
            return what + " seed " + str(seed) + " N=" + str(N) + ": category " + str(i) + " frequency " + str(f) + " expected " + str(p[i]) + " +- " + str(b)
            + "; all expected " + vrt::vecStr(p) + " counts " + vrt::vecStr(counts);
          });
    }
    if (!ok && ++reported >= 2) break;
  }
}

vector<double> normalised(const vector<double>& w)
{
  long double s = 0;
  for (double x : w) s += x;
  vector<double> p(w.size());
  for (size_t i = 0; i < w.size(); ++i) p[i] = static_cast<double>(w[i] / s);
  return p;
}

// weight vector of length n, zeros included, at least one positive entry
vector<double> genWeights(vrt::Rng& r, size_t n, bool allowZero = true)
{
  vector<double> w(n, 0.0);
  if (n == 0) return w;
  int style = static_cast<int>(r.below(4));
  for (size_t i = 0; i < n; ++i)
  {
    if (allowZero && r.chance(0.25)) continue;
    w[i] = style == 0 ? 1.0 : style == 1 ? static_cast<double>(r.range(1, 9)) : r.logReal(0.05, 20);
  }
  bool any = false;
  for (double x : w) any |= x > 0;
  if (!any) w[r.below(n)] = r.logReal(0.05, 20);
  return w;
}
size_t positives(const vector<double>& w)
{
  size_t k = 0;
  for (double x : w) k += x > 0;
  return k;
}

// ------------------------------------------------------------------ test doubles / builders
class HState : public Clonable
{
public:
  size_t id;
  HState(size_t i = 0) : id(i) {}
  HState* clone() const override { return new HState(*this); }
};

class Alpha : public virtual HmmStateAlphabet, public AbstractParametrizable
{
  vector<HState> states_;

public:
  Alpha(size_t n) : AbstractParametrizable("a."), states_()
  {
    for (size_t i = 0; i < n; ++i) states_.push_back(HState(i));
  }
  Alpha* clone() const override { return new Alpha(*this); }
  const Clonable& getState(size_t i) const override { return states_[i]; }
  size_t getNumberOfStates() const override { return states_.size(); }
  bool worksWith(const HmmStateAlphabet& a) const override { return &a == this; }
};

// row-stochastic matrix with entries >= 0.02
RowMatrix<double> genStochastic(vrt::Rng& r, size_t n)
{
  RowMatrix<double> m(n, n);
  for (size_t i = 0; i < n; ++i)
  {
    vector<double> w(n);
    double s = 0;
    for (size_t j = 0; j < n; ++j) { w[j] = r.chance(0.3) ? r.real(0.02, 0.1) : r.real(0.1, 1); if (i == j && r.chance(0.4)) w[j] *= 5; s += w[j]; }
    for (size_t j = 0; j < n; ++j) m(i, j) = w[j] / s;
  }
  return m;
}

unique_ptr<HmmTransitionMatrix> genHmm(vrt::Rng& r, size_t n, bool full, string& text)
{
  auto alpha = make_shared<Alpha>(n);
  if (full)
  {
    auto t = make_unique<FullHmmTransitionMatrix>(alpha, "");
    RowMatrix<double> m = genStochastic(r, n);
    t->setTransitionProbabilities(m);
    text = "FullHmmTransitionMatrix(" + str(n) + " states) rows";
    for (size_t i = 0; i < n; ++i) text += " " + vrt::vecStr(m.row(i));
    return t;
  }
  auto t = make_unique<AutoCorrelationTransitionMatrix>(alpha, "");
  text = "AutoCorrelationTransitionMatrix(" + str(n) + " states) lambda";
  for (size_t i = 0; i < n; ++i)
  {
    double l = r.real(0.05, 0.95);
    t->setParameterValue("lambda" + str(i + 1), l);
    text += " " + str(l);
  }
  return t;
}

// ------------------------------------------------------------------ group seed-repro
// One fixed program of sampler calls; every produced value is appended bitwise together with the label of the call.
struct Stream
{
  vector<u64> v;
  vector<const char*> lab;
  void put(const char* l, u64 x) { v.push_back(x); lab.push_back(l); }
  void put(const char* l, double x) { put(l, bitsOf(x)); }
};

struct ReproObjects
{
  GammaDiscreteDistribution gamma;
  GaussianDiscreteDistribution gauss;
  ExponentialDiscreteDistribution expo;
  TruncatedExponentialDiscreteDistribution texp;
  BetaDiscreteDistribution beta;
  UniformDiscreteDistribution unif;
  unique_ptr<SimpleDiscreteDistribution> simple;
  unique_ptr<DirichletDiscreteDistribution> dir;
  unique_ptr<HmmTransitionMatrix> hmmF, hmmA;
  ReproObjects(vrt::Rng& r) :
    gamma(4, gridParam(r), gridParam(r)), gauss(5, r.real(-3, 3), gridParam(r)), expo(3, gridParam(r)), texp(4, 2.0, 1.5),
    beta(4, gridParam(r), gridParam(r)), unif(6, -1, 3), simple(), dir(), hmmF(), hmmA()
  {
    vector<double> vals = { 0.5, 1, 2, 7 }, pr = { 0.1, 0.4, 0.3, 0.2 };
    simple.reset(new SimpleDiscreteDistribution(vals, pr));
    dir.reset(new DirichletDiscreteDistribution(vector<size_t>{ 2, 3 }, Vdouble{ 2, 3, 1.5 }));
    string t;
    hmmF = genHmm(r, 3, true, t);
    hmmA = genHmm(r, 4, false, t);
  }
};

void reproProgram(Stream& s, vrt::Rng plan, ReproObjects& o)
{
  typedef RandomTools RT;
  for (int rep = 0; rep < 3; ++rep)
  {
    s.put("giveRandomNumberBetweenZeroAndEntry", RT::giveRandomNumberBetweenZeroAndEntry(plan.real(0.1, 20)));
    s.put("flipCoin", static_cast<u64>(RT::flipCoin(plan.real(0.1, 0.9))));
    s.put("giveIntRandomNumberBetweenZeroAndEntry<size_t>", static_cast<u64>(RT::giveIntRandomNumberBetweenZeroAndEntry<size_t>(static_cast<size_t>(plan.range(1, 1000)))));
    s.put("giveIntRandomNumberBetweenZeroAndEntry<int>", static_cast<u64>(RT::giveIntRandomNumberBetweenZeroAndEntry<int>(static_cast<int>(plan.range(1, 50)))));
    for (int k = 0; k < 3; ++k) s.put("randGaussian", RT::randGaussian(plan.real(-5, 5), gridParam(plan))); // an odd number of normal draws
    s.put("randGamma(alpha)", RT::randGamma(gridParam(plan)));
    s.put("randGamma(alpha,beta)", RT::randGamma(gridParam(plan), gridParam(plan)));
    s.put("randBeta", RT::randBeta(gridParam(plan), gridParam(plan)));
    s.put("randExponential", RT::randExponential(gridParam(plan)));
    size_t n = static_cast<size_t>(plan.range(2, 12));
    vector<int> src(n);
    for (size_t i = 0; i < n; ++i) src[i] = static_cast<int>(3 + 7 * i);
    vector<double> w = genWeights(plan, n);
    {
      vector<int> v(src);
      s.put("pickOne(v,replace=false)", static_cast<u64>(RT::pickOne(v, false)));
      s.put("pickOne(v,replace=true)", static_cast<u64>(RT::pickOne(v, true)));
      const vector<int>& cv = src;
      s.put("pickOne(const v)", static_cast<u64>(RT::pickOne(cv)));
      vector<int> v2(src);
      vector<double> w2(w);
      s.put("pickOne(v,w,replace=false)", static_cast<u64>(RT::pickOne(v2, w2, false)));
      s.put("pickOne(v,w,replace=true)", static_cast<u64>(RT::pickOne(v2, w2, true)));
      const vector<double>& cw = w;
      s.put("pickOne(const v,const w)", static_cast<u64>(RT::pickOne(cv, cw)));
    }
    {
      vector<double> p = normalised(w), cum(p.size());
      double a = 0;
      for (size_t i = 0; i < p.size(); ++i) { a += p[i]; cum[i] = a; }
      cum.back() = 1;
      s.put("pickFromCumSum", static_cast<u64>(RT::pickFromCumSum(cum)));
    }
    for (int variant = 0; variant < 4; ++variant)
    {
      bool repl = variant & 1, weighted = variant & 2;
      size_t k = repl ? static_cast<size_t>(plan.range(1, 14)) : static_cast<size_t>(plan.range(1, static_cast<long long>(weighted ? positives(w) : n)));
      vector<int> out(k);
      if (weighted) RT::getSample(src, w, out, repl); else RT::getSample(src, out, repl);
      for (int x : out) s.put(weighted ? "getSample(weighted)" : "getSample", static_cast<u64>(x));
    }
    for (size_t x : RT::randMultinomial(static_cast<size_t>(plan.range(1, 9)), w)) s.put("randMultinomial", static_cast<u64>(x));
    {
      vector<size_t> rt = { 3, static_cast<size_t>(plan.range(1, 9)), 4 }, ct = { 2, 2, 0, 0 };
      size_t tot = rt[0] + rt[1] + rt[2];
      ct[2] = static_cast<size_t>(plan.range(1, static_cast<long long>(tot - 5)));
      ct[3] = tot - 4 - ct[2];
      ContingencyTableGenerator g(rt, ct);
      RowMatrix<size_t> t = g.rcont2();
      vector<vector<size_t>> tab(t.getNumberOfRows());
      for (size_t i = 0; i < t.getNumberOfRows(); ++i)
        for (size_t j = 0; j < t.getNumberOfColumns(); ++j) { s.put("rcont2", static_cast<u64>(t(i, j))); tab[i].push_back(t(i, j)); }
      ContingencyTableTest test(tab, 7, false);
      s.put("ContingencyTableTest(permutations)", test.getPValue());
    }
    s.put("Gamma.randC", o.gamma.randC());
    s.put("Gamma.rand", o.gamma.rand());
    s.put("Gaussian.randC", o.gauss.randC());
    s.put("Gaussian.rand", o.gauss.rand());
    s.put("Exponential.randC", o.expo.randC());
    s.put("Exponential.rand", o.expo.rand());
    s.put("TruncExponential.randC", o.texp.randC());
    s.put("Beta.randC", o.beta.randC());
    s.put("Beta.rand", o.beta.rand());
    s.put("Uniform.randC", o.unif.randC());
    s.put("Uniform.rand", o.unif.rand());
    s.put("Simple.rand", o.simple->rand());
    for (double x : o.dir->randC()) s.put("Dirichlet.randC", x);
    for (double x : o.dir->rand()) s.put("Dirichlet.rand", x);
    for (size_t x : dynamic_cast<AbstractHmmTransitionMatrix&>(*o.hmmF).sample(7)) s.put("FullHmmTransitionMatrix.sample", static_cast<u64>(x));
    for (size_t x : dynamic_cast<AbstractHmmTransitionMatrix&>(*o.hmmA).sample(7)) s.put("AutoCorrelationTransitionMatrix.sample", static_cast<u64>(x));
  }
}

void caseSeedRepro(vrt::Case& c)
{
  // index 0: the run seed itself; 1..15: derived seeds
  u32 s = c.index == 0 ? static_cast<u32>(c.seed) : static_cast<u32>(vrt::mix(c.seed, 0xC18000 + c.index) >> 16);
  vrt::describe("seed-repro", "two runs of the sampler program after setSeed(" + str(s) + ")");
  vrt::Rng plan0 = c.rng;
  ReproObjects objs(plan0);
  Stream a, b;
  vrt::step("setSeed + program, first run");
  RandomTools::setSeed(s);
  reproProgram(a, c.rng, objs);
  // disturb the generator between the runs: the second run must depend on the seed only
  size_t extra = 1 + c.index % 5;
  for (size_t i = 0; i < extra; ++i) (void)RandomTools::giveRandomNumberBetweenZeroAndEntry(1.0);
  // ... including state a sampler might keep outside the generator (std::normal_distribution produces its values in pairs
  // and keeps the second one): 0 or 1 extra normal draw, so that both parities occur over the 16 seeds
  for (size_t i = 0; i < c.index % 2; ++i) (void)RandomTools::randGaussian(0., 2.);
  vrt::step("setSeed + program, second run");
  RandomTools::setSeed(s);
  reproProgram(b, c.rng, objs);
  size_t n = min(a.v.size(), b.v.size()), at = n;
  for (size_t i = 0; i < n; ++i)
    if (a.v[i] != b.v[i]) { at = i; break; }
  bool same = a.v.size() == b.v.size() && at == n;
  string where = at < n ? a.lab[at] : "length";
  vrt::expect(same, "seed.reproducible", "first-difference=" + where, [&] {
        return "setSeed(" + str(s) + "): the two streams (" + str(a.v.size()) + " / " + str(b.v.size()) + " values) differ first at value " + str(at) + " (" + where + "): "
        + (at < n ? str(a.v[at]) + " vs " + str(b.v[at]) : string("different lengths"));
      });
  // the stream is not degenerate (guards the comparison against a sampler program that records nothing random)
  size_t distinct = 0;
  {
    vector<u64> u(a.v);
    sort(u.begin(), u.end());
    distinct = static_cast<size_t>(unique(u.begin(), u.end()) - u.begin());
  }
  vrt::tally("seed-stream-values", a.v.size());
  if (distinct > 50) vrt::cover(string("seed:") + (c.index == 0 ? "run-seed" : "derived-seed"));
}

// ------------------------------------------------------------------ group cont-sampler (RandomTools continuous samplers)
void caseContSampler(vrt::Case& c)
{
  typedef RandomTools RT;
  const size_t N = 20000;
  int kind = static_cast<int>(c.index % 6);
  u32 seed = libSeed(c);
  vector<double> xs(N);
  double a = gridParam(c.rng), b = gridParam(c.rng);
  double mean = c.rng.chance(0.3) ? 0.0 : c.rng.real(-20, 20);
  const double inf = std::numeric_limits<double>::infinity();
  RT::setSeed(seed);
  switch (kind)
  {
  case 0:
  {
    string w = "giveRandomNumberBetweenZeroAndEntry(" + str(a) + ")";
    vrt::describe("uniform", w);
    for (double& x : xs) x = RT::giveRandomNumberBetweenZeroAndEntry(a);
    judgeLaw("RandomTools::giveRandomNumberBetweenZeroAndEntry", w, seed, xs, 0, a, [&](double x) { return x / a; });
    vrt::cover(string("uniform:") + (a < 1 ? "entry<1" : "entry>1"));
    break;
  }
  case 1:
  {
    string w = "randGaussian(mean=" + str(mean) + ", variance=" + str(a) + ") against pNorm(x, mean, sqrt(variance))";
    vrt::describe("gaussian", w);
    for (double& x : xs) x = RT::randGaussian(mean, a);
    double sd = std::sqrt(a);
    judgeLaw("RandomTools::randGaussian", w, seed, xs, -inf, inf, [&](double x) { return RT::pNorm(x, mean, sd); });
    vrt::cover(string("gaussian:") + (a < 1 ? "variance<1" : "variance>1") + (mean == 0 ? ":mean0" : ""));
    break;
  }
  case 2:
  {
    string w = "randExponential(mean=" + str(a) + ") against 1-exp(-x/mean)";
    vrt::describe("exponential", w);
    for (double& x : xs) x = RT::randExponential(a);
    judgeLaw("RandomTools::randExponential", w, seed, xs, 0, inf, [&](double x) { return 1 - std::exp(-x / a); });
    vrt::cover(string("exponential:") + (a < 1 ? "mean<1" : "mean>1"));
    break;
  }
  case 3:
  {
    string w = "randGamma(alpha=" + str(a) + ") against pGamma(x, alpha, 1)";
    vrt::describe("gamma1", w);
    for (double& x : xs) x = RT::randGamma(a);
    judgeLaw("RandomTools::randGamma(alpha)", w, seed, xs, 0, inf, [&](double x) { return RT::pGamma(x, a, 1.); });
    vrt::cover(string("gamma1:") + (a < 1 ? "alpha<1" : "alpha>1"));
    break;
  }
  case 4:
  {
    string w = "randGamma(alpha=" + str(a) + ", beta=" + str(b) + ") against pGamma(x, alpha, beta)";
    vrt::describe("gamma2", w);
    for (double& x : xs) x = RT::randGamma(a, b);
    judgeLaw("RandomTools::randGamma(alpha,beta)", w, seed, xs, 0, inf, [&](double x) { return RT::pGamma(x, a, b); });
    vrt::cover(string("gamma2:") + (a < 1 ? "alpha<1" : "alpha>1") + (b < 1 ? ":beta<1" : ":beta>1"));
    break;
  }
  default:
  {
    string w = "randBeta(alpha=" + str(a) + ", beta=" + str(b) + ") against pBeta(x, alpha, beta)";
    vrt::describe("beta", w);
    for (double& x : xs) x = RT::randBeta(a, b);
    judgeLaw("RandomTools::randBeta", w, seed, xs, 0, 1, [&](double x) { return x <= 0 ? 0. : x >= 1 ? 1. : RT::pBeta(x, a, b); });
    vrt::cover(string("beta:") + (a < 1 ? "alpha<1" : "alpha>1") + (b < 1 ? ":beta<1" : ":beta>1"));
  }
  }
}

// ------------------------------------------------------------------ group dist-randC (each family's continuous draw)
// The draw must follow the distribution's OWN pProb.  A family whose randC rejects draws outside the class's own
// domain (Beta narrows [0,1] by its precision after a parameter update) may follow pProb conditioned on that domain.
void judgeRandC(const string& family, const string& route, const string& what, u32 seed, const DiscreteDistributionInterface& d, double lo, double hi)
{
  const size_t N = 20000;
  vector<double> xs(N);
  RandomTools::setSeed(seed);
  vrt::Outcome o = vrt::capture([&] { for (double& x : xs) x = d.randC(); });
  if (!vrt::expect(o.returned(), "randC.returns", family + ":" + route, [&] { return what + " seed " + str(seed) + ": randC " + o.text(); })) return;
  double dl = d.getLowerBound(), du = d.getUpperBound();
  double Fl = d.pProb(dl), Fu = d.pProb(du);
  // Resolution of doubles at an excluded, finite, non-zero domain end: a real draw closer to the end than half an ulp
  // rounds onto it and is rejected by the class.  With a shape of 0.1 several percent of the mass lie there
  // (P(Gamma(0.1) < 2e-16) = 3%), which is a property of the number format, not of the sampler: the law is then not judged.
  {
    const double eps = std::numeric_limits<double>::epsilon();
    double mass = 0;
    if (std::isfinite(dl) && dl != 0 && d.strictLowerBound()) mass += d.pProb(dl + 4 * eps * std::fabs(dl)) - Fl;
    if (std::isfinite(du) && du != 0 && d.strictUpperBound()) mass += Fu - d.pProb(du - 4 * eps * std::fabs(du));
    if (!(mass <= 1e-3))
    {
      size_t off = 0;
      for (double v : xs) off += !(std::isfinite(v) && v >= lo && v <= hi);
      vrt::expect(off == 0, "law.support", family + "::randC:" + route, [&] { return what + " seed " + str(seed) + ": " + str(off) + " draws are not finite or outside [" + str(lo) + "," + str(hi) + "]"; });
      vrt::tally("law-not-judged:mass-within-4ulp-of-an-excluded-domain-end:" + family);
      return;
    }
  }
  function<double(double)> alt;
  if (std::isfinite(Fl) && std::isfinite(Fu) && Fu - Fl > 0.5 && (Fl > 0 || Fu < 1))
    alt = [&d, Fl, Fu](double x) { double f = (d.pProb(x) - Fl) / (Fu - Fl); return f < 0 ? 0. : f > 1 ? 1. : f; };
  judgeLaw(family + "::randC:" + route, what, seed, xs, lo, hi, [&](double x) { return d.pProb(x); }, alt);
}

void caseDistRandC(vrt::Case& c)
{
  int kind = static_cast<int>(c.index % 8);
  bool update = c.rng.chance(0.5); // parameters given to the constructor, or set afterwards through the Parametrizable interface
  string route = update ? "updated" : "ctor";
  size_t n = static_cast<size_t>(c.rng.range(1, 8));
  u32 seed = libSeed(c);
  double a = gridParam(c.rng), b = gridParam(c.rng);
  double a0 = gridParam(c.rng), b0 = gridParam(c.rng);
  const double inf = std::numeric_limits<double>::infinity();
  switch (kind)
  {
  case 0:
  case 1:
  {
    bool withOffset = kind == 1;
    static const double OFF[] = { -3, -0.5, 0.5, 3 };
    double off = withOffset ? OFF[c.rng.below(4)] : 0.;
    double off0 = withOffset && update ? OFF[c.rng.below(4)] : off;
    string w = "GammaDiscreteDistribution(n=" + str(n) + ", alpha=" + str(a) + ", beta=" + str(b) + (withOffset ? ", offset=" + str(off) : "") + ") " + route;
    vrt::describe(string("Gamma") + (withOffset ? "+offset" : ""), w);
    GammaDiscreteDistribution d(n, update ? a0 : a, update ? b0 : b, 0.05, 0.05, withOffset, off0);
    if (update)
    {
      d.setParameterValue("alpha", a);
      d.setParameterValue("beta", b);
      if (withOffset) d.setParameterValue("offset", off);
    }
    judgeRandC(string("Gamma") + (withOffset ? (off > 0 ? "+offset>0" : "+offset<0") : ""), route, w, seed, d, off, inf);
    vrt::cover(string("randC:Gamma:") + route + (withOffset ? (off > 0 ? ":offset>0" : ":offset<0") : "") + (a < 1 ? ":alpha<1" : ":alpha>1") + (b < 1 ? ":beta<1" : ":beta>1"));
    break;
  }
  case 2:
  {
    double mu = c.rng.chance(0.3) ? 0. : c.rng.real(-20, 20);
    string w = "GaussianDiscreteDistribution(n=" + str(n) + ", mu=" + str(mu) + ", sigma=" + str(a) + ") " + route;
    vrt::describe("Gaussian", w);
    GaussianDiscreteDistribution d(n, update ? 0.5 : mu, update ? a0 : a);
    if (update) { d.setParameterValue("mu", mu); d.setParameterValue("sigma", a); }
    judgeRandC("Gaussian", route, w, seed, d, -inf, inf);
    vrt::cover(string("randC:Gaussian:") + route + (a < 1 ? ":sigma<1" : ":sigma>1"));
    break;
  }
  case 3:
  {
    string w = "ExponentialDiscreteDistribution(n=" + str(n) + ", lambda=" + str(a) + ") " + route;
    vrt::describe("Exponential", w);
    ExponentialDiscreteDistribution d(n, update ? a0 : a);
    if (update) d.setParameterValue("lambda", a);
    judgeRandC("Exponential", route, w, seed, d, 0, inf);
    vrt::cover(string("randC:Exponential:") + route + (a < 1 ? ":lambda<1" : ":lambda>1"));
    break;
  }
  case 4:
  {
    double tp = c.rng.real(0.2, 4) / a; // lambda*tp in [0.2,4]: acceptance probability of the rejection loop >= 0.18
    string w = "TruncatedExponentialDiscreteDistribution(n=" + str(n) + ", lambda=" + str(a) + ", tp=" + str(tp) + ") " + route;
    vrt::describe("TruncExponential", w);
    TruncatedExponentialDiscreteDistribution d(n, update ? a0 : a, update ? 1.0 / a0 : tp);
    if (update) { d.setParameterValue("lambda", a); d.setParameterValue("tp", tp); }
    judgeRandC("TruncExponential", route, w, seed, d, 0, tp);
    vrt::cover(string("randC:TruncExponential:") + route + (a < 1 ? ":lambda<1" : ":lambda>1"));
    break;
  }
  case 5:
  {
    string w = "BetaDiscreteDistribution(n=" + str(n) + ", alpha=" + str(a) + ", beta=" + str(b) + ") " + route;
    vrt::describe("Beta", w);
    BetaDiscreteDistribution d(n, update ? a0 : a, update ? b0 : b);
    if (update) { d.setParameterValue("alpha", a); d.setParameterValue("beta", b); }
    judgeRandC("Beta", route, w, seed, d, 0, 1);
    vrt::cover(string("randC:Beta:") + route + (a < 1 ? ":alpha<1" : ":alpha>1") + (b < 1 ? ":beta<1" : ":beta>1"));
    break;
  }
  case 6:
  {
    double lo = c.rng.real(-20, 20), hi = lo + gridParam(c.rng);
    bool swapped = c.rng.chance(0.3);
    string w = "UniformDiscreteDistribution(n=" + str(n) + ", " + str(swapped ? hi : lo) + ", " + str(swapped ? lo : hi) + ")";
    vrt::describe("Uniform", w);
    UniformDiscreteDistribution d(static_cast<unsigned int>(n), swapped ? hi : lo, swapped ? lo : hi);
    judgeRandC("Uniform", "ctor", w, seed, d, lo, hi);
    vrt::cover(string("randC:Uniform:") + (swapped ? "swapped" : "ordered"));
    break;
  }
  default:
  {
    // Constant: the continuous draw is the value; families without a continuous version say so by a library exception
    int sub = static_cast<int>(c.rng.below(4));
    double val = c.rng.real(-5, 5);
    RandomTools::setSeed(seed);
    if (sub == 0)
    {
      vrt::describe("Constant", "ConstantDistribution(" + str(val) + ").randC()/rand()");
      ConstantDistribution d(val);
      bool ok = true;
      for (int i = 0; i < 50; ++i) ok &= d.randC() == val && d.rand() == val;
      vrt::expect(ok, "randC.constant", "Constant", [&] { return "ConstantDistribution(" + str(val) + ") drew another value"; });
      vrt::cover("randC:Constant");
      break;
    }
    unique_ptr<DiscreteDistributionInterface> d;
    string name;
    if (sub == 1)
    {
      vector<double> vals = { 0.5, 1, 2 }, pr = { 0.2, 0.5, 0.3 };
      d.reset(new SimpleDiscreteDistribution(vals, pr));
      name = "Simple";
    }
    else if (sub == 2)
    {
      d.reset(new InvariantMixedDiscreteDistribution(make_unique<GammaDiscreteDistribution>(3, a, b), 0.2, 0.));
      name = "InvariantMixed";
    }
    else
    {
      vector<unique_ptr<DiscreteDistributionInterface>> v;
      v.push_back(make_unique<GammaDiscreteDistribution>(2, a, b));
      v.push_back(make_unique<ExponentialDiscreteDistribution>(2, a));
      d.reset(new MixtureOfDiscreteDistributions(v, vector<double>{ 0.4, 0.6 }));
      name = "Mixture";
    }
    vrt::describe(name, name + ".randC(): no continuous version");
    vrt::Outcome o = vrt::capture([&] { (void)d->randC(); });
    // "if it exists": a returned value would have no stated law to be judged against; anything but a library exception or a value is a violation
    vrt::expect(o.raisedBpp() || o.returned(), "randC.unavailable", name, [&] { return name + ".randC() " + o.text(); });
    vrt::cover("randC:" + name + ":" + (o.raisedBpp() ? "raises" : "returns"));
  }
  }
}

// ------------------------------------------------------------------ group dist-rand (each family's discrete draw against its own class probabilities)
void judgeRand(const string& family, const string& what, u32 seed, const DiscreteDistributionInterface& d)
{
  const size_t N = 20000;
  Vdouble cats = d.getCategories(), pr = d.getProbabilities();
  if (cats.size() != pr.size() || cats.empty()) { vrt::tally("rand-skipped-degenerate:" + family); return; }
  double tot = 0;
  for (double p : pr) tot += p;
  if (!(std::fabs(tot - 1) < 1e-6)) { vrt::tally("rand-skipped-probabilities-not-summing-to-1:" + family); return; } // discretisation is another property
  vector<size_t> counts(cats.size(), 0);
  size_t alien = 0;
  double firstAlien = 0;
  RandomTools::setSeed(seed);
  vrt::Outcome o = vrt::capture([&] {
        for (size_t k = 0; k < N; ++k)
        {
          double x = d.rand();
          size_t i = 0;
          while (i < cats.size() && !(cats[i] == x)) ++i;
          if (i == cats.size()) { if (!alien) firstAlien = x; ++alien; }
          else ++counts[i];
        }
      });
  if (!vrt::expect(o.returned(), "rand.returns", family, [&] { return what + " seed " + str(seed) + ": rand " + o.text(); })) return;
  if (!vrt::expect(alien == 0, "rand.value-is-a-category", family, [&] {
          return what + " seed " + str(seed) + ": " + str(alien) + " of " + str(N) + " draws are not class values, first " + str(firstAlien) + "; classes " + vrt::vecStr(cats);
        })) return;
  judgeFreq(family + "::rand", what + " classes " + vrt::vecStr(cats), seed, counts, pr, N);
}

void caseDistRand(vrt::Case& c)
{
  int kind = static_cast<int>(c.index % 10);
  size_t n = static_cast<size_t>(c.rng.range(1, 10));
  u32 seed = libSeed(c);
  double a = gridParam(c.rng), b = gridParam(c.rng);
  bool update = c.rng.chance(0.4);
  string route = update ? " updated" : " ctor";
  string ncls = n == 1 ? "n1" : n <= 4 ? "n2-4" : "n5-10";
  switch (kind)
  {
  case 0:
  {
    string w = "GammaDiscreteDistribution(n=" + str(n) + ", alpha=" + str(a) + ", beta=" + str(b) + ")" + route;
    vrt::describe("Gamma", w);
    GammaDiscreteDistribution d(n, update ? 2. : a, update ? 3. : b);
    if (update) { d.setParameterValue("alpha", a); d.setParameterValue("beta", b); }
    judgeRand("Gamma", w, seed, d);
    vrt::cover("rand:Gamma:" + ncls);
    break;
  }
  case 1:
  {
    double mu = c.rng.real(-20, 20);
    string w = "GaussianDiscreteDistribution(n=" + str(n) + ", mu=" + str(mu) + ", sigma=" + str(a) + ")" + route;
    vrt::describe("Gaussian", w);
    GaussianDiscreteDistribution d(n, update ? 0. : mu, update ? 2. : a);
    if (update) { d.setParameterValue("mu", mu); d.setParameterValue("sigma", a); }
    judgeRand("Gaussian", w, seed, d);
    vrt::cover("rand:Gaussian:" + ncls);
    break;
  }
  case 2:
  {
    string w = "ExponentialDiscreteDistribution(n=" + str(n) + ", lambda=" + str(a) + ")" + route;
    vrt::describe("Exponential", w);
    ExponentialDiscreteDistribution d(n, update ? 2. : a);
    if (update) d.setParameterValue("lambda", a);
    judgeRand("Exponential", w, seed, d);
    vrt::cover("rand:Exponential:" + ncls);
    break;
  }
  case 3:
  {
    double tp = c.rng.real(0.2, 4) / a;
    string w = "TruncatedExponentialDiscreteDistribution(n=" + str(n) + ", lambda=" + str(a) + ", tp=" + str(tp) + ")";
    vrt::describe("TruncExponential", w);
    TruncatedExponentialDiscreteDistribution d(n, a, tp);
    judgeRand("TruncExponential", w, seed, d);
    vrt::cover("rand:TruncExponential:" + ncls);
    break;
  }
  case 4:
  {
    string w = "BetaDiscreteDistribution(n=" + str(n) + ", alpha=" + str(a) + ", beta=" + str(b) + ")";
    vrt::describe("Beta", w);
    BetaDiscreteDistribution d(n, a, b);
    judgeRand("Beta", w, seed, d);
    vrt::cover("rand:Beta:" + ncls);
    break;
  }
  case 5:
  {
    double lo = c.rng.real(-20, 20), hi = lo + a;
    string w = "UniformDiscreteDistribution(n=" + str(n) + ", " + str(lo) + ", " + str(hi) + ")";
    vrt::describe("Uniform", w);
    UniformDiscreteDistribution d(static_cast<unsigned int>(n), lo, hi);
    judgeRand("Uniform", w, seed, d);
    vrt::cover("rand:Uniform:" + ncls);
    break;
  }
  case 6:
  case 7:
  {
    // Simple: explicit values and probabilities (weights incl. zeros, normalised)
    size_t m = static_cast<size_t>(c.rng.range(1, 12));
    vector<double> vals(m), pr = normalised(genWeights(c.rng, m, kind == 7));
    double x = c.rng.real(-3, 3);
    for (size_t i = 0; i < m; ++i) { vals[i] = x; x += c.rng.real(0.01, 2); }
    // keep the probabilities summing to one exactly enough for the constructor
    string w = "SimpleDiscreteDistribution(values " + vrt::vecStr(vals) + ", probabilities " + vrt::vecStr(pr) + ")";
    vrt::describe("Simple", w);
    unique_ptr<SimpleDiscreteDistribution> d;
    bool fixed = c.rng.chance(0.5); // without / with V_i, theta_i parameters
    vrt::Outcome o = vrt::capture([&] { d.reset(new SimpleDiscreteDistribution(vals, pr, NumConstants::TINY(), fixed)); });
    if (!o.returned()) { vrt::tally(string("rand-simple-ctor-refused:") + (fixed ? "fixed" : "parametrised")); vrt::note(o.text()); break; }
    judgeRand("Simple", w, seed, *d);
    vrt::cover(string("rand:Simple:") + (kind == 7 ? "with-zero-probabilities" : "positive") + (m == 1 ? ":m1" : ""));
    break;
  }
  case 8:
  {
    double p = c.rng.real(0.05, 0.9);
    string w = "InvariantMixedDiscreteDistribution(Gamma(n=" + str(n) + ", " + str(a) + ", " + str(b) + "), p=" + str(p) + ", invariant=0)";
    vrt::describe("InvariantMixed", w);
    InvariantMixedDiscreteDistribution d(make_unique<GammaDiscreteDistribution>(n, a, b), p, 0.);
    judgeRand("InvariantMixed", w, seed, d);
    vrt::cover("rand:InvariantMixed:" + ncls);
    break;
  }
  default:
  {
    double p = c.rng.real(0.1, 0.9);
    size_t n2 = static_cast<size_t>(c.rng.range(1, 4));
    string w = "MixtureOfDiscreteDistributions({Gamma(n=" + str(n) + ", " + str(a) + ", " + str(b) + "), Exponential(n=" + str(n2) + ", " + str(a) + ")}, {" + str(p) + ", " + str(1 - p) + "})";
    vrt::describe("Mixture", w);
    vector<unique_ptr<DiscreteDistributionInterface>> v;
    v.push_back(make_unique<GammaDiscreteDistribution>(n, a, b));
    v.push_back(make_unique<ExponentialDiscreteDistribution>(n2, a));
    MixtureOfDiscreteDistributions d(v, vector<double>{ p, 1 - p });
    judgeRand("Mixture", w, seed, d);
    vrt::cover("rand:Mixture:" + ncls);
  }
  }
}

// ------------------------------------------------------------------ group picks (law of the discrete picks)
vector<int> distinctSource(size_t n)
{
  vector<int> v(n);
  for (size_t i = 0; i < n; ++i) v[i] = static_cast<int>(3 + 7 * i);
  return v;
}
size_t indexOfSource(int x) { return static_cast<size_t>((x - 3) / 7); }

void casePicks(vrt::Case& c)
{
  typedef RandomTools RT;
  const size_t N = 20000;
  int kind = static_cast<int>(c.index % 13);
  size_t n = static_cast<size_t>(c.rng.range(1, 12));
  u32 seed = libSeed(c);
  vector<int> src = distinctSource(n);
  const vector<int>& csrc = src;
  vector<double> w = genWeights(c.rng, n);
  const vector<double>& cw = w;
  vector<double> p = normalised(w), unif(n, 1.0 / static_cast<double>(n));
  string zeros = positives(w) < n ? ":with-zero-weights" : "";
  string ncls = n == 1 ? "n1" : n <= 4 ? "n2-4" : "n5-12";
  vector<size_t> counts(n, 0);
  size_t alien = 0;
  auto note = [&](int x) { size_t i = indexOfSource(x); if (i < n && src[i] == x) ++counts[i]; else ++alien; };
  string api, what;
  RT::setSeed(seed);
  switch (kind)
  {
  case 0:
    api = "pickOne(const v)";
    what = api + " n=" + str(n);
    vrt::describe(api, what);
    for (size_t k = 0; k < N; ++k) note(RT::pickOne(csrc));
    vrt::expect(alien == 0, "pick.element-of-source", api, [&] { return what + ": " + str(alien) + " picks are not elements of the source"; });
    judgeFreq(api, what, seed, counts, unif, N);
    vrt::cover("pick:const-unweighted:" + ncls);
    break;
  case 1:
  {
    api = "pickOne(v,replace=true)";
    what = api + " n=" + str(n);
    vrt::describe(api, what);
    vector<int> v(src);
    for (size_t k = 0; k < N; ++k) note(RT::pickOne(v, true));
    vrt::expect(alien == 0 && v == src, "pick.element-of-source", api, [&] { return what + ": " + str(alien) + " picks are not elements of the source, or the source was modified"; });
    judgeFreq(api, what, seed, counts, unif, N);
    vrt::cover("pick:replace-unweighted:" + ncls);
    break;
  }
  case 2:
  {
    // first pick without replacement (the vector is rebuilt every time): uniform over the source
    api = "pickOne(v,replace=false)";
    what = api + " n=" + str(n) + " (first pick)";
    vrt::describe(api, what);
    for (size_t k = 0; k < N; ++k) { vector<int> v(src); note(RT::pickOne(v, false)); }
    vrt::expect(alien == 0, "pick.element-of-source", api, [&] { return what + ": " + str(alien) + " picks are not elements of the source"; });
    judgeFreq(api, what, seed, counts, unif, N);
    vrt::cover("pick:noreplace-unweighted:" + ncls);
    break;
  }
  case 3:
    api = "pickOne(const v,const w)";
    what = api + " weights " + vrt::vecStr(w);
    vrt::describe(api, what);
    for (size_t k = 0; k < N; ++k) note(RT::pickOne(csrc, cw));
    vrt::expect(alien == 0, "pick.element-of-source", api, [&] { return what + ": " + str(alien) + " picks are not elements of the source"; });
    judgeFreq(api, what, seed, counts, p, N);
    vrt::cover("pick:const-weighted:" + ncls + zeros);
    break;
  case 4:
  {
    api = "pickOne(v,w,replace=true)";
    what = api + " weights " + vrt::vecStr(w);
    vrt::describe(api, what);
    vector<int> v(src);
    vector<double> w2(w);
    for (size_t k = 0; k < N; ++k) note(RT::pickOne(v, w2, true));
    vrt::expect(alien == 0 && v == src && w2 == w, "pick.element-of-source", api, [&] { return what + ": " + str(alien) + " picks are not elements of the source, or source/weights were modified"; });
    judgeFreq(api, what, seed, counts, p, N);
    vrt::cover("pick:replace-weighted:" + ncls + zeros);
    break;
  }
  case 5:
  {
    api = "pickOne(v,w,replace=false)";
    what = api + " weights " + vrt::vecStr(w) + " (first pick)";
    vrt::describe(api, what);
    for (size_t k = 0; k < N; ++k) { vector<int> v(src); vector<double> w2(w); note(RT::pickOne(v, w2, false)); }
    vrt::expect(alien == 0, "pick.element-of-source", api, [&] { return what + ": " + str(alien) + " picks are not elements of the source"; });
    judgeFreq(api, what, seed, counts, p, N);
    vrt::cover("pick:noreplace-weighted:" + ncls + zeros);
    break;
  }
  case 6:
  {
    api = "pickFromCumSum";
    vector<double> cum(n);
    double a = 0;
    for (size_t i = 0; i < n; ++i) { a += p[i]; cum[i] = a; }
    cum.back() = 1; // "last probability of the vector is assumed to be one"
    for (size_t i = n; i-- > 0 && p[i] == 0; ) cum[i] = 1;
    what = api + " cumulated " + vrt::vecStr(cum);
    vrt::describe(api, what);
    for (size_t k = 0; k < N; ++k) { size_t i = RT::pickFromCumSum(cum); if (i < n) ++counts[i]; else ++alien; }
    vrt::expect(alien == 0, "pick.index-in-range", api, [&] { return what + ": " + str(alien) + " indices are >= " + str(n); });
    judgeFreq(api, what, seed, counts, p, N);
    vrt::cover("pick:cumsum:" + ncls + zeros);
    break;
  }
  case 7:
  {
    api = "randMultinomial";
    // scores need not be normalised: "the input probabilities are scaled so that they sum to one"
    size_t per = static_cast<size_t>(c.rng.range(1, 50)), rounds = N / per;
    what = api + "(n=" + str(per) + ", scores " + vrt::vecStr(w) + ") x" + str(rounds);
    vrt::describe(api, what);
    bool sizeOk = true;
    for (size_t k = 0; k < rounds; ++k)
    {
      vector<size_t> s = RT::randMultinomial(per, w);
      sizeOk &= s.size() == per;
      for (size_t i : s) { if (i < n) ++counts[i]; else ++alien; }
    }
    vrt::expect(sizeOk, "multinomial.size", api, [&] { return what + ": a returned sample has not the requested size"; });
    vrt::expect(alien == 0, "pick.index-in-range", api, [&] { return what + ": " + str(alien) + " states are >= " + str(n); });
    judgeFreq(api, what, seed, counts, p, rounds * per);
    vrt::cover("pick:multinomial:" + ncls + zeros);
    break;
  }
  case 8:
  case 9:
  {
    // getSample without weights: every position of the sample is uniform over the source
    bool repl = kind == 9;
    size_t k = repl ? static_cast<size_t>(c.rng.range(1, 14)) : static_cast<size_t>(c.rng.range(1, static_cast<long long>(n)));
    size_t rounds = max<size_t>(N / k, 4000);
    api = string("getSample(replace=") + (repl ? "true)" : "false)");
    what = api + " n=" + str(n) + " k=" + str(k) + " x" + str(rounds);
    vrt::describe(api, what);
    vector<vector<size_t>> cnt(k, vector<size_t>(n, 0));
    for (size_t r = 0; r < rounds; ++r)
    {
      vector<int> out(k, -1);
      RT::getSample(csrc, out, repl);
      for (size_t j = 0; j < k; ++j) { size_t i = indexOfSource(out[j]); if (i < n && src[i] == out[j]) ++cnt[j][i]; else ++alien; }
    }
    vrt::expect(alien == 0, "pick.element-of-source", api, [&] { return what + ": " + str(alien) + " sampled values are not elements of the source"; });
    for (size_t j = 0; j < k; ++j) judgeFreq(api, what + " position " + str(j), seed, cnt[j], unif, rounds);
    vrt::cover(string("sample:") + (repl ? "replace" : "noreplace") + ":" + ncls + (k == n ? ":k=n" : k > n ? ":k>n" : ":k<n"));
    break;
  }
  case 10:
  {
    // weighted, with replacement: every position follows the weights
    size_t k = static_cast<size_t>(c.rng.range(1, 14));
    size_t rounds = max<size_t>(N / k, 4000);
    api = "getSample(weights,replace=true)";
    what = api + " weights " + vrt::vecStr(w) + " k=" + str(k) + " x" + str(rounds);
    vrt::describe(api, what);
    vector<vector<size_t>> cnt(k, vector<size_t>(n, 0));
    for (size_t r = 0; r < rounds; ++r)
    {
      vector<int> out(k, -1);
      RT::getSample(csrc, cw, out, true);
      for (size_t j = 0; j < k; ++j) { size_t i = indexOfSource(out[j]); if (i < n && src[i] == out[j]) ++cnt[j][i]; else ++alien; }
    }
    vrt::expect(alien == 0, "pick.element-of-source", api, [&] { return what + ": " + str(alien) + " sampled values are not elements of the source"; });
    for (size_t j = 0; j < k; ++j) judgeFreq(api, what + " position " + str(j), seed, cnt[j], p, rounds);
    vrt::cover("sample:weighted-replace:" + ncls + zeros);
    break;
  }
  case 11:
  {
    // weighted, without replacement (successive sampling): position 0 follows the weights, position 1 follows
    // P(second=j) = sum_{i!=j} p_i p_j/(1-p_i).  Requests beyond the number of positive weights are only judged structurally (group sample-exact).
    size_t pos = positives(w);
    size_t k = static_cast<size_t>(c.rng.range(1, static_cast<long long>(pos)));
    size_t rounds = N;
    api = "getSample(weights,replace=false)";
    what = api + " weights " + vrt::vecStr(w) + " k=" + str(k) + " x" + str(rounds);
    vrt::describe(api, what);
    vector<vector<size_t>> cnt(min<size_t>(k, 2), vector<size_t>(n, 0));
    for (size_t r = 0; r < rounds; ++r)
    {
      vector<int> out(k, -1);
      RT::getSample(csrc, cw, out, false);
      for (size_t j = 0; j < k; ++j)
      {
        size_t i = indexOfSource(out[j]);
        if (!(i < n && src[i] == out[j])) ++alien;
        else if (j < 2) ++cnt[j][i];
      }
    }
    vrt::expect(alien == 0, "pick.element-of-source", api, [&] { return what + ": " + str(alien) + " sampled values are not elements of the source"; });
    judgeFreq(api, what + " position 0", seed, cnt[0], p, rounds);
    if (k >= 2)
    {
      vector<double> p2(n, 0.0);
      for (size_t j = 0; j < n; ++j)
      {
        long double s = 0;
        for (size_t i = 0; i < n; ++i)
          if (i != j && p[i] > 0 && p[i] < 1) s += static_cast<long double>(p[i]) * p[j] / (1 - static_cast<long double>(p[i]));
        p2[j] = static_cast<double>(s);
      }
      judgeFreq(api, what + " position 1", seed, cnt[1], p2, rounds);
    }
    vrt::cover("sample:weighted-noreplace:" + ncls + zeros + (k >= 2 ? ":k>=2" : ":k1"));
    break;
  }
  default:
  {
    // integer uniform and Bernoulli
    size_t m = static_cast<size_t>(c.rng.range(1, 12));
    double q = c.rng.chance(0.2) ? (c.rng.chance(0.5) ? 0. : 1.) : c.rng.real(0.02, 0.98);
    api = "giveIntRandomNumberBetweenZeroAndEntry";
    what = api + "(" + str(m) + ")";
    vrt::describe("int+coin", what + ", flipCoin(" + str(q) + ")");
    vector<size_t> ci(m, 0), cc(2, 0);
    size_t out = 0;
    for (size_t k = 0; k < N; ++k)
    {
      size_t i = k % 2 ? RT::giveIntRandomNumberBetweenZeroAndEntry<size_t>(m) : static_cast<size_t>(RT::giveIntRandomNumberBetweenZeroAndEntry<int>(static_cast<int>(m)));
      if (i < m) ++ci[i]; else ++out;
      ++cc[RT::flipCoin(q) ? 1 : 0];
    }
    vrt::expect(out == 0, "pick.index-in-range", api, [&] { return what + ": " + str(out) + " values are not in [0," + str(m) + ")"; });
    judgeFreq(api, what, seed, ci, vector<double>(m, 1.0 / static_cast<double>(m)), N);
    judgeFreq("flipCoin", "flipCoin(" + str(q) + ")", seed, cc, vector<double>{ 1 - q, q }, N);
    vrt::cover(string("int+coin:") + (m == 1 ? "m1" : "m>1") + (q == 0 || q == 1 ? ":sure-coin" : ""));
  }
  }
}

// ------------------------------------------------------------------ group sample-exact (exact clauses of getSample, exhaustive over source size x sample size x variant)
string outcomeClass(const vrt::Outcome& o) { return o.returned() ? "returned" : o.raisedBpp() ? "bpp-exception" : "foreign-exception:" + o.type; }

void caseSampleExact(vrt::Case& c)
{
  typedef RandomTools RT;
  // index -> (variant, n, k): n in 0..12, k in 0..14
  size_t variant = c.index % 4, n = (c.index / 4) % 13, k = (c.index / 52) % 15;
  bool repl = variant & 1, weighted = variant & 2;
  string api = string("getSample(") + (weighted ? "weights," : "") + "replace=" + (repl ? "true)" : "false)");
  string shape = n == 0 ? (k == 0 ? "empty-source,empty-request" : "empty-source") : (k == 0 ? "empty-request" : k < n ? "k<n" : k == n ? "k=n" : "k>n");
  vrt::describe(api + ":" + shape, api + " n=" + str(n) + " k=" + str(k));
  size_t reps = c.tier == 1 ? 300 : 40;
  RT::setSeed(libSeed(c));
  for (size_t r = 0; r < reps; ++r)
  {
    bool dup = n >= 2 && r % 2 == 1; // sources with repeated values: the sample must be a sub-multiset
    vector<string> src(n);
    for (size_t i = 0; i < n; ++i) src[i] = "e" + str(dup ? i / 2 : i);
    vector<double> w = genWeights(c.rng, n);
    size_t pos = positives(w);
    vector<string> out(k, "untouched");
    string what = api + " source " + vrt::vecStr(src) + (weighted ? " weights " + vrt::vecStr(w) : "") + " k=" + str(k);
    vrt::Outcome o = vrt::capture([&] { if (weighted) RT::getSample(src, w, out, repl); else RT::getSample(src, out, repl); });
    string cls = api + ":" + shape;
    if (!repl && k > n)
    {
      vrt::expect(o.raisedBpp(), "sample.over-long-refused", cls, [&] { return what + ": " + o.text() + ", expected a library exception"; });
      continue;
    }
    if (n == 0 && k > 0)
    {
      vrt::expect(o.raisedBpp(), "sample.empty-source-raises", cls, [&] { return what + ": " + o.text() + ", expected a library exception"; });
      continue;
    }
    if (n == 0 && k == 0)
    {
      // an empty request on an empty source: a value and a library exception are both admissible
      vrt::expect(o.returned() || o.raisedBpp(), "sample.empty-empty", cls + ":" + outcomeClass(o), [&] { return what + ": " + o.text(); });
      continue;
    }
    if (!vrt::expect(o.returned(), "sample.returns", cls, [&] { return what + ": " + o.text(); })) continue;
    // every element comes from the source; without replacement no source position is used twice
    map<string, long> avail;
    for (size_t i = 0; i < n; ++i) avail[src[i]] += 1;
    bool member = out.size() == k, multiset = true, zeroFree = true;
    for (const string& s : out)
    {
      auto it = avail.find(s);
      if (it == avail.end()) { member = false; continue; }
      if (!repl && --it->second < 0) multiset = false;
    }
    if (weighted && (repl || k <= pos) && !dup)
      for (const string& s : out)
        for (size_t i = 0; i < n; ++i)
          if (src[i] == s && w[i] == 0) zeroFree = false;
    vrt::expect(member, repl ? "sample.subset-of-source" : "sample.elements-of-source", cls, [&] { return what + " => " + vrt::vecStr(out) + ": not only elements of the source"; });
    if (!repl)
    {
      vrt::expect(multiset, "sample.distinct", cls, [&] { return what + " => " + vrt::vecStr(out) + ": a source element was returned more often than it occurs"; });
      if (k == n)
      {
        vector<string> a(out), b(src);
        sort(a.begin(), a.end());
        sort(b.begin(), b.end());
        vrt::expect(a == b, "sample.permutation", cls, [&] { return what + " => " + vrt::vecStr(out) + ": not a permutation of the source"; });
      }
    }
    if (weighted && !dup)
      vrt::expect(zeroFree, "sample.zero-weight-never-drawn", cls, [&] { return what + " => " + vrt::vecStr(out) + ": an element of weight 0 was drawn although enough positive weights were available"; });
  }
  vrt::cover("exact:" + api + ":" + shape);
}

// ------------------------------------------------------------------ group pick-exact (exact clauses of the single picks; emptiness)
void casePickExact(vrt::Case& c)
{
  typedef RandomTools RT;
  size_t n = c.index % 13, variant = c.index / 13; // n in 0..12
  RT::setSeed(libSeed(c));
  string ncls = n == 0 ? "empty" : n == 1 ? "n1" : "n>1";
  size_t reps = c.tier == 1 ? 100 : 15;
  for (size_t r = 0; r < reps; ++r)
  {
    bool dup = n >= 2 && r % 2 == 1;
    vector<int> src(n);
    for (size_t i = 0; i < n; ++i) src[i] = static_cast<int>(3 + 7 * (dup ? i / 2 : i));
    vector<double> w = genWeights(c.rng, n);
    for (size_t i = 0; i < n; ++i) w[i] += 1e-3 * static_cast<double>(i); // distinct weights (zeros become tiny positives except index 0)
    if (variant == 0)
    {
      // pickOne(v, replace=false) until the vector is empty, then once more
      if (r == 0) vrt::describe("pickOne(v,replace=false):" + ncls, "repeated pickOne(v,false) on " + str(n) + " elements until empty");
      vector<int> v(src);
      multiset<int> left(src.begin(), src.end());
      bool ok = true;
      string hist;
      for (size_t step = 0; step < n && ok; ++step)
      {
        int got = 0;
        vrt::Outcome o = vrt::capture([&] { got = RT::pickOne(v, false); });
        hist += " " + (o.returned() ? str(got) : o.text());
        auto it = left.find(got);
        ok = o.returned() && it != left.end();
        if (ok) left.erase(it);
        ok = ok && multiset<int>(v.begin(), v.end()) == left;
        vrt::expect(ok, "pick.extracts-one-element", "pickOne(v,replace=false)", [&] { return "source " + vrt::vecStr(src) + " picks" + hist + ": remaining vector " + vrt::vecStr(v) + " is not the source minus the picked elements"; });
      }
      if (ok)
      {
        vrt::Outcome o = vrt::capture([&] { (void)RT::pickOne(v, false); });
        vrt::expect(o.raisedBpp(), "pick.empty-raises", "pickOne(v,replace=false)", [&] { return "pickOne(v,false) on an empty vector (after " + str(n) + " extractions): " + o.text(); });
        vrt::Outcome o2 = vrt::capture([&] { (void)RT::pickOne(v, true); });
        vrt::expect(o2.raisedBpp(), "pick.empty-raises", "pickOne(v,replace=true)", [&] { return "pickOne(v,true) on an empty vector: " + o2.text(); });
      }
      vrt::cover("pick-exact:extract-unweighted:" + ncls + (dup ? ":dup" : ""));
    }
    else if (variant == 1)
    {
      if (r == 0) vrt::describe("pickOne(v,w,replace=false):" + ncls, "repeated pickOne(v,w,false) on " + str(n) + " elements until empty");
      vector<int> v(src);
      vector<double> w2(w);
      multiset<pair<int, double>> left;
      for (size_t i = 0; i < n; ++i) left.insert(make_pair(src[i], w[i]));
      bool ok = true;
      string hist;
      for (size_t step = 0; step < n && ok; ++step)
      {
        int got = 0;
        vrt::Outcome o = vrt::capture([&] { got = RT::pickOne(v, w2, false); });
        hist += " " + (o.returned() ? str(got) : o.text());
        ok = o.returned() && v.size() == w2.size() && v.size() + step + 1 == n;
        if (ok)
        {
          multiset<pair<int, double>> now;
          for (size_t i = 0; i < v.size(); ++i) now.insert(make_pair(v[i], w2[i]));
          // exactly one (element, weight) pair with the picked element disappeared
          multiset<pair<int, double>> diff;
          set_difference(left.begin(), left.end(), now.begin(), now.end(), inserter(diff, diff.begin()));
          ok = diff.size() == 1 && diff.begin()->first == got;
          left = now;
        }
        vrt::expect(ok, "pick.extracts-one-element", "pickOne(v,w,replace=false)", [&] { return "source " + vrt::vecStr(src) + " weights " + vrt::vecStr(w) + " picks" + hist + ": remaining " + vrt::vecStr(v) + " / " + vrt::vecStr(w2) + " is not the source minus the picked (element, weight) pairs"; });
      }
      if (ok)
      {
        vrt::Outcome o = vrt::capture([&] { (void)RT::pickOne(v, w2, false); });
        vrt::expect(o.raisedBpp(), "pick.empty-raises", "pickOne(v,w,replace=false)", [&] { return "pickOne(v,w,false) on an empty vector (after " + str(n) + " extractions): " + o.text(); });
        vrt::Outcome o2 = vrt::capture([&] { (void)RT::pickOne(v, w2, true); });
        vrt::expect(o2.raisedBpp(), "pick.empty-raises", "pickOne(v,w,replace=true)", [&] { return "pickOne(v,w,true) on an empty vector: " + o2.text(); });
      }
      vrt::cover("pick-exact:extract-weighted:" + ncls + (dup ? ":dup" : ""));
    }
    else
    {
      // the picks that leave their arguments alone: value in the source / index in range, emptiness raises
      if (r == 0) vrt::describe("const-picks:" + ncls, "pickOne(const v), pickOne(const v,const w), pickFromCumSum, giveIntRandomNumberBetweenZeroAndEntry on size " + str(n));
      const vector<int>& cv = src;
      const vector<double>& cw = w;
      vector<double> cum(n);
      {
        vector<double> p = normalised(w);
        double a = 0;
        for (size_t i = 0; i < n; ++i) { a += p[i]; cum[i] = a; }
        if (n) cum.back() = 1;
      }
      int g1 = 0, g2 = 0;
      size_t i3 = 0, i4 = 0;
      vrt::Outcome o1 = vrt::capture([&] { g1 = RT::pickOne(cv); });
      vrt::Outcome o2 = vrt::capture([&] { g2 = RT::pickOne(cv, cw); });
      vrt::Outcome o3 = vrt::capture([&] { i3 = RT::pickFromCumSum(cum); });
      vrt::Outcome o4 = vrt::capture([&] { i4 = RT::giveIntRandomNumberBetweenZeroAndEntry<size_t>(n); });
      if (n == 0)
      {
        vrt::expect(o1.raisedBpp(), "pick.empty-raises", "pickOne(const v)", [&] { return "pickOne(const v) on an empty vector: " + o1.text(); });
        vrt::expect(o2.raisedBpp(), "pick.empty-raises", "pickOne(const v,const w)", [&] { return "pickOne(const v,const w) on empty vectors: " + o2.text(); });
        vrt::expect(o3.raisedBpp(), "pick.empty-raises", "pickFromCumSum", [&] { return "pickFromCumSum on an empty vector: " + o3.text(); });
        vrt::expect(o4.raisedBpp(), "pick.empty-raises", "giveIntRandomNumberBetweenZeroAndEntry", [&] { return "giveIntRandomNumberBetweenZeroAndEntry(0): " + o4.text(); });
      }
      else
      {
        auto in = [&](int x) { return find(src.begin(), src.end(), x) != src.end(); };
        vrt::expect(o1.returned() && in(g1), "pick.element-of-source", "pickOne(const v)", [&] { return "pickOne(const v) on " + vrt::vecStr(src) + ": " + o1.text() + " " + str(g1); });
        vrt::expect(o2.returned() && in(g2), "pick.element-of-source", "pickOne(const v,const w)", [&] { return "pickOne(const v,const w) on " + vrt::vecStr(src) + ": " + o2.text() + " " + str(g2); });
        vrt::expect(o3.returned() && i3 < n, "pick.index-in-range", "pickFromCumSum", [&] { return "pickFromCumSum(" + vrt::vecStr(cum) + "): " + o3.text() + " " + str(i3); });
        vrt::expect(o4.returned() && i4 < n, "pick.index-in-range", "giveIntRandomNumberBetweenZeroAndEntry", [&] { return "giveIntRandomNumberBetweenZeroAndEntry(" + str(n) + "): " + o4.text() + " " + str(i4); });
      }
      vrt::cover("pick-exact:const:" + ncls);
    }
  }
}

// ------------------------------------------------------------------ groups rcont2-exhaustive / rcont2-random
// A table is judged cell by cell without wrap-around: every cell <= min(row total, column total), row and column sums equal the margins.
bool tableOk(const RowMatrix<size_t>& t, const vector<size_t>& rt, const vector<size_t>& ct)
{
  if (t.getNumberOfRows() != rt.size() || t.getNumberOfColumns() != ct.size()) return false;
  unsigned long long cs[8] = { 0, 0, 0, 0, 0, 0, 0, 0 };
  for (size_t i = 0; i < rt.size(); ++i)
  {
    unsigned long long rs = 0;
    for (size_t j = 0; j < ct.size(); ++j)
    {
      size_t x = t(i, j);
      if (x > rt[i] || x > ct[j]) return false;
      rs += x;
      cs[j] += x;
    }
    if (rs != rt[i]) return false;
  }
  for (size_t j = 0; j < ct.size(); ++j)
    if (cs[j] != ct[j]) return false;
  return true;
}
void reportTable(const RowMatrix<size_t>& t, const string& cls, const string& what)
{
  vrt::expect(false, "rcont2.margins", cls, [&] {
        string s = what + " => table";
        for (size_t i = 0; i < t.getNumberOfRows(); ++i) s += " " + vrt::vecStr(t.row(i));
        return s + ": row/column sums differ from the requested margins (or a cell exceeds its row/column total)";
      });
}

// all vectors of `parts` non-negative integers summing to `total`, in lexicographic order
void compositions(size_t total, size_t parts, vector<vector<size_t>>& out)
{
  vector<size_t> cur(parts, 0);
  function<void(size_t, size_t)> rec = [&](size_t i, size_t left) {
        if (i + 1 == parts) { cur[i] = left; out.push_back(cur); return; }
        for (size_t x = 0; x <= left; ++x) { cur[i] = x; rec(i + 1, left - x); }
      };
  rec(0, total);
}

const size_t EXH_TOTAL = 12;
struct ExhIndex
{
  vector<pair<size_t, vector<size_t>>> rows;      // (total, row margins)
  vector<vector<vector<size_t>>> colsByTotal;     // total -> all column margin vectors (2..5 columns)
  ExhIndex() : rows(), colsByTotal(EXH_TOTAL + 1)
  {
    for (size_t T = 0; T <= EXH_TOTAL; ++T)
      for (size_t r = 2; r <= 5; ++r)
      {
        vector<vector<size_t>> v;
        compositions(T, r, v);
        for (auto& x : v) { rows.push_back(make_pair(T, x)); colsByTotal[T].push_back(x); }
      }
  }
};
const ExhIndex& exhIndex()
{
  static const ExhIndex e;
  return e;
}

string marginClass(const vector<size_t>& rt, const vector<size_t>& ct)
{
  bool zr = find(rt.begin(), rt.end(), size_t(0)) != rt.end(), zc = find(ct.begin(), ct.end(), size_t(0)) != ct.end();
  return string(zr ? "zero-row-total" : "positive-row-totals") + "," + (zc ? "zero-column-total" : "positive-column-totals");
}

void caseRcontExhaustive(vrt::Case& c)
{
  const ExhIndex& e = exhIndex();
  const size_t T = e.rows[c.index].first;
  const vector<size_t>& rt = e.rows[c.index].second;
  vrt::describe("rcont2:exhaustive", "row totals " + vrt::vecStr(rt) + " (total " + str(T) + ") against all column-total vectors of 2..5 entries with the same total");
  u32 seed = libSeed(c);
  RandomTools::setSeed(seed);
  size_t draws = c.tier == 1 ? 4 : (T <= 8 ? 3 : 1);
  size_t bad = 0, good = 0, pairs = 0;
  for (const vector<size_t>& ct : e.colsByTotal[T])
  {
    ContingencyTableGenerator g(rt, ct);
    for (size_t d = 0; d < draws; ++d)
    {
      RowMatrix<size_t> t = g.rcont2();
      if (tableOk(t, rt, ct)) ++good;
      else
      {
        ++bad;
        reportTable(t, marginClass(rt, ct), "seed " + str(seed) + " (stream continued over the case, draw " + str(d) + ") ContingencyTableGenerator(" + vrt::vecStr(rt) + ", " + vrt::vecStr(ct) + ").rcont2()");
      }
    }
    ++pairs;
    if (bad > 5) break;
  }
  vrt::counted("rcont2.margins", good);
  vrt::tally("rcont2-margin-pairs", pairs);
  vrt::cover("rcont2:exhaustive:T" + str(T) + ":rows" + str(rt.size()));
}

vector<size_t> randomMargins(vrt::Rng& r, size_t parts, size_t total)
{
  vector<size_t> m(parts, 0);
  int style = static_cast<int>(r.below(4));
  vector<double> w(parts);
  for (size_t i = 0; i < parts; ++i) w[i] = style == 0 ? 1.0 : style == 1 ? r.logReal(0.01, 1) : style == 2 ? (i == 0 ? 20.0 : 1.0) : (r.chance(0.3) ? 0.0 : r.real(0.1, 1));
  double s = 0;
  for (double x : w) s += x;
  if (s == 0) { w[0] = 1; s = 1; }
  for (size_t k = 0; k < total; ++k)
  {
    double u = r.unit() * s, a = 0;
    size_t i = 0;
    for (; i + 1 < parts; ++i) { a += w[i]; if (u < a) break; }
    ++m[i];
  }
  return m;
}

void caseRcontRandom(vrt::Case& c)
{
  size_t nr = static_cast<size_t>(c.rng.range(2, 5)), nc = static_cast<size_t>(c.rng.range(2, 5));
  size_t total = static_cast<size_t>(c.rng.chance(0.3) ? c.rng.range(13, 40) : c.rng.range(13, 200));
  vector<size_t> rt = randomMargins(c.rng, nr, total), ct = randomMargins(c.rng, nc, total);
  u32 seed = libSeed(c);
  vrt::describe("rcont2:random", "seed " + str(seed) + " margins " + vrt::vecStr(rt) + " x " + vrt::vecStr(ct));
  RandomTools::setSeed(seed);
  ContingencyTableGenerator g(rt, ct);
  size_t draws = c.tier == 1 ? 40 : 20, good = 0;
  for (size_t d = 0; d < draws; ++d)
  {
    RowMatrix<size_t> t = g.rcont2();
    if (tableOk(t, rt, ct)) { ++good; continue; }
    reportTable(t, marginClass(rt, ct), "seed " + str(seed) + " draw " + str(d) + " ContingencyTableGenerator(" + vrt::vecStr(rt) + ", " + vrt::vecStr(ct) + ").rcont2()");
    break;
  }
  vrt::counted("rcont2.margins", good);
  // margins that do not agree, or fewer than two rows/columns, are refused by a library exception (constructor contract)
  if (c.index % 16 == 0)
  {
    vector<size_t> ct2(ct);
    ct2[0] += 1;
    vrt::Outcome o = vrt::capture([&] { ContingencyTableGenerator g2(rt, ct2); (void)g2.rcont2(); });
    vrt::expect(!o.returned() ? o.raisedBpp() : true, "rcont2.inconsistent-margins-no-foreign-exception", "ctor", [&] { return "margins with different totals: " + o.text(); });
  }
  vrt::cover("rcont2:random:" + str(nr) + "x" + str(nc) + ":" + marginClass(rt, ct) + (total > 100 ? ":total>100" : ":total<=100"));
}

// ------------------------------------------------------------------ group ctest-pvalue
void caseCtest(vrt::Case& c)
{
  size_t nr = static_cast<size_t>(c.rng.range(2, 5)), nc = static_cast<size_t>(c.rng.range(2, 5));
  int style = static_cast<int>(c.rng.below(6));
  static const char* STYLE[] = { "small-counts", "independent", "diagonal", "one-heavy-cell", "sparse", "zero-margin" };
  vector<vector<size_t>> tab(nr, vector<size_t>(nc, 0));
  size_t budget = static_cast<size_t>(c.rng.range(4, 200));
  if (style == 0)
  {
    for (auto& row : tab) for (auto& x : row) x = static_cast<size_t>(c.rng.range(0, 5));
  }
  else if (style == 1)
  {
    vector<size_t> rt = randomMargins(c.rng, nr, budget);
    for (size_t i = 0; i < nr; ++i) tab[i] = randomMargins(c.rng, nc, rt[i]);
  }
  else if (style == 2)
  {
    for (size_t k = 0; k < max(nr, nc); ++k) tab[k % nr][k % nc] += static_cast<size_t>(c.rng.range(1, static_cast<long long>(max<size_t>(1, budget / max(nr, nc)))));
  }
  else if (style == 3)
  {
    for (auto& row : tab) for (auto& x : row) x = static_cast<size_t>(c.rng.range(0, 2));
    tab[c.rng.below(nr)][c.rng.below(nc)] += budget;
  }
  else
  {
    for (size_t k = 0; k < budget / 4 + 2; ++k) tab[c.rng.below(nr)][c.rng.below(nc)] += static_cast<size_t>(c.rng.range(1, 4));
    if (style == 5) { size_t i = c.rng.below(nr); for (auto& x : tab[i]) x = 0; }
  }
  bool zeroMargin = false;
  for (size_t i = 0; i < nr; ++i) { size_t s = 0; for (size_t x : tab[i]) s += x; zeroMargin |= s == 0; }
  for (size_t j = 0; j < nc; ++j) { size_t s = 0; for (size_t i = 0; i < nr; ++i) s += tab[i][j]; zeroMargin |= s == 0; }
  static const unsigned PERM[] = { 0, 0, 1, 30 };
  unsigned perms = PERM[c.rng.below(4)];
  u32 seed = libSeed(c);
  string ts;
  for (auto& row : tab) ts += " " + vrt::vecStr(row);
  string what = "seed " + str(seed) + " ContingencyTableTest(table" + ts + ", nbPermutations=" + str(perms) + ")";
  vrt::describe(string("ctest:") + STYLE[style] + (perms ? ":permutations" : ":chisquare"), what);
  RandomTools::setSeed(seed);
  double p = -7, stat = -7;
  vrt::Outcome o = vrt::capture([&] { ContingencyTableTest t(tab, perms, false); p = t.getPValue(); stat = t.getStatistic(); });
  string cls = string(perms ? "permutations" : "chisquare");
  if (zeroMargin)
  {
    // a table with an empty row or column has no defined statistic: a library exception or a value in [0,1] are both admissible
    vrt::expect(o.raisedBpp() || (o.returned() && p >= 0 && p <= 1), "ctest.zero-margin", cls, [&] { return what + ": " + o.text() + " p=" + str(p); });
    vrt::cover("ctest:zero-margin:" + cls + ":" + outcomeClass(o));
    return;
  }
  if (!vrt::expect(o.returned(), "ctest.returns", cls, [&] { return what + ": " + o.text(); })) return;
  vrt::expect(p >= 0 && p <= 1, "ctest.pvalue-in-unit-interval", cls, [&] { return what + ": p-value " + str(p) + " (statistic " + str(stat) + ")"; });
  vrt::cover(string("ctest:") + STYLE[style] + ":" + cls + ":" + str(nr) + "x" + str(nc));
}

// ------------------------------------------------------------------ group hmm-sample
void caseHmm(vrt::Case& c)
{
  size_t n = static_cast<size_t>(c.rng.range(2, 5));
  bool full = c.index % 2 == 0;
  string text;
  unique_ptr<HmmTransitionMatrix> t = genHmm(c.rng, n, full, text);
  AbstractHmmTransitionMatrix& m = dynamic_cast<AbstractHmmTransitionMatrix&>(*t);
  u32 seed = libSeed(c);
  string api = full ? "FullHmmTransitionMatrix::sample" : "AutoCorrelationTransitionMatrix::sample";
  bool eqFirst = c.rng.chance(0.5); // query the equilibrium frequencies before or after sampling
  vector<double> pi;
  if (eqFirst) pi = t->getEquilibriumFrequencies();
  size_t L = static_cast<size_t>(c.rng.range(2, 8)), chains = 20000 / (L - 1);
  vrt::describe(api, text + " seed " + str(seed) + ": " + str(chains) + " chains of length " + str(L));
  RandomTools::setSeed(seed);
  vector<size_t> first(n, 0);
  vector<vector<size_t>> trans(n, vector<size_t>(n, 0));
  size_t badLen = 0, badState = 0;
  for (size_t k = 0; k < chains; ++k)
  {
    vector<size_t> s = m.sample(L);
    if (s.size() != L) { ++badLen; continue; }
    bool ok = true;
    for (size_t x : s) ok &= x < n;
    if (!ok) { ++badState; continue; }
    ++first[s[0]];
    for (size_t i = 0; i + 1 < L; ++i) ++trans[s[i]][s[i + 1]];
  }
  vrt::expect(m.sample(0).empty() && m.sample(1).size() == 1, "hmm.length", api, [&] { return text + ": sample(0)/sample(1) have not 0/1 states"; });
  vrt::expect(badLen == 0, "hmm.length", api, [&] { return text + ": " + str(badLen) + " sampled chains have not the requested length " + str(L); });
  if (!vrt::expect(badState == 0, "hmm.state-in-range", api, [&] { return text + ": " + str(badState) + " chains contain a state index >= " + str(n); })) return;
  if (!eqFirst) pi = t->getEquilibriumFrequencies();
  const Matrix<double>& P = t->getPij();
  judgeFreq(api + ":first-state", text + " first state against getEquilibriumFrequencies()", seed, first, pi, chains);
  // transitions: n_ij - n_i p_ij is a martingale with increments bounded by 1 over T = chains*(L-1) steps and conditional
  // variance <= p_ij(1-p_ij) per step: Freedman's inequality gives the Bernstein bound with T trials.
  size_t T = chains * (L - 1);
  size_t reported = 0;
  for (size_t i = 0; i < n && reported < 2; ++i)
  {
    size_t ni = 0;
    for (size_t j = 0; j < n; ++j) ni += trans[i][j];
    for (size_t j = 0; j < n; ++j)
    {
      double pij = P(i, j);
      double dev = std::fabs(static_cast<double>(trans[i][j]) - static_cast<double>(ni) * pij) / static_cast<double>(T);
      vrt::tally("stat-comparisons");
      if (!vrt::expect(dev <= freqBound(T, pij), "freq.bound", api + ":transition", [&] {
              return text + " seed " + str(seed) + ": " + str(trans[i][j]) + " transitions " + str(i) + "->" + str(j) + " out of " + str(ni) + " visits, expected probability " + str(pij)
              + " (allowed deviation " + str(freqBound(T, pij) * static_cast<double>(T)) + " counts)";
            })) ++reported;
    }
  }
  vrt::cover(string("hmm:") + (full ? "full" : "autocorrelation") + ":states" + str(n) + (eqFirst ? ":eq-first" : ":sample-first"));
}

// ------------------------------------------------------------------ group dirichlet
// One Dirichlet object judged: continuous draws on the simplex with Beta marginals, discrete draws on the simplex.
// `tag` is appended to the structural classes ("" for the bulk grid).  Returns false when the constructor refused.
bool judgeDirichlet(const vector<size_t>& vn, const Vdouble& alpha, u32 seed, const string& what, const string& tag)
{
  size_t dim = alpha.size();
  unique_ptr<DirichletDiscreteDistribution> d;
  vrt::Outcome oc = vrt::capture([&] { d.reset(new DirichletDiscreteDistribution(vn, alpha)); });
  if (!oc.returned()) { vrt::tally("dirichlet-ctor-refused"); return false; }
  const size_t N = 20000;
  vector<vector<double>> comp(dim, vector<double>(N));
  RandomTools::setSeed(seed);
  size_t badShape = 0;
  for (size_t k = 0; k < N; ++k)
  {
    Vdouble v = d->randC();
    double s = 0;
    bool ok = v.size() == dim;
    for (size_t i = 0; ok && i < dim; ++i) { ok = v[i] >= -1e-12 && v[i] <= 1 + 1e-12; s += v[i]; comp[i][k] = min(1.0, max(0.0, v[i])); }
    if (!ok || std::fabs(s - 1) > 1e-9) ++badShape;
  }
  if (!vrt::expect(badShape == 0, "dirichlet.on-simplex", "randC" + tag, [&] { return what + ": " + str(badShape) + " continuous draws are not points of the simplex"; })) return true;
  double A = 0;
  for (double a : alpha) A += a;
  for (size_t i = 0; i < dim; ++i)
  {
    double ai = alpha[i], bi = A - alpha[i];
    judgeLaw("Dirichlet::randC:marginal" + tag, what + " component " + str(i) + " against pBeta(x, alpha_i, sum of the others)", seed, comp[i], 0, 1,
        [&](double x) { return x <= 0 ? 0. : x >= 1 ? 1. : RandomTools::pBeta(x, ai, bi); });
  }
  size_t badD = 0;
  for (size_t k = 0; k < 200; ++k)
  {
    Vdouble v = d->rand();
    double s = 0;
    bool ok = v.size() == dim;
    for (size_t i = 0; ok && i < dim; ++i) { ok = v[i] >= -1e-12 && v[i] <= 1 + 1e-12; s += v[i]; }
    if (!ok || std::fabs(s - 1) > 1e-9) ++badD;
  }
  vrt::expect(badD == 0, "dirichlet.on-simplex", "rand" + tag, [&] { return what + ": " + str(badD) + " discrete draws are not points of the simplex"; });
  return true;
}

void caseDirichlet(vrt::Case& c)
{
  size_t dim = static_cast<size_t>(c.rng.range(2, 4));
  vector<size_t> vn(dim - 1);
  Vdouble alpha(dim);
  for (auto& x : vn) x = static_cast<size_t>(c.rng.range(1, 3));
  // alpha >= 0.5: below, the Beta components narrow their domain by their precision, which moves visible mass (see dist-randC Beta)
  for (auto& a : alpha) { do a = gridParam(c.rng); while (a < 0.5); }
  u32 seed = libSeed(c);
  string what = "DirichletDiscreteDistribution(classes " + vrt::vecStr(vn) + ", alpha " + vrt::vecStr(alpha) + ")";
  vrt::describe("Dirichlet", what + " seed " + str(seed));
  if (!judgeDirichlet(vn, alpha, seed, what, "")) return;
  vrt::cover("dirichlet:dim" + str(dim));
}

// ------------------------------------------------------------------ group unit-param (arguments exactly equal to 1)
// The bulk grid keeps away from (0.8,1.25): at 1 a mean and a rate, a variance and a deviation coincide, so a convention
// error is invisible there.  The value 1 itself is inside the stated quantifier (means/rates/shapes 0.1..20) and the law is
// fully determined there too; it is also the value at which samplers have closed forms and shortcuts of their own (Beta(1,b),
// Beta(a,1), Gamma(1,.) = exponential, unit variance, the unit interval).  Every continuous sampler and every family's
// randC/rand is therefore run with each of its mean/rate/shape/deviation arguments set to exactly 1: one at a time (the others
// from the grid) and all together, through the constructor and through setParameterValue.  Same oracles as the bulk groups
// (KS distance to the library's own cdf with the same parameters, class frequencies).
string unitTag(int pattern, const char* first, const char* second)
{
  return pattern == 0 ? string(first) + "=1" : pattern == 1 ? string(second) + "=1" : string(first) + "=" + second + "=1";
}

const int UNIT_KINDS = 16;

void caseUnitParam(vrt::Case& c)
{
  typedef RandomTools RT;
  const size_t N = 20000;
  const double inf = std::numeric_limits<double>::infinity();
  int kind = static_cast<int>(c.index % UNIT_KINDS);
  u64 rest = c.index / UNIT_KINDS;
  int pattern = static_cast<int>(rest % 3);  // which argument is 1: the first, the second, both
  bool update = (rest / 3) % 2 == 1;         // (families) parameters given to the constructor, or set afterwards
  string route = update ? "updated" : "ctor";
  u32 seed = libSeed(c);
  double g1 = gridParam(c.rng), g2 = gridParam(c.rng);
  double a = pattern == 1 ? g1 : 1., b = pattern == 0 ? g2 : 1.; // two-argument samplers: (a,b) = (1,g) / (g,1) / (1,1)
  double a0 = gridParam(c.rng), b0 = gridParam(c.rng);           // values before the update
  size_t n = static_cast<size_t>(c.rng.range(1, 8));
  double mean = pattern == 0 ? 0. : pattern == 1 ? 1. : c.rng.real(-20, 20);
  string meanTag = pattern == 0 ? ":mean=0" : pattern == 1 ? ":mean=1" : "";
  vector<double> xs(N);
  switch (kind)
  {
  case 0:
  {
    string w = "giveRandomNumberBetweenZeroAndEntry(1)";
    vrt::describe("unit:uniform", w);
    RT::setSeed(seed);
    for (double& x : xs) x = RT::giveRandomNumberBetweenZeroAndEntry(1.0);
    judgeLaw("RandomTools::giveRandomNumberBetweenZeroAndEntry:entry=1", w, seed, xs, 0, 1, [&](double x) { return x; });
    vrt::cover("unit:uniform");
    break;
  }
  case 1:
  {
    string w = "randGaussian(mean=" + str(mean) + ", variance=1) against pNorm(x, mean, 1)";
    vrt::describe("unit:gaussian", w);
    RT::setSeed(seed);
    for (double& x : xs) x = RT::randGaussian(mean, 1.);
    judgeLaw("RandomTools::randGaussian:variance=1", w, seed, xs, -inf, inf, [&](double x) { return RT::pNorm(x, mean, 1.); });
    vrt::cover("unit:gaussian" + meanTag);
    break;
  }
  case 2:
  {
    string w = "randExponential(mean=1) against 1-exp(-x)";
    vrt::describe("unit:exponential", w);
    RT::setSeed(seed);
    for (double& x : xs) x = RT::randExponential(1.);
    judgeLaw("RandomTools::randExponential:mean=1", w, seed, xs, 0, inf, [&](double x) { return 1 - std::exp(-x); });
    vrt::cover("unit:exponential");
    break;
  }
  case 3:
  {
    string w = "randGamma(alpha=1) against pGamma(x, 1, 1)";
    vrt::describe("unit:gamma1", w);
    RT::setSeed(seed);
    for (double& x : xs) x = RT::randGamma(1.);
    judgeLaw("RandomTools::randGamma(alpha):alpha=1", w, seed, xs, 0, inf, [&](double x) { return RT::pGamma(x, 1., 1.); });
    vrt::cover("unit:gamma1");
    break;
  }
  case 4:
  {
    string tag = unitTag(pattern, "alpha", "beta");
    string w = "randGamma(alpha=" + str(a) + ", beta=" + str(b) + ") against pGamma(x, alpha, beta)";
    vrt::describe("unit:gamma2:" + tag, w);
    RT::setSeed(seed);
    for (double& x : xs) x = RT::randGamma(a, b);
    judgeLaw("RandomTools::randGamma(alpha,beta):" + tag, w, seed, xs, 0, inf, [&](double x) { return RT::pGamma(x, a, b); });
    vrt::cover("unit:gamma2:" + tag);
    break;
  }
  case 5:
  {
    string tag = unitTag(pattern, "alpha", "beta");
    string w = "randBeta(alpha=" + str(a) + ", beta=" + str(b) + ") against pBeta(x, alpha, beta)";
    vrt::describe("unit:beta:" + tag, w);
    RT::setSeed(seed);
    for (double& x : xs) x = RT::randBeta(a, b);
    judgeLaw("RandomTools::randBeta:" + tag, w, seed, xs, 0, 1, [&](double x) { return x <= 0 ? 0. : x >= 1 ? 1. : RT::pBeta(x, a, b); });
    vrt::cover("unit:beta:" + tag);
    break;
  }
  case 6:
  {
    string tag = unitTag(pattern, "alpha", "beta");
    string w = "GammaDiscreteDistribution(n=" + str(n) + ", alpha=" + str(a) + ", beta=" + str(b) + ") " + route;
    vrt::describe("unit:Gamma:" + tag, w);
    GammaDiscreteDistribution d(n, update ? a0 : a, update ? b0 : b);
    if (update) { d.setParameterValue("alpha", a); d.setParameterValue("beta", b); }
    judgeRandC("Gamma(" + tag + ")", route, w, seed, d, 0, inf);
    vrt::cover("unit:randC:Gamma:" + tag + ":" + route);
    break;
  }
  case 7:
  {
    string w = "GaussianDiscreteDistribution(n=" + str(n) + ", mu=" + str(mean) + ", sigma=1) " + route;
    vrt::describe("unit:Gaussian", w);
    GaussianDiscreteDistribution d(n, update ? 0.5 : mean, update ? a0 : 1.);
    if (update) { d.setParameterValue("mu", mean); d.setParameterValue("sigma", 1.); }
    judgeRandC("Gaussian(sigma=1)", route, w, seed, d, -inf, inf);
    vrt::cover("unit:randC:Gaussian:" + route + meanTag);
    break;
  }
  case 8:
  {
    string w = "ExponentialDiscreteDistribution(n=" + str(n) + ", lambda=1) " + route;
    vrt::describe("unit:Exponential", w);
    ExponentialDiscreteDistribution d(n, update ? a0 : 1.);
    if (update) d.setParameterValue("lambda", 1.);
    judgeRandC("Exponential(lambda=1)", route, w, seed, d, 0, inf);
    vrt::cover("unit:randC:Exponential:" + route);
    break;
  }
  case 9:
  {
    // lambda*tp in [0.2,4] as in the bulk group (acceptance probability of the rejection loop >= 0.18)
    double lambda = 1., tp = 1.;
    if (pattern == 0) tp = c.rng.real(0.2, 4);
    else if (pattern == 1) lambda = c.rng.chance(0.5) ? c.rng.real(0.2, 0.8) : c.rng.real(1.25, 4);
    string tag = unitTag(pattern, "lambda", "tp");
    string w = "TruncatedExponentialDiscreteDistribution(n=" + str(n) + ", lambda=" + str(lambda) + ", tp=" + str(tp) + ") " + route;
    vrt::describe("unit:TruncExponential:" + tag, w);
    TruncatedExponentialDiscreteDistribution d(n, update ? a0 : lambda, update ? 1.0 / a0 : tp);
    if (update) { d.setParameterValue("lambda", lambda); d.setParameterValue("tp", tp); }
    judgeRandC("TruncExponential(" + tag + ")", route, w, seed, d, 0, tp);
    vrt::cover("unit:randC:TruncExponential:" + tag + ":" + route);
    break;
  }
  case 10:
  {
    string tag = unitTag(pattern, "alpha", "beta");
    string w = "BetaDiscreteDistribution(n=" + str(n) + ", alpha=" + str(a) + ", beta=" + str(b) + ") " + route;
    vrt::describe("unit:Beta:" + tag, w);
    BetaDiscreteDistribution d(n, update ? a0 : a, update ? b0 : b);
    if (update) { d.setParameterValue("alpha", a); d.setParameterValue("beta", b); }
    judgeRandC("Beta(" + tag + ")", route, w, seed, d, 0, 1);
    vrt::cover("unit:randC:Beta:" + tag + ":" + route);
    break;
  }
  case 11:
  {
    // the unit interval itself, a unit-width interval elsewhere, the unit interval left of 0
    double lo = pattern == 0 ? 0. : pattern == 1 ? c.rng.real(-20, 20) : -1., hi = lo + 1;
    string tag = pattern == 0 ? "[0,1]" : pattern == 1 ? "width=1" : "[-1,0]";
    string w = "UniformDiscreteDistribution(n=" + str(n) + ", " + str(lo) + ", " + str(hi) + ")";
    vrt::describe("unit:Uniform:" + tag, w);
    UniformDiscreteDistribution d(static_cast<unsigned int>(n), lo, hi);
    judgeRandC("Uniform(" + tag + ")", "ctor", w, seed, d, lo, hi);
    vrt::cover("unit:randC:Uniform:" + tag);
    break;
  }
  case 12:
  {
    // Dirichlet (stick breaking: component j is a Beta(alpha_j, sum of the later alphas) draw): one alpha_j = 1 before the
    // last position / the last alpha = 1 (second Beta shape of the last stick = 1) / all alphas = 1 (uniform on the simplex)
    size_t dim = static_cast<size_t>(c.rng.range(2, 4));
    vector<size_t> vn(dim - 1);
    Vdouble alpha(dim);
    for (auto& x : vn) x = static_cast<size_t>(c.rng.range(1, 3));
    for (auto& x : alpha) { do x = gridParam(c.rng); while (x < 0.5); }
    size_t at = pattern == 0 ? c.rng.below(dim - 1) : dim - 1;
    if (pattern == 2) for (auto& x : alpha) x = 1.; else alpha[at] = 1.;
    string tag = pattern == 0 ? "alpha_j=1" : pattern == 1 ? "alpha_last=1" : "all-alpha=1";
    string what = "DirichletDiscreteDistribution(classes " + vrt::vecStr(vn) + ", alpha " + vrt::vecStr(alpha) + ")";
    vrt::describe("unit:Dirichlet:" + tag, what + " seed " + str(seed));
    if (!judgeDirichlet(vn, alpha, seed, what, ":" + tag)) break;
    vrt::cover("unit:dirichlet:" + tag);
    break;
  }
  case 13:
  {
    string tag = unitTag(pattern, "alpha", "beta");
    size_t m = static_cast<size_t>(c.rng.range(1, 10));
    string w = "GammaDiscreteDistribution(n=" + str(m) + ", alpha=" + str(a) + ", beta=" + str(b) + ") " + route;
    vrt::describe("unit:Gamma.rand:" + tag, w);
    GammaDiscreteDistribution d(m, update ? 2. : a, update ? 3. : b);
    if (update) { d.setParameterValue("alpha", a); d.setParameterValue("beta", b); }
    judgeRand("Gamma(" + tag + ")", w, seed, d);
    vrt::cover("unit:rand:Gamma:" + tag + ":" + route);
    break;
  }
  case 14:
  {
    string tag = unitTag(pattern, "alpha", "beta");
    size_t m = static_cast<size_t>(c.rng.range(1, 10));
    string w = "BetaDiscreteDistribution(n=" + str(m) + ", alpha=" + str(a) + ", beta=" + str(b) + ") " + route;
    vrt::describe("unit:Beta.rand:" + tag, w);
    BetaDiscreteDistribution d(m, update ? 2. : a, update ? 3. : b);
    if (update) { d.setParameterValue("alpha", a); d.setParameterValue("beta", b); }
    judgeRand("Beta(" + tag + ")", w, seed, d);
    vrt::cover("unit:rand:Beta:" + tag + ":" + route);
    break;
  }
  default:
  {
    size_t m = static_cast<size_t>(c.rng.range(1, 10));
    if (pattern == 0)
    {
      string w = "ExponentialDiscreteDistribution(n=" + str(m) + ", lambda=1) " + route;
      vrt::describe("unit:Exponential.rand", w);
      ExponentialDiscreteDistribution d(m, update ? 2. : 1.);
      if (update) d.setParameterValue("lambda", 1.);
      judgeRand("Exponential(lambda=1)", w, seed, d);
      vrt::cover("unit:rand:Exponential:" + route);
    }
    else
    {
      double mu = pattern == 1 ? 0. : c.rng.real(-20, 20);
      string w = "GaussianDiscreteDistribution(n=" + str(m) + ", mu=" + str(mu) + ", sigma=1) " + route;
      vrt::describe("unit:Gaussian.rand", w);
      GaussianDiscreteDistribution d(m, update ? 0.5 : mu, update ? 2. : 1.);
      if (update) { d.setParameterValue("mu", mu); d.setParameterValue("sigma", 1.); }
      judgeRand("Gaussian(sigma=1)", w, seed, d);
      vrt::cover("unit:rand:Gaussian:" + route);
    }
  }
  }
}

// ------------------------------------------------------------------ group reconfigured (draws of an object with a history)
// The bulk groups draw from an object right after its constructor, or after setParameterValue in the default namespace.
// "Each distribution's own continuous and discrete draws follow the law that the same parameters describe" holds for the
// parameters the object has NOW, whatever happened to it before: built, copied, cloned or assigned from another object; its
// parameter namespace changed (custom, empty, changed twice, changed and restored); some or all of its parameters updated,
// once or twice, through any entry of the Parametrizable interface (setParameterValue, setParametersValues,
// matchParametersValues with a partial list + a foreign parameter or with a full list, setAllParametersValues); copied again
// after the update.  One case = one family x one such history.  Reference = a FRESH object of the same family built by the
// constructor from the parameter values the object under test reports (the route the bulk groups judge): its pProb is "the
// library's cumulative function with the same parameters", its domain the domain that belongs to these parameters.
struct ReFamily
{
  string name;
  vector<string> pn; // parameter names without namespace
  function<unique_ptr<AbstractDiscreteDistribution>(size_t, const vector<double>&)> make;
  function<unique_ptr<AbstractDiscreteDistribution>(const AbstractDiscreteDistribution&)> copy;               // copy constructor
  function<void(AbstractDiscreteDistribution&, const AbstractDiscreteDistribution&)> assign;                 // operator=
  function<vector<double>(vrt::Rng&)> gen;                                                                   // a parameter point of the quantifier
  function<double(const vector<double>&, size_t, vrt::Rng&)> other;                                          // a materially different value of parameter i
  function<pair<double, double>(const vector<double>&)> support;
};

template<class D> unique_ptr<AbstractDiscreteDistribution> reCopy(const AbstractDiscreteDistribution& s)
{
  return unique_ptr<AbstractDiscreteDistribution>(new D(dynamic_cast<const D&>(s)));
}
template<class D> void reAssign(AbstractDiscreteDistribution& t, const AbstractDiscreteDistribution& s)
{
  dynamic_cast<D&>(t) = dynamic_cast<const D&>(s);
}

// another grid value, at least a factor 2 away (a stale member then moves the cdf by far more than the KS threshold)
double otherGrid(double v, vrt::Rng& r)
{
  for (;;)
  {
    double x = gridParam(r);
    if (x >= 2 * v || x <= v / 2) return x;
  }
}

const vector<ReFamily>& reFamilies()
{
  static const double inf = std::numeric_limits<double>::infinity();
  static const vector<ReFamily> F = {
    { "Gamma", { "alpha", "beta" },
      [](size_t n, const vector<double>& v) { return unique_ptr<AbstractDiscreteDistribution>(new GammaDiscreteDistribution(n, v[0], v[1])); },
      reCopy<GammaDiscreteDistribution>, reAssign<GammaDiscreteDistribution>,
      [](vrt::Rng& r) { double a = gridParam(r), b = gridParam(r); return vector<double>{ a, b }; },
      [](const vector<double>& v, size_t i, vrt::Rng& r) { return otherGrid(v[i], r); },
      [](const vector<double>&) { return make_pair(0., inf); } },
    { "Gamma+offset", { "alpha", "beta", "offset" },
      [](size_t n, const vector<double>& v) { return unique_ptr<AbstractDiscreteDistribution>(new GammaDiscreteDistribution(n, v[0], v[1], 0.05, 0.05, true, v[2])); },
      reCopy<GammaDiscreteDistribution>, reAssign<GammaDiscreteDistribution>,
      [](vrt::Rng& r) { static const double OFF[] = { -3, -0.5, 0.5, 3 }; double a = gridParam(r), b = gridParam(r); return vector<double>{ a, b, OFF[r.below(4)] }; },
      [](const vector<double>& v, size_t i, vrt::Rng& r) {
        static const double OFF[] = { -3, -0.5, 0.5, 3 };
        if (i < 2) return otherGrid(v[i], r);
        for (;;) { double o = OFF[r.below(4)]; if (o != v[2]) return o; }
      },
      [](const vector<double>& v) { return make_pair(v[2], inf); } },
    { "Gaussian", { "mu", "sigma" },
      [](size_t n, const vector<double>& v) { return unique_ptr<AbstractDiscreteDistribution>(new GaussianDiscreteDistribution(n, v[0], v[1])); },
      reCopy<GaussianDiscreteDistribution>, reAssign<GaussianDiscreteDistribution>,
      [](vrt::Rng& r) { double mu = r.chance(0.3) ? 0. : r.real(-20, 20); double s = gridParam(r); return vector<double>{ mu, s }; },
      [](const vector<double>& v, size_t i, vrt::Rng& r) {
        if (i == 1) return otherGrid(v[1], r);
        double shift = (2 * v[1] + 1) * r.real(1, 3);
        return r.chance(0.5) ? v[0] + shift : v[0] - shift;
      },
      [](const vector<double>&) { return make_pair(-inf, inf); } },
    { "Exponential", { "lambda" },
      [](size_t n, const vector<double>& v) { return unique_ptr<AbstractDiscreteDistribution>(new ExponentialDiscreteDistribution(n, v[0])); },
      reCopy<ExponentialDiscreteDistribution>, reAssign<ExponentialDiscreteDistribution>,
      [](vrt::Rng& r) { return vector<double>{ gridParam(r) }; },
      [](const vector<double>& v, size_t i, vrt::Rng& r) { return otherGrid(v[i], r); },
      [](const vector<double>&) { return make_pair(0., inf); } },
    { "TruncExponential", { "lambda", "tp" },
      [](size_t n, const vector<double>& v) { return unique_ptr<AbstractDiscreteDistribution>(new TruncatedExponentialDiscreteDistribution(n, v[0], v[1])); },
      reCopy<TruncatedExponentialDiscreteDistribution>, reAssign<TruncatedExponentialDiscreteDistribution>,
      // lambda*tp in [0.2,4] as in the bulk group (acceptance probability of the rejection loop >= 0.18)
      [](vrt::Rng& r) { double l = gridParam(r); double tp = r.real(0.2, 4) / l; return vector<double>{ l, tp }; },
      [](const vector<double>& v, size_t i, vrt::Rng& r) {
        if (i == 0) return otherGrid(v[0], r);
        double f = r.real(2, 5);
        return r.chance(0.5) ? v[1] * f : v[1] / f; // the truncation point moves out or in
      },
      [](const vector<double>& v) { return make_pair(0., v[1]); } },
    { "Beta", { "alpha", "beta" },
      [](size_t n, const vector<double>& v) { return unique_ptr<AbstractDiscreteDistribution>(new BetaDiscreteDistribution(n, v[0], v[1])); },
      reCopy<BetaDiscreteDistribution>, reAssign<BetaDiscreteDistribution>,
      [](vrt::Rng& r) { double a = gridParam(r), b = gridParam(r); return vector<double>{ a, b }; },
      [](const vector<double>& v, size_t i, vrt::Rng& r) { return otherGrid(v[i], r); },
      [](const vector<double>&) { return make_pair(0., 1.); } },
  };
  return F;
}

const char* const RE_NS[] = { "default", "custom", "empty", "renamed-twice", "restored" };
const char* const RE_ORIGIN[] = { "ctor", "copy", "clone", "assigned" };
const char* const RE_ROUTE[] = { "setParameterValue", "setParametersValues(sublist)", "matchParametersValues(sublist+foreign)", "matchParametersValues(full)", "setAllParametersValues" };
const int RE_NNS = 5, RE_NORIGIN = 4, RE_NROUTE = 5, RE_COMBOS = RE_NNS * RE_NORIGIN * RE_NROUTE;

string reCustomNamespace(vrt::Rng& r, const string& dflt)
{
  switch (r.below(5))
  {
  case 0: return "model1.rates.";
  case 1: return "x.";
  case 2: return "Y." + dflt;        // ends with the default prefix
  case 3: return dflt + "sub.";      // starts with the default prefix
  default: return "m_" + str(r.range(1, 99)) + ".";
  }
}

// set the parameters `which` of d to `val` through one entry of the Parametrizable interface
void reUpdate(AbstractDiscreteDistribution& d, const ReFamily& f, int route, vector<size_t> which, const vector<double>& val, vrt::Rng& r)
{
  string ns = d.getNamespace();
  string txt = string(RE_ROUTE[route]) + " in namespace '" + ns + "':";
  for (size_t i : which) txt += " " + f.pn[i] + "=" + str(val[i]);
  vrt::step(txt);
  if (route == 0)
  {
    r.shuffle(which);
    for (size_t i : which) d.setParameterValue(f.pn[i], val[i]);
    return;
  }
  ParameterList pl;
  if (route == 1 || route == 2)
  {
    vector<string> names;
    for (size_t i : which) names.push_back(ns + f.pn[i]);
    pl = d.getParameters().createSubList(names);
    if (route == 2) pl.addParameter(Parameter("other.kappa", 2.0));
  }
  else
    pl = d.getParameters();
  for (size_t i : which) pl.setParameterValue(ns + f.pn[i], val[i]);
  if (route == 1) d.setParametersValues(pl);
  else if (route == 4) d.setAllParametersValues(pl);
  else (void)d.matchParametersValues(pl);
}

bool sameEnd(double a, double b)
{
  if (a == b) return true;
  return std::isfinite(a) && std::isfinite(b) && std::fabs(a - b) <= 1e-9 * max(1.0, max(std::fabs(a), std::fabs(b)));
}

// Continuous draws of d against the cumulative function of `ref` (a fresh object with the same parameters).  A family whose
// randC rejects draws outside the object's own domain may follow the law conditioned on that domain (see judgeRandC) - but
// only when this domain is the domain of the fresh object up to the class's precision (Beta narrows [0,1] by 1e-20 after an
// update); a domain left over from earlier parameters is not a reading of the law of the current ones.
void judgeRandCRef(const string& api, const string& what, u32 seed, const DiscreteDistributionInterface& d, const DiscreteDistributionInterface& ref, double lo, double hi)
{
  const size_t N = 20000;
  vector<double> xs(N);
  RandomTools::setSeed(seed);
  vrt::Outcome o = vrt::capture([&] { for (double& x : xs) x = d.randC(); });
  if (!vrt::expect(o.returned(), "randC.returns", api, [&] { return what + " seed " + str(seed) + ": randC " + o.text(); })) return;
  const double eps = std::numeric_limits<double>::epsilon();
  // resolution of doubles at an excluded, finite, non-zero domain end (rule of judgeRandC), for the domain of either object
  double mass = 0;
  for (const DiscreteDistributionInterface* q : { &d, &ref })
  {
    double dl = q->getLowerBound(), du = q->getUpperBound(), m = 0;
    if (std::isfinite(dl) && dl != 0 && q->strictLowerBound()) m += ref.pProb(dl + 4 * eps * std::fabs(dl)) - ref.pProb(dl);
    if (std::isfinite(du) && du != 0 && q->strictUpperBound()) m += ref.pProb(du) - ref.pProb(du - 4 * eps * std::fabs(du));
    if (!(m <= mass)) mass = m;
  }
  if (!(mass <= 1e-3))
  {
    size_t off = 0;
    for (double v : xs) off += !(std::isfinite(v) && v >= lo && v <= hi);
    vrt::expect(off == 0, "law.support", api, [&] { return what + " seed " + str(seed) + ": " + str(off) + " draws are not finite or outside [" + str(lo) + "," + str(hi) + "]"; });
    vrt::tally("law-not-judged:mass-within-4ulp-of-an-excluded-domain-end:reconfigured");
    return;
  }
  function<double(double)> alt;
  double dl = d.getLowerBound(), du = d.getUpperBound();
  if (sameEnd(dl, ref.getLowerBound()) && sameEnd(du, ref.getUpperBound()))
  {
    double Fl = ref.pProb(dl), Fu = ref.pProb(du);
    if (std::isfinite(Fl) && std::isfinite(Fu) && Fu - Fl > 0.5 && (Fl > 0 || Fu < 1))
      alt = [&ref, Fl, Fu](double x) { double f = (ref.pProb(x) - Fl) / (Fu - Fl); return f < 0 ? 0. : f > 1 ? 1. : f; };
  }
  judgeLaw(api, what, seed, xs, lo, hi, [&](double x) { return ref.pProb(x); }, alt);
}

// largest distance between the cumulative function G of a discrete law on the points `at` (ascending; G(x) = mass of points <= x,
// given by cum[i] at at[i]) and the continuous cumulative function F, over all x: attained just before or at a point.
double stepDistance(const vector<double>& at, const vector<double>& cum, const function<double(double)>& F)
{
  double D = 0, before = 0;
  for (size_t i = 0; i < at.size(); ++i)
  {
    double f = F(at[i]);
    if (!(f >= -1e-6 && f <= 1 + 1e-6)) return std::numeric_limits<double>::quiet_NaN();
    D = max(D, max(std::fabs(f - before), std::fabs(cum[i] - f)));
    before = cum[i];
  }
  return D;
}

// Discrete draws of d against the law of the current parameters, at the resolution of the classes: a class value stands for
// an interval of the law's mass, so the cumulative function of the class values stays within the largest class probability of
// the continuous one.  Demanded of the object under test only when the fresh object with the same parameters achieves it
// (how good a discretisation is belongs to another property), and on top of the clauses of judgeRand (own classes).
void judgeRandRef(const string& api, const string& what, u32 seed, const DiscreteDistributionInterface& d, const DiscreteDistributionInterface& ref, double lo, double hi)
{
  const size_t N = 20000;
  Vdouble rc = ref.getCategories(), rp = ref.getProbabilities();
  Vdouble dp = d.getProbabilities();
  if (rc.size() != rp.size() || rc.size() < 2 || dp.empty()) { vrt::tally("discrete-law-not-judged:single-class"); return; }
  function<double(double)> F = [&](double x) { return ref.pProb(x); };
  double maxp = 0, tot = 0;
  for (double p : rp) { maxp = max(maxp, p); tot += p; }
  for (double p : dp) maxp = max(maxp, p);
  // mass of the law outside the domain the classes are built on (Beta after an update: below 1e-20 / above 1 - 1e-20)
  double outside = 0;
  for (const DiscreteDistributionInterface* q : { &d, &ref })
  {
    if (!(sameEnd(q->getLowerBound(), ref.getLowerBound()) && sameEnd(q->getUpperBound(), ref.getUpperBound()))) continue;
    double m = ref.pProb(q->getLowerBound()) + 1 - ref.pProb(q->getUpperBound());
    if (m > outside) outside = m;
  }
  if (!(std::fabs(tot - 1) < 1e-6) || !(outside <= 0.1)) { vrt::tally("discrete-law-not-judged:fresh-discretisation-degenerate"); return; }
  vector<double> cum(rc.size());
  {
    double a = 0;
    for (size_t i = 0; i < rc.size(); ++i) { a += rp[i]; cum[i] = a; }
  }
  double dRef = stepDistance(rc, cum, F);
  if (!(dRef <= maxp + outside + 1e-6)) { vrt::tally("discrete-law-not-judged:fresh-discretisation-not-at-class-resolution"); return; }
  vector<double> xs(N);
  RandomTools::setSeed(seed);
  vrt::Outcome o = vrt::capture([&] { for (double& x : xs) x = d.rand(); });
  if (!vrt::expect(o.returned(), "rand.returns", api, [&] { return what + " seed " + str(seed) + ": rand " + o.text(); })) return;
  size_t off = 0;
  double firstOff = 0;
  for (double v : xs)
    if (!(std::isfinite(v) && v >= lo - 1e-9 * max(1.0, std::fabs(lo)) && v <= hi + 1e-9 * max(1.0, std::fabs(hi)))) { if (!off) firstOff = v; ++off; }
  if (!vrt::expect(off == 0, "law.support", api, [&] {
          return what + " seed " + str(seed) + ": " + str(off) + " of " + str(N) + " discrete draws are not finite or outside the support [" + str(lo) + "," + str(hi) + "] of the current parameters, first " + str(firstOff);
        })) return;
  sort(xs.begin(), xs.end());
  vector<double> at, ecum;
  for (size_t i = 0; i < xs.size(); ++i)
    if (i + 1 == xs.size() || xs[i + 1] != xs[i]) { at.push_back(xs[i]); ecum.push_back(static_cast<double>(i + 1) / static_cast<double>(N)); }
  double D = stepDistance(at, ecum, F);
  double thr = maxp + outside + ksThreshold(N);
  vrt::tally("stat-comparisons");
  vrt::expect(D <= thr, "law.discrete-cdf", api, [&] {
        return what + " seed " + str(seed) + " N=" + str(N) + ": the cumulative function of the discrete draws (values " + vrt::vecStr(at) + ", cumulated frequencies " + vrt::vecStr(ecum)
        + ") is " + str(D) + " away from the library's cdf with the same parameters; largest class probability " + str(maxp) + ", threshold " + str(thr)
        + "; a fresh object with these parameters has classes " + vrt::vecStr(rc) + " (distance " + str(dRef) + ")";
      });
}

void caseReconfigured(vrt::Case& c)
{
  const vector<ReFamily>& fams = reFamilies();
  const size_t nf = fams.size();
  const size_t fi = static_cast<size_t>(c.index % nf);
  const ReFamily& f = fams[fi];
  // the structure of the history is a function of the index (so is the signature); 37 and 13 spread the combinations so that
  // any block of consecutive indices mixes namespaces, origins and routes, and the families do not all see the same block
  const u64 j = c.index / nf;
  const int combo = static_cast<int>(((j + 13 * fi) * 37) % RE_COMBOS);
  const int nsKind = combo % RE_NNS, origin = (combo / RE_NNS) % RE_NORIGIN, route = combo / (RE_NNS * RE_NORIGIN);
  const string hist = string("ns=") + RE_NS[nsKind] + ",origin=" + RE_ORIGIN[origin];
  const size_t np = f.pn.size();
  u32 seed = libSeed(c);
  size_t n = static_cast<size_t>(c.rng.range(1, 8));
  // final parameter point, and which parameters are updated to reach it (the others have their final value from the start)
  vector<double> v = f.gen(c.rng);
  size_t mask = 1 + c.rng.below((size_t(1) << np) - 1);
  vector<size_t> which;
  for (size_t i = 0; i < np; ++i) if (mask >> i & 1) which.push_back(i);
  vector<double> v0(v), v1(v), w(np);
  for (size_t i : which) { v0[i] = f.other(v, i, c.rng); v1[i] = f.other(v, i, c.rng); }
  for (size_t i = 0; i < np; ++i) w[i] = f.other(v, i, c.rng); // unrelated values: of the object assigned over, of the source afterwards
  vector<size_t> all(np);
  iota(all.begin(), all.end(), size_t(0));
  bool twoRounds = c.rng.chance(0.4);
  bool nsOnSource = origin != 0 && c.rng.chance(0.5);  // the namespace is changed before / after the object is copied
  bool copyAfter = c.rng.chance(0.3);                  // the draws are made by a copy taken after the update
  string desc = f.name + "(n=" + str(n) + ") " + hist + ", " + vrt::vecStr(f.pn) + " " + vrt::vecStr(v0) + " -> " + vrt::vecStr(v) + " by " + RE_ROUTE[route]
      + (twoRounds ? " (two rounds)" : "") + (copyAfter ? ", drawn from a copy taken afterwards" : "");
  vrt::describe("reconfigured:" + f.name, desc);

  unique_ptr<AbstractDiscreteDistribution> d, src;
  string dflt;
  auto rename = [&](AbstractDiscreteDistribution& x) {
        auto set = [&](const string& ns) { vrt::step("setNamespace('" + ns + "')"); x.setNamespace(ns); };
        switch (nsKind)
        {
        case 1: set(reCustomNamespace(c.rng, dflt)); break;
        case 2: set(""); break;
        case 3: set(reCustomNamespace(c.rng, dflt)); set(c.rng.chance(0.3) ? string("") : "again." + reCustomNamespace(c.rng, dflt)); break;
        case 4: set(reCustomNamespace(c.rng, dflt)); set(dflt); break;
        default: break;
        }
      };
  vrt::Outcome o = vrt::capture([&] {
        if (origin == 0)
        {
          vrt::step("construct with " + vrt::vecStr(v0));
          d = f.make(n, v0);
          dflt = d->getNamespace();
          rename(*d);
        }
        else
        {
          vrt::step("construct the source with " + vrt::vecStr(v0));
          src = f.make(n, v0);
          dflt = src->getNamespace();
          if (nsOnSource) rename(*src);
          if (origin == 1) { vrt::step("copy-construct from the source"); d = f.copy(*src); }
          else if (origin == 2) { vrt::step("clone the source"); d.reset(dynamic_cast<AbstractDiscreteDistribution*>(src->clone())); }
          else
          {
            size_t n2 = static_cast<size_t>(c.rng.range(1, 8));
            vrt::step("construct another object (n=" + str(n2) + ") with " + vrt::vecStr(w) + ", assign the source to it");
            d = f.make(n2, w);
            if (c.rng.chance(0.5)) d->setNamespace("old.");
            f.assign(*d, *src);
          }
          // the source lives on with other parameters (or is destroyed): nothing of it may show in the copy
          if (c.rng.chance(0.5)) { vrt::step("destroy the source"); src.reset(); }
          else reUpdate(*src, f, static_cast<int>(c.rng.below(RE_NROUTE)), all, w, c.rng);
          if (!nsOnSource) rename(*d);
        }
        if (twoRounds) reUpdate(*d, f, static_cast<int>(c.rng.below(RE_NROUTE)), which, v1, c.rng);
        reUpdate(*d, f, route, which, v, c.rng);
        if (copyAfter)
        {
          vrt::step("copy the updated object, change the original, draw from the copy");
          unique_ptr<AbstractDiscreteDistribution> e = c.rng.chance(0.5) ? f.copy(*d) : unique_ptr<AbstractDiscreteDistribution>(dynamic_cast<AbstractDiscreteDistribution*>(d->clone()));
          reUpdate(*d, f, 0, which, v0, c.rng);
          d = std::move(e);
        }
      });
  if (!o.returned() || !d)
  {
    // which of these calls may refuse what is the business of the Parametrizable properties; no draw to judge
    vrt::tally("reconfigured-history-refused:" + f.name + ":" + RE_ROUTE[route]);
    vrt::note(o.text());
    return;
  }
  // the parameters the object has now
  vector<double> now(np);
  vrt::Outcome o2 = vrt::capture([&] { for (size_t i = 0; i < np; ++i) now[i] = d->getParameterValue(f.pn[i]); });
  if (!o2.returned()) { vrt::tally("reconfigured-parameters-unreadable:" + f.name); vrt::note(o2.text()); return; }
  bool asSet = now == v;
  if (!asSet) vrt::tally("reconfigured-parameters-not-as-set:" + f.name + ":" + RE_ROUTE[route]); // judged for the values it has
  unique_ptr<AbstractDiscreteDistribution> ref;
  size_t nCat = d->getNumberOfCategories();
  vrt::Outcome o3 = vrt::capture([&] { ref = f.make(nCat, now); });
  if (!o3.returned() || !ref) { vrt::tally("reconfigured-reference-refused:" + f.name); return; }
  pair<double, double> sup = f.support(now);
  string what = desc + "; parameters now " + vrt::vecStr(now) + " in namespace '" + d->getNamespace() + "', " + str(nCat) + " classes";
  judgeRandCRef(f.name + "::randC:reconfigured(" + hist + ")", what, seed, *d, *ref, sup.first, sup.second);
  judgeRand(f.name + ":reconfigured(" + hist + ")", what, seed + 1, *d);
  judgeRandRef(f.name + "::rand:reconfigured(" + hist + ")", what, seed + 1, *d, *ref, sup.first, sup.second);
  if (asSet) vrt::cover("reconfigured:" + f.name + ":" + hist + ":route=" + RE_ROUTE[route]);
}
} // namespace

int main(int argc, char** argv)
{
  const size_t nExh = exhIndex().rows.size();
  vector<vrt::Group> groups = {
    { "seed-repro", 16, 16, caseSeedRepro, 600, true },
    { "cont-sampler", 360, 9000, caseContSampler, 600, false },
    { "dist-randC", 480, 12000, caseDistRandC, 300, false },
    { "dist-rand", 400, 9000, caseDistRand, 600, false },
    { "picks", 520, 12000, casePicks, 600, false },
    { "sample-exact", 4 * 13 * 15, 4 * 13 * 15, caseSampleExact, 600, true },
    { "pick-exact", 3 * 13, 3 * 13, casePickExact, 600, true },
    { "rcont2-exhaustive", nExh, nExh, caseRcontExhaustive, 1800, true },
    { "rcont2-random", 1500, 120000, caseRcontRandom, 600, false },
    { "ctest-pvalue", 3000, 300000, caseCtest, 600, false },
    { "hmm-sample", 120, 3000, caseHmm, 600, false },
    { "dirichlet", 48, 900, caseDirichlet, 600, false },
    { "unit-param", 6 * UNIT_KINDS, 60 * UNIT_KINDS, caseUnitParam, 600, false },
    { "reconfigured", 240, 4800, caseReconfigured, 600, false },
  };
  vrt::Meta meta;
  meta.rule = "seed-repro: the run seed and 15 derived seeds, one fixed program of every sampler run twice after setSeed. cont-sampler / dist-randC / dist-rand / picks / hmm-sample / dirichlet: "
      "one case = one sampler at one parameter point (means/rates/shapes/variances from the grid 0.1..20 or log-uniform in it, never within (0.8,1.25) where conventions coincide; weight vectors of "
      "length 1..12 with zeros), the library generator seeded from the case stream, N=20000 draws. sample-exact / pick-exact: every (variant, source size 0..12, sample size 0..14), repeated draws, "
      "sources with and without repeated values. rcont2-exhaustive: every pair of margin vectors with 2..5 entries (zeros included) and equal total <= 12; rcont2-random: totals 13..200. "
      "ctest-pvalue: random 2..5 x 2..5 tables of six shapes, chi-square and permutation p-values. unit-param: every continuous sampler and every family's randC/rand with each mean/rate/shape/"
      "deviation argument exactly 1 (one at a time with the others from the grid, and all together; constructor and setParameterValue routes). reconfigured: one family (Gamma, Gamma+offset, Gaussian, "
      "Exponential, TruncExponential, Beta) x one object history = namespace (default / custom / empty / renamed twice / restored) x origin (constructor / copy / clone / assignment, the source changed or "
      "destroyed afterwards) x update route (setParameterValue / setParametersValues / matchParametersValues partial+foreign / matchParametersValues full / setAllParametersValues) of a random non-empty "
      "subset of the parameters, once or twice, optionally drawn from a copy taken afterwards; randC and rand judged against a fresh object built from the parameter values the object reports. A class key = (sampler, parameter region / size class / shape / route); all involve real draws.";
  meta.assumptions = {
    "statistical clauses: error probability 1e-13 per comparison (Dvoretzky-Kiefer-Wolfowitz-Massart for the Kolmogorov-Smirnov distance, Bernstein/Freedman for frequencies); < 1e7 comparisons per run",
    "the library's own cdf (pNorm, pGamma, pBeta, pProb) is the reference for the same parameters, trusted to 2e-3 in cdf value; its accuracy is another property (a cdf returning values outside [0,1] at sampled points is tallied, not judged)",
    "randExponential's argument is the mean (its documentation), randGaussian's second argument the variance, randGamma's beta is the beta of pGamma (a rate), GaussianDiscreteDistribution's sigma the standard deviation",
    "a distribution whose randC rejects draws outside the class's own domain may follow pProb conditioned on [getLowerBound, getUpperBound]; user-restricted domains are not exercised",
    "reconfigured objects: the law of the current parameters is the pProb of a fresh object constructed with the reported parameter values; conditioning on the object's own domain is admitted only when that domain equals the fresh object's up to 1e-9; discrete draws are judged at class resolution (largest class probability + DKW) and only when the fresh object's own classes are that close to its cdf; a history refused by an exception is not judged",
    "draws are judged up to 4 ulp of their value; randC of a family with an excluded finite non-zero domain end is judged in law only when pProb puts <= 1e-3 of the mass within 4 ulp of that end (shape 0.1 puts 3% there: resolution of doubles)",
    "an event of probability <= 2^-53 per draw (the uniform variate hitting a cumulated weight exactly) is neglected in the zero-weight-never-drawn clause",
    "weighted sampling without replacement is judged in law for the first two positions and only for requests not exceeding the number of positive weights",
    "an empty request on an empty source, and a contingency table with an empty row/column, may return or raise a library exception",
  };
  meta.requiredClauses = { "seed.reproducible", "law.ks", "law.support", "freq.bound", "freq.zero-weight-never-drawn", "sample.distinct", "sample.permutation", "sample.over-long-refused",
                           "sample.subset-of-source", "sample.empty-source-raises", "pick.empty-raises", "pick.extracts-one-element", "rcont2.margins", "ctest.pvalue-in-unit-interval", "hmm.length" };
  return vrt::run(argc, argv, "C18", groups, meta);
}
