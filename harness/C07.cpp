// C07 - Vector reductions match their definitions and are overflow-safe in log space.
// Oracles: exact integer (__int128) and long double reference implementations written from the
// doc comments of VectorTools / NumTools / StatTools, rounding bounds of the form C*n*eps*sum|terms|,
// algebraic identities of the log-domain family, outcome tables for empty / mismatched inputs.
#include "vrt.h"

#include <Bpp/Numeric/VectorTools.h>
#include <Bpp/Numeric/NumTools.h>
#include <Bpp/Numeric/Stat/StatTools.h>

#include <algorithm>
#include <cfloat>
#include <cmath>
#include <cstdlib>
#include <limits>
#include <map>
#include <set>
#include <string>
#include <type_traits>
#include <vector>

using namespace bpp;
using namespace std;
using vrt::str;

namespace
{
typedef long double LD;
typedef __int128 I128;
typedef vector<double> VD;
typedef vector<int> VI;
typedef vector<string> VS;
const LD EPS = numeric_limits<double>::epsilon();
const double INF = numeric_limits<double>::infinity();

// ------------------------------------------------------------------ printing
string one(double x) { return str(x); }
string one(int x) { return str(x); }
string one(size_t x) { return str(x); }
string one(const string& x) { return "\"" + x + "\""; }
template<class T> string vs(const vector<T>& v)
{
  string s = "{";
  for (size_t i = 0; i < v.size(); ++i) { if (i) s += ","; s += one(v[i]); }
  return s + "}";
}
string ld(LD x) { ostringstream o; o.precision(21); o << x; return o.str(); }

template<class T> struct TN;
template<> struct TN<int> { static const char* n() { return "int"; } static const bool exact = true; };
template<> struct TN<double> { static const char* n() { return "double"; } static const bool exact = false; };
template<> struct TN<string> { static const char* n() { return "string"; } static const bool exact = true; };

string lenClass(size_t n)
{
  if (n == 0) return "n0";
  if (n == 1) return "n1";
  if (n == 2) return "n2";
  if (n <= 8) return "n3-8";
  if (n <= 32) return "n9-32";
  if (n < 64) return "n33-63";
  return "n64";
}

size_t drawLen(vrt::Rng& r)
{
  size_t k = r.below(100);
  if (k < 5) return 0;
  if (k < 11) return 1;
  if (k < 17) return 2;
  if (k < 23) return 3;
  if (k < 27) return 64;
  if (k < 30) return 63;
  if (k < 70) return static_cast<size_t>(r.range(4, 12));
  return static_cast<size_t>(r.range(13, 62));
}

// ------------------------------------------------------------------ generators
const char* const INT_STYLES[] = { "uniform", "ties", "constant", "ascending", "descending", "wide", "nonneg" };
VI genInt(vrt::Rng& r, size_t n, int style)
{
  VI v(n);
  int cst = static_cast<int>(r.range(-9, 9));
  for (size_t i = 0; i < n; ++i)
  {
    switch (style)
    {
    case 1: v[i] = static_cast<int>(r.range(-1, 1)); break;
    case 2: v[i] = cst; break;
    case 5: v[i] = static_cast<int>(r.range(-1000, 1000)); break;
    case 6: v[i] = static_cast<int>(r.range(0, 5)); break;
    default: v[i] = static_cast<int>(r.range(-9, 9));
    }
  }
  if (style == 3) sort(v.begin(), v.end());
  if (style == 4) { sort(v.begin(), v.end()); reverse(v.begin(), v.end()); }
  return v;
}
const int N_INT_STYLES = 7;

const char* const REAL_STYLES[] = { "uniform", "ties", "constant", "logmag", "offset", "integral", "ascending", "positive" };
VD genReal(vrt::Rng& r, size_t n, int style)
{
  VD v(n);
  double cst = r.real(-10, 10);
  VD pool;
  for (int i = 0; i < 3; ++i) pool.push_back(r.real(-10, 10));
  double off = (r.chance(0.5) ? 1 : -1) * r.logReal(1e3, 1e6);
  for (size_t i = 0; i < n; ++i)
  {
    switch (style)
    {
    case 1: v[i] = r.pick(pool); break;
    case 2: v[i] = cst; break;
    case 3: v[i] = (r.chance(0.5) ? 1 : -1) * r.logReal(1e-6, 1e6); break;
    case 4: v[i] = off + r.real(-1, 1); break;
    case 5: v[i] = static_cast<double>(r.range(-20, 20)); break;
    case 7: v[i] = r.logReal(1e-3, 1e3); break;
    default: v[i] = r.real(-10, 10);
    }
  }
  if (style == 6) sort(v.begin(), v.end());
  return v;
}
const int N_REAL_STYLES = 8;

template<class T> struct Gen;
template<> struct Gen<int>
{
  static VI make(vrt::Rng& r, size_t n, int& style, string& sname)
  {
    style = static_cast<int>(r.below(N_INT_STYLES));
    sname = INT_STYLES[style];
    return genInt(r, n, style);
  }
  static VI like(vrt::Rng& r, size_t n, int style) { return genInt(r, n, style); }
  static int nonzero(vrt::Rng& r) { int x = static_cast<int>(r.range(1, 9)); return r.chance(0.5) ? x : -x; }
};
template<> struct Gen<double>
{
  static VD make(vrt::Rng& r, size_t n, int& style, string& sname)
  {
    style = static_cast<int>(r.below(N_REAL_STYLES));
    sname = REAL_STYLES[style];
    return genReal(r, n, style);
  }
  static VD like(vrt::Rng& r, size_t n, int style) { return genReal(r, n, style); }
  static double nonzero(vrt::Rng& r) { double x = r.logReal(1e-2, 1e2); return r.chance(0.5) ? x : -x; }
};

// positive weights (the usual case), with zeros, or signed
VD genWeights(vrt::Rng& r, size_t n, string& wname)
{
  VD w(n);
  int k = static_cast<int>(r.below(10));
  wname = k < 5 ? "wpos" : k < 7 ? "wequal" : k < 9 ? "wzeros" : "wlogmag";
  for (size_t i = 0; i < n; ++i)
  {
    if (k < 5) w[i] = r.real(0.1, 2);
    else if (k < 7) w[i] = 1.0;
    else if (k < 9) w[i] = r.chance(0.3) ? 0.0 : r.real(0.1, 2);
    else w[i] = r.logReal(1e-4, 1e4);
  }
  if (k >= 7 && k < 9 && n > 0) w[r.below(n)] = 1.0; // keep the total positive
  return w;
}

// ------------------------------------------------------------------ judging helpers
// |lib - ref| <= tol, infinities equal, NaN reference = not judged (returns true)
bool nearLD(double lib, LD ref, LD tol)
{
  if (std::isnan(ref)) return true;
  if (std::isinf(ref)) return static_cast<LD>(lib) == ref;
  if (!std::isfinite(lib)) return false;
  return fabsl(static_cast<LD>(lib) - ref) <= tol;
}
bool judge(double lib, LD ref, LD tol, const char* clause, const string& cls, const string& call)
{
  return vrt::expect(nearLD(lib, ref, tol), clause, cls, [&] { return call + " = " + str(lib) + " expected " + ld(ref) + " +- " + ld(tol); });
}
template<class T> bool sameElem(const T& a, const T& b) { return a == b; }
template<> bool sameElem<double>(const double& a, const double& b) { return vrt::sameDouble(a, b); }
template<class T> bool sameVec(const vector<T>& a, const vector<T>& b)
{
  if (a.size() != b.size()) return false;
  for (size_t i = 0; i < a.size(); ++i) if (!sameElem(a[i], b[i])) return false;
  return true;
}
bool isDim(const vrt::Outcome& o) { return o.raisedBpp() && o.type.find("DimensionException") != string::npos; }
bool isEmptyExc(const vrt::Outcome& o) { return o.raisedBpp() && o.type.find("EmptyVectorException") != string::npos; }

// ==================================================================== group: elementwise
template<class T> void elementwiseFor(vrt::Case& c)
{
  const string ty = TN<T>::n();
  size_t n = drawLen(c.rng);
  int style; string sname;
  vector<T> a = Gen<T>::make(c.rng, n, style, sname);
  vector<T> b = Gen<T>::like(c.rng, n, style);
  vector<T> d(n); // divisor without zeros
  for (size_t i = 0; i < n; ++i) d[i] = Gen<T>::nonzero(c.rng);
  T k = Gen<T>::nonzero(c.rng);
  const string cls = ty + ":" + lenClass(n);
  vrt::describe("elementwise:" + ty, ty + " a=" + vs(a) + " b=" + vs(b) + " d=" + vs(d) + " k=" + one(k));
  vrt::cover("elementwise:" + ty + ":" + lenClass(n) + ":" + sname);

  auto chk = [&](const vector<T>& got, const function<T(size_t)>& ref, const char* clause, const string& op) {
      bool ok = got.size() == n;
      size_t bad = 0;
      for (size_t i = 0; ok && i < n; ++i) if (!sameElem<T>(got[i], ref(i))) { ok = false; bad = i; }
      vrt::expect(ok, clause, cls + ":" + op, [&] { return op + " on a=" + vs(a) + " b=" + vs(b) + " d=" + vs(d) + " k=" + one(k) + " => " + vs(got) + " (first bad index " + str(bad) + ")"; });
    };
  // vector op vector
  chk(a + b, [&](size_t i) { return static_cast<T>(a[i] + b[i]); }, "elementwise.binary", "v+v");
  chk(a - b, [&](size_t i) { return static_cast<T>(a[i] - b[i]); }, "elementwise.binary", "v-v");
  chk(a * b, [&](size_t i) { return static_cast<T>(a[i] * b[i]); }, "elementwise.binary", "v*v");
  chk(a / d, [&](size_t i) { return static_cast<T>(a[i] / d[i]); }, "elementwise.binary", "v/v");
  // vector op scalar, scalar op vector
  chk(a + k, [&](size_t i) { return static_cast<T>(a[i] + k); }, "elementwise.scalar", "v+c");
  chk(k + a, [&](size_t i) { return static_cast<T>(k + a[i]); }, "elementwise.scalar", "c+v");
  chk(a - k, [&](size_t i) { return static_cast<T>(a[i] - k); }, "elementwise.scalar", "v-c");
  chk(k - a, [&](size_t i) { return static_cast<T>(k - a[i]); }, "elementwise.scalar", "c-v");
  chk(a * k, [&](size_t i) { return static_cast<T>(a[i] * k); }, "elementwise.scalar", "v*c");
  chk(k * a, [&](size_t i) { return static_cast<T>(k * a[i]); }, "elementwise.scalar", "c*v");
  chk(a / k, [&](size_t i) { return static_cast<T>(a[i] / k); }, "elementwise.scalar", "v/c");
  chk(k / d, [&](size_t i) { return static_cast<T>(k / d[i]); }, "elementwise.scalar", "c/v");
  { int two = 2; chk(a * two, [&](size_t i) { return static_cast<T>(a[i] * 2); }, "elementwise.scalar", "v*int"); }
  // compound assignments
  { vector<T> x(a); x += b; chk(x, [&](size_t i) { return static_cast<T>(a[i] + b[i]); }, "elementwise.compound", "v+=v"); }
  { vector<T> x(a); x -= b; chk(x, [&](size_t i) { return static_cast<T>(a[i] - b[i]); }, "elementwise.compound", "v-=v"); }
  { vector<T> x(a); x *= b; chk(x, [&](size_t i) { return static_cast<T>(a[i] * b[i]); }, "elementwise.compound", "v*=v"); }
  { vector<T> x(a); x /= d; chk(x, [&](size_t i) { return static_cast<T>(a[i] / d[i]); }, "elementwise.compound", "v/=v"); }
  { vector<T> x(a); x += k; chk(x, [&](size_t i) { return static_cast<T>(a[i] + k); }, "elementwise.compound", "v+=c"); }
  { vector<T> x(a); x -= k; chk(x, [&](size_t i) { return static_cast<T>(a[i] - k); }, "elementwise.compound", "v-=c"); }
  { vector<T> x(a); x *= k; chk(x, [&](size_t i) { return static_cast<T>(a[i] * k); }, "elementwise.compound", "v*=c"); }
  { vector<T> x(a); x /= k; chk(x, [&](size_t i) { return static_cast<T>(a[i] / k); }, "elementwise.compound", "v/=c"); }
  { vector<T> x(a); x &= k; chk(x, [&](size_t) { return k; }, "elementwise.compound", "v&=c"); }
  { vector<T> x(a); VectorTools::fill(x, k); chk(x, [&](size_t) { return k; }, "elementwise.compound", "fill"); }
  // functions applied to each element
  chk(VectorTools::abs(a), [&](size_t i) { return static_cast<T>(a[i] < 0 ? -a[i] : a[i]); }, "elementwise.function", "abs");
  chk(VectorTools::sqr(a), [&](size_t i) { return static_cast<T>(a[i] * a[i]); }, "elementwise.function", "sqr");
  // kronecker product with a short vector
  {
    size_t m = c.rng.below(4);
    vector<T> s = Gen<T>::like(c.rng, m, style);
    vector<T> kr = VectorTools::kroneckerMult(a, s);
    bool ok = kr.size() == n * m;
    for (size_t i = 0; ok && i < n; ++i)
      for (size_t j = 0; ok && j < m; ++j) ok = sameElem<T>(kr[i * m + j], static_cast<T>(a[i] * s[j]));
    vrt::expect(ok, "elementwise.kronecker", cls + ":m" + str(m), [&] { return "kroneckerMult(" + vs(a) + "," + vs(s) + ") => " + vs(kr); });
  }
}

void elementwiseRealFunctions(vrt::Case& c)
{
  // log/exp/... : each element within 4 ulp of the long double value of the same function
  size_t n = drawLen(c.rng);
  VD p(n), x(n);
  for (size_t i = 0; i < n; ++i) { p[i] = c.rng.logReal(1e-6, 1e6); x[i] = c.rng.real(-20, 20); }
  const string cls = "double:" + lenClass(n);
  auto chk = [&](const VD& got, const VD& in, const function<LD(LD)>& f, const string& op) {
      bool ok = got.size() == n;
      size_t bad = 0;
      for (size_t i = 0; ok && i < n; ++i)
      {
        LD r = f(in[i]);
        if (!nearLD(got[i], r, 4 * EPS * fabsl(r) + 4 * EPS)) { ok = false; bad = i; }
      }
      vrt::expect(ok, "elementwise.function", cls + ":" + op, [&] { return op + "(" + vs(in) + ") => " + vs(got) + " (first bad index " + str(bad) + ")"; });
    };
  chk(VectorTools::log(p), p, [](LD t) { return logl(t); }, "log");
  chk(VectorTools::exp(x), x, [](LD t) { return expl(t); }, "exp");
  chk(VectorTools::log10(p), p, [](LD t) { return log10l(t); }, "log10");
  chk(VectorTools::cos(x), x, [](LD t) { return cosl(t); }, "cos");
  chk(VectorTools::sin(x), x, [](LD t) { return sinl(t); }, "sin");
  double base = c.rng.pick(VD{ 2.0, 10.0, 2.7182818, 3.5 });
  chk(VectorTools::log(p, base), p, [&](LD t) { return logl(t) / logl(base); }, "logbase");
  double ex = c.rng.pick(VD{ 2.0, 0.5, 3.0, -1.0 });
  chk(VectorTools::pow(p, ex), p, [&](LD t) { return powl(t, ex); }, "pow");
  // factorial of small integers (exact)
  VI f(n);
  for (size_t i = 0; i < n; ++i) f[i] = static_cast<int>(c.rng.range(0, 12));
  VI gf = VectorTools::fact(f);
  bool ok = gf.size() == n;
  for (size_t i = 0; ok && i < n; ++i) { long long r = 1; for (int j = 2; j <= f[i]; ++j) r *= j; ok = gf[i] == r; }
  vrt::expect(ok, "elementwise.function", "int:" + lenClass(n) + ":fact", [&] { return "fact(" + vs(f) + ") => " + vs(gf); });
  vrt::cover("elementwise:functions:" + lenClass(n));
  // NumTools scalar helpers used by the vector functions (documented one-line definitions)
  {
    double u = c.rng.chance(0.1) ? 0.0 : c.rng.real(-5, 5), w = c.rng.chance(0.1) ? 0.0 : c.rng.real(-5, 5);
    int iu = static_cast<int>(c.rng.range(-5, 5)), iw = static_cast<int>(c.rng.range(-5, 5));
    bool okd = NumTools::abs(u) == std::fabs(u) && NumTools::sign(u) == (u < 0 ? -1 : u == 0 ? 0 : 1) && NumTools::max(u, w) == std::max(u, w) && NumTools::min(u, w) == std::min(u, w)
        && NumTools::sqr(u) == u * u && NumTools::sign(u, w) == std::fabs(u) * (w < 0 ? -1 : w == 0 ? 0 : 1);
    bool oki = NumTools::abs(iu) == std::abs(iu) && NumTools::sign(iu) == (iu < 0 ? -1 : iu == 0 ? 0 : 1) && NumTools::max(iu, iw) == std::max(iu, iw) && NumTools::min(iu, iw) == std::min(iu, iw)
        && NumTools::sqr(iu) == iu * iu && NumTools::sign(iu, iw) == std::abs(iu) * (iw < 0 ? -1 : iw == 0 ? 0 : 1);
    vrt::expect(okd && oki, "elementwise.numtools", "abs-sign-max-min-sqr", [&] { return "NumTools abs/sign/max/min/sqr/sign(a,b) on " + str(u) + "," + str(w) + " / " + str(iu) + "," + str(iw); });
    int k = static_cast<int>(c.rng.range(0, 12));
    long long fr = 1; LD lf = 0;
    for (int j = 2; j <= k; ++j) { fr *= j; lf += logl(static_cast<LD>(j)); }
    vrt::expect(NumTools::fact(k) == fr && nearLD(NumTools::logFact(static_cast<double>(k)), lf, 4 * (k + 1) * EPS * (lf + 1)), "elementwise.numtools", "fact-logFact", [&] { return "fact/logFact(" + str(k) + ") => " + str(NumTools::fact(k)) + " / " + str(NumTools::logFact(static_cast<double>(k))); });
  }
}

void caseElementwise(vrt::Case& c)
{
  switch (c.index % 5)
  {
  case 0: case 1: elementwiseFor<int>(c); break;
  case 2: case 3: elementwiseFor<double>(c); break;
  default: vrt::describe("elementwise:functions", "log/exp/log10/cos/sin/pow/fact on random vectors"); elementwiseRealFunctions(c);
  }
}

// ==================================================================== group: mixedscalar
// The vector/scalar operators are templates <class T, class C>: the scalar need not have the element type
// (vector<int> * 0.5, vector<double> * 2, vector<float> / 3.0, ...).  Definition used as the reference:
// element and scalar are combined in their common arithmetic type (the usual arithmetic conversions of the
// expression `v[i] op c`), and the value is then stored as an element.  For * and / every equivalent form
// (v op c, c op v, v op= c) has to give that value, and the forms have to agree with each other.
// For + and - the library documents nothing and its two forms differ by design (v + c converts the scalar
// to the element type first, v += c adds in the common type): where the scalar is representable in the
// element type both readings coincide and that value is required; elsewhere either reading is accepted.
// Inputs are kept small (|v| <= 1e6, 1/16 <= |c| <= 41) so that no conversion is out of range; operations
// whose value would not fit the element type (unsigned elements going negative) are not executed.
template<class T> struct MN;
template<> struct MN<int> { static const char* n() { return "int"; } };
template<> struct MN<unsigned int> { static const char* n() { return "uint"; } };
template<> struct MN<long> { static const char* n() { return "long"; } };
template<> struct MN<unsigned long> { static const char* n() { return "ulong"; } };
template<> struct MN<double> { static const char* n() { return "double"; } };
template<> struct MN<float> { static const char* n() { return "float"; } };

template<class T> string mvs(const vector<T>& v)
{
  string s = "{";
  for (size_t i = 0; i < v.size(); ++i) { if (i) s += ","; s += str(v[i]); }
  return s + "}";
}

template<class T> vector<T> genMixedVec(vrt::Rng& r, size_t n, string& sname)
{
  vector<T> out(n);
  if (is_floating_point<T>::value)
  {
    int st;
    VD v = Gen<double>::make(r, n, st, sname);
    for (size_t i = 0; i < n; ++i) out[i] = static_cast<T>(v[i]);
  }
  else
  {
    int st = static_cast<int>(r.below(N_INT_STYLES));
    sname = INT_STYLES[st];
    VI v = genInt(r, n, st);
    for (size_t i = 0; i < n; ++i) out[i] = static_cast<T>(is_unsigned<T>::value ? std::abs(v[i]) : v[i]);
  }
  return out;
}
template<class T> vector<T> genMixedDivisors(vrt::Rng& r, size_t n)
{
  vector<T> out(n);
  for (size_t i = 0; i < n; ++i)
  {
    bool neg = !is_unsigned<T>::value && r.chance(0.5);
    if (is_floating_point<T>::value) { double x = r.logReal(1e-2, 1e2); out[i] = static_cast<T>(neg ? -x : x); }
    else { long x = static_cast<long>(r.range(1, 9)); out[i] = static_cast<T>(neg ? -x : x); }
  }
  return out;
}
// scalar classes: integral value / dyadic fraction below one / dyadic value above one with a fractional part
// (products with small integers are exact in float and double) / arbitrary decimal value; integer scalar types: 1..9
template<class C> C genMixedScalar(vrt::Rng& r, bool positiveOnly, string& cname)
{
  bool neg = !positiveOnly && r.chance(0.5);
  if (!is_floating_point<C>::value)
  {
    cname = "integer";
    long x = static_cast<long>(r.range(1, 9));
    return static_cast<C>(neg ? -x : x);
  }
  double x;
  size_t k = r.below(8);
  if (k < 2) { cname = "integral"; x = static_cast<double>(r.range(1, 9)); }
  else if (k < 4)
  {
    cname = "fraction-below-one";
    long s = static_cast<long>(r.range(1, 4));
    long m = 2 * static_cast<long>(r.range(0, (1L << (s - 1)) - 1)) + 1; // odd, < 2^s
    x = static_cast<double>(m) / static_cast<double>(1L << s);
  }
  else if (k < 7)
  {
    cname = "fraction-above-one";
    long s = static_cast<long>(r.range(1, 4));
    long m = 2 * static_cast<long>(r.range(1L << (s - 1), 40)) + 1;      // odd, > 2^s
    x = static_cast<double>(m) / static_cast<double>(1L << s);
  }
  else
  {
    cname = "decimal";
    x = r.chance(0.5) ? r.pick(VD{ 0.1, 0.3, 0.7, 0.9, 1.1, 2.7, 9.9 }) : r.real(0.0625, 10);
  }
  return static_cast<C>(neg ? -x : x);
}
// may a value x of the common type be stored as a T with a defined result?
template<class T, class X> bool fitsElem(X x)
{
  if (!is_floating_point<X>::value || is_floating_point<T>::value) return true;
  LD y = static_cast<LD>(x);
  return y > static_cast<LD>(numeric_limits<T>::min()) - 1 && y < static_cast<LD>(numeric_limits<T>::max()) + 1;
}

template<class T, class C> void mixedFor(vrt::Case& c)
{
  typedef typename common_type<T, C>::type CT;
  const string ty = string(MN<T>::n()) + "x" + MN<C>::n();
  size_t n = drawLen(c.rng);
  string sname, cname;
  vector<T> a = genMixedVec<T>(c.rng, n, sname);
  vector<T> d = genMixedDivisors<T>(c.rng, n);
  const C k = genMixedScalar<C>(c.rng, is_unsigned<T>::value, cname);
  const CT kc = static_cast<CT>(k);
  const T kt = static_cast<T>(k);                       // |k| <= 41: always in range
  const bool representable = static_cast<LD>(kt) == static_cast<LD>(k);
  const string cls = ty + (representable ? ":scalar-representable" : ":scalar-not-representable"); // as an element; the finer scalar class is in the coverage key
  const string in = " v=" + mvs(a) + " d=" + mvs(d) + " c=" + str(k) + " (" + MN<C>::n() + ", " + cname + ")";
  vrt::describe("mixedscalar:" + ty, ty + in);
  vrt::cover("mixedscalar:" + ty + ":" + cname + ":" + lenClass(n));

  auto chk = [&](const vector<T>& got, const function<T(size_t)>& ref, const char* clause, const string& op) {
      bool ok = got.size() == n;
      size_t bad = 0;
      for (size_t i = 0; ok && i < n; ++i) if (!sameElem<T>(got[i], ref(i))) { ok = false; bad = i; }
      vrt::expect(ok, clause, cls + ":" + op, [&] { return op + " on" + in + " => " + mvs(got) + " (first bad index " + str(bad) + (bad < n ? ": expected " + str(ref(bad)) : string()) + ")"; });
    };
  auto same = [&](const vector<T>& x, const vector<T>& y, const string& forms) {
      vrt::expect(sameVec(x, y), "elementwise.mixed-forms", cls + ":" + forms, [&] { return forms + " on" + in + " => " + mvs(x) + " versus " + mvs(y); });
    };

  // ---- product and quotient: the value of v[i] op c in the common type, stored as an element
  auto mulRef = [&](size_t i) { return static_cast<T>(static_cast<CT>(a[i]) * kc); };
  auto divRef = [&](size_t i) { return static_cast<T>(static_cast<CT>(a[i]) / kc); };
  auto rdivRef = [&](size_t i) { return static_cast<T>(kc / static_cast<CT>(d[i])); };
  vector<T> vc = a * k, cv = k * a, vdc = a / k, cdv = k / d;
  vector<T> vmul(a), vdiv(a), vset(a);
  vmul *= k; vdiv /= k; vset &= k;
  chk(vc, mulRef, "elementwise.mixed-scalar", "v*c");
  chk(cv, mulRef, "elementwise.mixed-scalar", "c*v");
  chk(vdc, divRef, "elementwise.mixed-scalar", "v/c");
  chk(cdv, rdivRef, "elementwise.mixed-scalar", "c/v");
  chk(vmul, mulRef, "elementwise.mixed-compound", "v*=c");
  chk(vdiv, divRef, "elementwise.mixed-compound", "v/=c");
  chk(vset, [&](size_t) { return kt; }, "elementwise.mixed-compound", "v&=c");
  same(vc, cv, "v*c=c*v");
  same(vc, vmul, "v*c=(v*=c)");
  same(cv, vmul, "c*v=(v*=c)");
  same(vdc, vdiv, "v/c=(v/=c)");

  // ---- sum and difference
  // reading A: common type, then stored; reading B: scalar stored as an element first
  struct SumOp { const char* name; int form; bool minus; bool scalarFirst; };
  static const SumOp sumOps[] = { { "v+c", 0, false, false }, { "c+v", 0, false, true }, { "v-c", 0, true, false }, { "c-v", 0, true, true },
                                  { "v+=c", 1, false, false }, { "v-=c", 1, true, false } };
  for (const SumOp& op : sumOps)
  {
    vector<CT> ra(n);
    vector<T> rb(n);
    bool fits = true;
    for (size_t i = 0; i < n; ++i)
    {
      CT x = static_cast<CT>(a[i]);
      ra[i] = !op.minus ? (op.scalarFirst ? kc + x : x + kc) : (op.scalarFirst ? kc - x : x - kc);
      rb[i] = static_cast<T>(!op.minus ? (op.scalarFirst ? kt + a[i] : a[i] + kt) : (op.scalarFirst ? kt - a[i] : a[i] - kt));
      if (!fitsElem<T, CT>(ra[i])) fits = false;
    }
    if (!fits) { vrt::tally("mixedscalar.sum-out-of-range-not-executed"); continue; }
    vector<T> got;
    if (op.form == 1) { got = a; if (op.minus) got -= k; else got += k; }
    else if (!op.minus) got = op.scalarFirst ? k + a : a + k;
    else got = op.scalarFirst ? k - a : a - k;
    bool ok = got.size() == n;
    size_t bad = 0;
    for (size_t i = 0; ok && i < n; ++i)
    {
      bool okA = sameElem<T>(got[i], static_cast<T>(ra[i])), okB = sameElem<T>(got[i], rb[i]);
      if (!(representable ? (okA && okB) : (okA || okB))) { ok = false; bad = i; }
    }
    vrt::expect(ok, "elementwise.mixed-sum", cls + ":" + op.name,
                [&] { return string(op.name) + " on" + in + " => " + mvs(got) + " (first bad index " + str(bad) + (bad < n ? ": expected " + str(static_cast<T>(ra[bad])) + (representable ? string() : " or " + str(rb[bad])) : string()) + ")"; });
  }
}

void caseMixedScalar(vrt::Case& c)
{
  switch (c.index % 16)
  {
  case 0: case 1: mixedFor<int, double>(c); break;
  case 2: case 3: mixedFor<int, float>(c); break;
  case 4: mixedFor<int, long>(c); break;
  case 5: case 6: mixedFor<unsigned int, double>(c); break;
  case 7: mixedFor<unsigned int, float>(c); break;
  case 8: mixedFor<unsigned int, int>(c); break;
  case 9: mixedFor<unsigned long, double>(c); break;
  case 10: mixedFor<long, double>(c); break;
  case 11: mixedFor<long, int>(c); break;
  case 12: mixedFor<double, int>(c); break;
  case 13: mixedFor<double, float>(c); break;
  case 14: mixedFor<double, long>(c); break;
  default: mixedFor<float, double>(c);
  }
}

// ==================================================================== group: reductions
// integer vector whose product stays inside int
VI genProdInt(vrt::Rng& r, size_t n)
{
  VI v(n);
  long long mag = 1;
  for (size_t i = 0; i < n; ++i)
  {
    int x = static_cast<int>(r.range(-4, 4));
    if (r.chance(0.03)) x = 0;
    else if (x == 0) x = 1;
    long long ax = x < 0 ? -x : x;
    if (ax > 1 && mag * ax > 1000000000LL) x = x < 0 ? -1 : 1;
    else if (ax > 1) mag *= ax;
    v[i] = x;
  }
  return v;
}
VD genProdReal(vrt::Rng& r, size_t n)
{
  VD v(n);
  for (size_t i = 0; i < n; ++i) v[i] = (r.chance(0.3) ? -1 : 1) * r.logReal(1e-3, 1e3);
  if (n > 0 && r.chance(0.05)) v[r.below(n)] = 0;
  return v;
}
template<class T> struct ProdGen;
template<> struct ProdGen<int> { static VI make(vrt::Rng& r, size_t n) { return genProdInt(r, n); } };
template<> struct ProdGen<double> { static VD make(vrt::Rng& r, size_t n) { return genProdReal(r, n); } };

template<class T> LD sumAbs(const vector<T>& v) { LD s = 0; for (auto x : v) s += fabsl(static_cast<LD>(x)); return s; }

template<class T> void reductionsFor(vrt::Case& c)
{
  const string ty = TN<T>::n();
  const bool ex = TN<T>::exact;
  size_t n = drawLen(c.rng);
  int style; string sname;
  vector<T> a = Gen<T>::make(c.rng, n, style, sname);
  vector<T> b = Gen<T>::like(c.rng, n, style);
  vector<T> w = Gen<T>::like(c.rng, n, style);
  vector<T> p = ProdGen<T>::make(c.rng, n);
  const string cls = ty + ":" + lenClass(n);
  const string in = " a=" + vs(a) + " b=" + vs(b) + " w=" + vs(w) + " p=" + vs(p);
  vrt::describe("reductions:" + ty, ty + in);
  vrt::cover("reductions:" + ty + ":" + lenClass(n) + ":" + sname);
  const LD nn = static_cast<LD>(n);

  // ---- sum / cumSum
  {
    LD ref = 0; for (auto x : a) ref += static_cast<LD>(x);
    LD tol = ex ? 0 : 4 * nn * EPS * sumAbs(a);
    judge(static_cast<double>(VectorTools::sum(a)), ref, tol, "reductions.sum", cls, "sum(" + vs(a) + ")");
    vector<T> cs = VectorTools::cumSum(a);
    bool ok = cs.size() == n;
    LD run = 0, runAbs = 0; size_t bad = 0;
    for (size_t i = 0; ok && i < n; ++i)
    {
      run += static_cast<LD>(a[i]); runAbs += fabsl(static_cast<LD>(a[i]));
      if (!nearLD(static_cast<double>(cs[i]), run, ex ? 0 : 4 * nn * EPS * runAbs)) { ok = false; bad = i; }
    }
    vrt::expect(ok, "reductions.cumSum", cls, [&] { return "cumSum(" + vs(a) + ") => " + vs(cs) + " (first bad index " + str(bad) + ")"; });
  }
  // ---- prod / cumProd
  {
    LD ref = 1; for (auto x : p) ref *= static_cast<LD>(x);
    LD tol = ex ? 0 : 4 * (nn + 1) * EPS * fabsl(ref);
    judge(static_cast<double>(VectorTools::prod(p)), ref, tol, "reductions.prod", cls, "prod(" + vs(p) + ")");
    vector<T> cp = VectorTools::cumProd(p);
    bool ok = cp.size() == n;
    LD run = 1; size_t bad = 0;
    for (size_t i = 0; ok && i < n; ++i)
    {
      run *= static_cast<LD>(p[i]);
      if (!nearLD(static_cast<double>(cp[i]), run, ex ? 0 : 4 * (nn + 1) * EPS * fabsl(run))) { ok = false; bad = i; }
    }
    vrt::expect(ok, "reductions.cumProd", cls, [&] { return "cumProd(" + vs(p) + ") => " + vs(cp) + " (first bad index " + str(bad) + ")"; });
  }
  // ---- scalar products, norm
  {
    LD ref = 0, refAbs = 0, ref3 = 0, ref3Abs = 0, n2 = 0;
    for (size_t i = 0; i < n; ++i)
    {
      LD t = static_cast<LD>(a[i]) * static_cast<LD>(b[i]);
      ref += t; refAbs += fabsl(t);
      LD t3 = t * static_cast<LD>(w[i]);
      ref3 += t3; ref3Abs += fabsl(t3);
      n2 += static_cast<LD>(a[i]) * static_cast<LD>(a[i]);
    }
    LD tol = ex ? 0 : 4 * (nn + 2) * EPS * refAbs;
    LD tol3 = ex ? 0 : 4 * (nn + 3) * EPS * ref3Abs;
    judge(VectorTools::scalar<T, double>(a, b), ref, tol, "reductions.scalar", cls, "scalar(a,b)" + in);
    judge(static_cast<double>(VectorTools::scalar<T, T>(a, b)), ref, tol, "reductions.scalar", cls + ":sameType", "scalar<T,T>(a,b)" + in);
    judge(VectorTools::scalar<T, double>(a, b, w), ref3, tol3, "reductions.scalar", cls + ":weighted", "scalar(a,b,w)" + in);
    judge(VectorTools::norm<T, double>(a), sqrtl(n2), 4 * (nn + 3) * EPS * sqrtl(n2), "reductions.norm", cls, "norm(" + vs(a) + ")");
    // weighted norm with non-negative weights
    vector<T> wp = VectorTools::abs(w);
    LD nw = 0; for (size_t i = 0; i < n; ++i) nw += static_cast<LD>(a[i]) * static_cast<LD>(a[i]) * static_cast<LD>(wp[i]);
    judge(VectorTools::norm<T, double>(a, wp), sqrtl(nw), 4 * (nn + 4) * EPS * sqrtl(nw), "reductions.norm", cls + ":weighted", "norm(a,|w|)" + in);
    if (n > 0) // sumProd on empty vectors: see the edge group
      judge(static_cast<double>(VectorTools::sumProd(a, b)), ref, tol, "reductions.sumProd", cls, "sumProd(a,b)" + in);
  }
  if (n == 0) return; // extrema etc. of empty vectors: edge group
  // ---- extrema and their positions
  {
    T mn = a[0], mx = a[0]; size_t imn = 0, imx = 0;
    for (size_t i = 1; i < n; ++i) { if (a[i] < mn) { mn = a[i]; imn = i; } if (a[i] > mx) { mx = a[i]; imx = i; } }
    vector<size_t> allMn, allMx;
    for (size_t i = 0; i < n; ++i) { if (a[i] == mn) allMn.push_back(i); if (a[i] == mx) allMx.push_back(i); }
    string tie = string(allMn.size() > 1 ? ":tiedMin" : "") + (allMx.size() > 1 ? ":tiedMax" : "");
    vrt::cover("extrema:" + ty + ":" + lenClass(n) + tie);
    T gmn = VectorTools::min(a), gmx = VectorTools::max(a);
    vrt::expect(gmn == mn && gmx == mx, "reductions.minmax", cls, [&] { return "min/max(" + vs(a) + ") => " + one(gmn) + "/" + one(gmx); });
    size_t wmn = VectorTools::whichMin(a), wmx = VectorTools::whichMax(a);
    vrt::expect(wmn == imn && wmx == imx, "reductions.whichMinMax", cls + tie, [&] { return "whichMin/whichMax(" + vs(a) + ") => " + str(wmn) + "/" + str(wmx) + " expected first positions " + str(imn) + "/" + str(imx); });
    vector<size_t> gAllMn = VectorTools::whichMinAll(a), gAllMx = VectorTools::whichMaxAll(a);
    vrt::expect(gAllMn == allMn && gAllMx == allMx, "reductions.whichAll", cls + tie, [&] { return "whichMinAll/whichMaxAll(" + vs(a) + ") => " + vs(gAllMn) + "/" + vs(gAllMx); });
    vector<T> rg = VectorTools::range(a);
    vrt::expect(rg.size() == 2 && rg[0] == mn && rg[1] == mx, "reductions.range", cls, [&] { return "range(" + vs(a) + ") => " + vs(rg); });
    // which / whichAll of a present element
    T el = a[c.rng.below(n)];
    size_t first = 0; vector<size_t> all;
    for (size_t i = n; i-- > 0;) if (a[i] == el) first = i;
    for (size_t i = 0; i < n; ++i) if (a[i] == el) all.push_back(i);
    size_t gw = VectorTools::which(a, el);
    vector<size_t> gwa = VectorTools::whichAll(a, el);
    vrt::expect(gw == first && gwa == all, "reductions.which", cls + (all.size() > 1 ? ":repeated" : ""), [&] { return "which/whichAll(" + vs(a) + "," + one(el) + ") => " + str(gw) + "/" + vs(gwa); });
    // absent element: any exception is accepted, a position is not
    T absent = static_cast<T>(mx + 1);
    vrt::Outcome o1 = vrt::capture([&] { (void)VectorTools::which(a, absent); });
    vrt::Outcome o2 = vrt::capture([&] { (void)VectorTools::whichAll(a, absent); });
    vrt::expect(!o1.returned() && !o2.returned(), "reductions.which", cls + ":absent", [&] { return "which/whichAll(" + vs(a) + "," + one(absent) + ") " + o1.text() + " / " + o2.text(); });
  }
  // ---- order
  {
    vector<size_t> ord = VectorTools::order(a);
    bool ok = ord.size() == n;
    vector<char> seen(n, 0);
    for (size_t i = 0; ok && i < n; ++i) { if (ord[i] >= n || seen[ord[i]]) ok = false; else seen[ord[i]] = 1; }
    for (size_t i = 0; ok && i + 1 < n; ++i) if (a[ord[i + 1]] < a[ord[i]]) ok = false;
    vrt::expect(ok, "reductions.order", cls, [&] { return "order(" + vs(a) + ") => " + vs(ord) + " is not a sorting permutation"; });
  }
  // ---- median
  {
    vector<T> srt(a); sort(srt.begin(), srt.end());
    vector<T> work(a);
    T med = VectorTools::median(work);
    bool ok;
    string want;
    if (n % 2 == 1) { ok = med == srt[n / 2]; want = one(srt[n / 2]); }
    else if (ex) { ok = !(med < srt[n / 2 - 1]) && !(srt[n / 2] < med); want = "a value in [" + one(srt[n / 2 - 1]) + "," + one(srt[n / 2]) + "]"; }
    else
    {
      LD r = (static_cast<LD>(srt[n / 2 - 1]) + static_cast<LD>(srt[n / 2])) / 2;
      ok = nearLD(static_cast<double>(med), r, 4 * EPS * (fabsl(static_cast<LD>(srt[n / 2 - 1])) + fabsl(static_cast<LD>(srt[n / 2]))));
      want = ld(r);
    }
    vrt::expect(ok, "reductions.median", cls + (n % 2 ? ":odd" : ":even"), [&] { return "median(" + vs(a) + ") => " + one(med) + " expected " + want; });
    vrt::cover("median:" + ty + (n % 2 ? ":odd" : ":even") + (n <= 2 ? ":" + lenClass(n) : ""));
  }
  // ---- mean, center
  {
    LD s = 0; for (auto x : a) s += static_cast<LD>(x);
    LD m = s / nn;
    LD dm = (ex ? 2 : 4 * (nn + 1)) * EPS * sumAbs(a) / nn + 2 * EPS * fabsl(m);
    judge(VectorTools::mean<T, double>(a), m, dm, "reductions.mean", cls, "mean(" + vs(a) + ")");
    vector<double> ce = VectorTools::center<T, double>(a);
    bool ok = ce.size() == n; size_t bad = 0;
    for (size_t i = 0; ok && i < n; ++i)
      if (!nearLD(ce[i], static_cast<LD>(a[i]) - m, dm + 2 * EPS * (fabsl(static_cast<LD>(a[i])) + fabsl(m)))) { ok = false; bad = i; }
    vrt::expect(ok, "reductions.center", cls, [&] { return "center(" + vs(a) + ") => " + vs(ce) + " (first bad index " + str(bad) + ")"; });
  }
}

// weighted mean / center, breaks, nclassScott (real data only)
void reductionsWeighted(vrt::Case& c)
{
  size_t n = drawLen(c.rng);
  if (n == 0) n = 1;
  int style; string sname, wname;
  VD a = Gen<double>::make(c.rng, n, style, sname);
  VD w = genWeights(c.rng, n, wname);
  const string cls = "double:" + lenClass(n) + ":" + wname;
  const string in = " a=" + vs(a) + " w=" + vs(w);
  vrt::describe("reductions:weighted", in);
  vrt::cover("wmean:" + lenClass(n) + ":" + sname + ":" + wname);
  const LD nn = static_cast<LD>(n);
  LD sw = 0, swa = 0, swaAbs = 0;
  for (size_t i = 0; i < n; ++i) { sw += w[i]; swa += static_cast<LD>(w[i]) * a[i]; swaAbs += fabsl(static_cast<LD>(w[i]) * a[i]); }
  LD m = swa / sw;
  LD dm = 4 * (2 * nn + 6) * EPS * swaAbs / sw;
  judge(VectorTools::mean<double, double>(a, w, true), m, dm, "reductions.wmean", cls + ":normalize", "mean(a,w,true)" + in);
  judge(VectorTools::mean<double, double>(a, w), m, dm, "reductions.wmean", cls + ":default", "mean(a,w)" + in);
  judge(VectorTools::mean<double, double>(a, w, false), swa, 4 * (nn + 2) * EPS * swaAbs, "reductions.wmean", cls + ":raw", "mean(a,w,false)" + in);
  VD ce = VectorTools::center<double, double>(a, w, true);
  bool ok = ce.size() == n; size_t bad = 0;
  for (size_t i = 0; ok && i < n; ++i)
    if (!nearLD(ce[i], static_cast<LD>(a[i]) - m, dm + 2 * EPS * (fabsl(static_cast<LD>(a[i])) + fabsl(m)))) { ok = false; bad = i; }
  vrt::expect(ok, "reductions.center", cls + ":weighted", [&] { return "center(a,w)" + in + " => " + vs(ce) + " (first bad index " + str(bad) + ")"; });
  // weighted mean of an all-equal-weights vector is the plain mean; of a unit weight vector e_k the element a[k]
  {
    VD e(n, 0.0); size_t k = c.rng.below(n); e[k] = 1.0;
    judge(VectorTools::mean<double, double>(a, e), a[k], 4 * EPS * fabsl(static_cast<LD>(a[k])), "reductions.wmean", cls + ":unitweight", "mean(a,e_" + str(k) + ")" + in);
  }
  // breaks
  {
    unsigned int k = static_cast<unsigned int>(c.rng.range(1, 9));
    VD br = VectorTools::breaks(a, k);
    double mn = *min_element(a.begin(), a.end()), mx = *max_element(a.begin(), a.end());
    bool okb = br.size() == k + 1 && br[0] == mn && br[k] == mx;
    for (size_t i = 0; okb && i <= k; ++i)
      okb = nearLD(br[i], mn + (static_cast<LD>(mx) - mn) * i / k, 8 * EPS * (fabsl(static_cast<LD>(mn)) + fabsl(static_cast<LD>(mx))));
    vrt::expect(okb, "reductions.breaks", "double:" + lenClass(n), [&] { return "breaks(" + vs(a) + "," + str(k) + ") => " + vs(br); });
  }
  // nclassScott = ceil(range / (3.5 sd n^-1/3)) for a non-degenerate sample
  if (n >= 3 && style != 2 && style != 4)
  {
    LD s = 0; for (auto x : a) s += x;
    LD mean = s / nn, ss = 0;
    for (auto x : a) ss += (x - mean) * (x - mean);
    LD sd = sqrtl(ss / (nn - 1)), sdN = sqrtl(ss / nn); // the doc does not say which estimate of sigma: both accepted
    LD mn = *min_element(a.begin(), a.end()), mx = *max_element(a.begin(), a.end());
    if (sd > 0 && mx > mn)
    {
      LD q = (mx - mn) / (3.5L * sd * powl(nn, -1.0L / 3)), qN = (mx - mn) / (3.5L * sdN * powl(nn, -1.0L / 3));
      size_t lo = static_cast<size_t>(ceill(q * (1 - 1e-9L))), hi = static_cast<size_t>(ceill(qN * (1 + 1e-9L)));
      size_t got = VectorTools::nclassScott(a);
      vrt::expect(got >= lo && got <= hi, "reductions.nclassScott", "double:" + lenClass(n), [&] { return "nclassScott(" + vs(a) + ") => " + str(got) + " expected ceil(" + ld(q) + ")"; });
    }
  }
}

void caseReductions(vrt::Case& c)
{
  switch (c.index % 5)
  {
  case 0: case 1: reductionsFor<int>(c); break;
  case 2: case 3: reductionsFor<double>(c); break;
  default: reductionsWeighted(c);
  }
}

// ==================================================================== group: moments
// Reference sum_i w_i (a_i - ma)(b_i - mb) with ma = sum_i w_i a_i (weights used as given), and a rounding
// bound for any straightforward double evaluation (weights possibly obtained by one division by their sum).
struct CovRef { LD cov, bound; };
template<class T> CovRef covRef(const vector<T>& a, const vector<T>& b, const vector<LD>& w)
{
  size_t n = a.size();
  LD nn = static_cast<LD>(n);
  LD A = 0, B = 0, ma = 0, mb = 0;
  for (size_t i = 0; i < n; ++i)
  {
    ma += w[i] * static_cast<LD>(a[i]); mb += w[i] * static_cast<LD>(b[i]);
    A += fabsl(w[i] * static_cast<LD>(a[i])); B += fabsl(w[i] * static_cast<LD>(b[i]));
  }
  LD dma = (2 * nn + 6) * EPS * A, dmb = (2 * nn + 6) * EPS * B;
  CovRef r; r.cov = 0; r.bound = 0;
  for (size_t i = 0; i < n; ++i)
  {
    LD ai = static_cast<LD>(a[i]), bi = static_cast<LD>(b[i]);
    LD d = ai - ma, e = bi - mb;
    LD dd = dma + EPS * (fabsl(ai) + fabsl(ma)), de = dmb + EPS * (fabsl(bi) + fabsl(mb));
    r.cov += w[i] * d * e;
    r.bound += fabsl(w[i]) * (dd * fabsl(e) + de * fabsl(d) + dd * de) + (2 * nn + 8) * EPS * fabsl(w[i] * d * e);
  }
  r.bound *= 4;
  return r;
}
LD sdTol(LD var, LD bound) { return sqrtl(var + bound) - sqrtl(max<LD>(var - bound, 0)) + 4 * EPS * sqrtl(var + bound); }
// tolerance for C/sqrt(Va Vb) given bounds on the three; negative = not judgeable
LD corTol(LD C, LD bc, LD Va, LD ba, LD Vb, LD bb)
{
  if (!(Va - ba > 0) || !(Vb - bb > 0)) return -1;
  if (Va < 64 * ba || Vb < 64 * bb) return -1;
  LD r = C / sqrtl(Va * Vb);
  LD dlo = sqrtl((Va - ba) * (Vb - bb)), dhi = sqrtl((Va + ba) * (Vb + bb));
  LD t = 0;
  for (LD num : { C - bc, C + bc }) for (LD den : { dlo, dhi }) t = max(t, fabsl(num / den - r));
  return t + 16 * EPS * (1 + fabsl(r));
}

template<class T> void momentsFor(vrt::Case& c)
{
  const string ty = TN<T>::n();
  size_t n = drawLen(c.rng);
  if (n == 0) n = 2; // empty input: edge group
  int style; string sname, wname;
  vector<T> a = Gen<T>::make(c.rng, n, style, sname);
  vector<T> b = Gen<T>::like(c.rng, n, style);
  int rel = static_cast<int>(c.rng.below(6));
  if (rel == 0) b = a;                                            // identical
  else if (rel == 1) for (size_t i = 0; i < n; ++i) b[i] = static_cast<T>(-3 * a[i] + 2);  // exact negative linear relation
  const string relName = rel == 0 ? "same" : rel == 1 ? "neglinear" : "free";
  const string cls = ty + ":" + lenClass(n);
  const string in = " a=" + vs(a) + " b=" + vs(b);
  vrt::describe("moments:" + ty, ty + in);
  vrt::cover("moments:" + ty + ":" + lenClass(n) + ":" + sname + ":" + relName);
  const LD nn = static_cast<LD>(n);
  vector<LD> eq(n, 1 / nn);
  CovRef cab = covRef(a, b, eq), caa = covRef(a, a, eq), cbb = covRef(b, b, eq);

  // biased estimates (divide by n)
  judge(VectorTools::cov<T, double>(a, b, false), cab.cov, cab.bound + 4 * EPS * fabsl(cab.cov), "moments.cov", cls + ":biased", "cov(a,b,false)" + in);
  judge(VectorTools::var<T, double>(a, false), caa.cov, caa.bound + 4 * EPS * fabsl(caa.cov), "moments.var", cls + ":biased", "var(a,false)" + in);
  judge(VectorTools::sd<T, double>(a, false), sqrtl(caa.cov), sdTol(caa.cov, caa.bound), "moments.sd", cls + ":biased", "sd(a,false)" + in);
  if (n >= 2)
  {
    LD k = nn / (nn - 1);
    judge(VectorTools::cov<T, double>(a, b, true), cab.cov * k, (cab.bound + 8 * EPS * fabsl(cab.cov)) * k, "moments.cov", cls + ":unbiased", "cov(a,b,true)" + in);
    judge(VectorTools::cov<T, double>(a, b), cab.cov * k, (cab.bound + 8 * EPS * fabsl(cab.cov)) * k, "moments.cov", cls + ":default", "cov(a,b)" + in);
    judge(VectorTools::var<T, double>(a), caa.cov * k, (caa.bound + 8 * EPS * fabsl(caa.cov)) * k, "moments.var", cls + ":unbiased", "var(a)" + in);
    judge(VectorTools::sd<T, double>(a), sqrtl(caa.cov * k), sdTol(caa.cov * k, (caa.bound + 8 * EPS * fabsl(caa.cov)) * k), "moments.sd", cls + ":unbiased", "sd(a)" + in);
    // symmetry
    double c1 = VectorTools::cov<T, double>(a, b), c2 = VectorTools::cov<T, double>(b, a);
    vrt::expect(nearLD(c1, c2, 2 * cab.bound * k + 8 * EPS * fabsl(cab.cov) * k), "moments.cov", cls + ":symmetry", [&] { return "cov(a,b)=" + str(c1) + " cov(b,a)=" + str(c2) + in; });
    // Pearson correlation
    LD t = corTol(cab.cov, cab.bound, caa.cov, caa.bound, cbb.cov, cbb.bound);
    if (t >= 0)
    {
      LD r = cab.cov / sqrtl(caa.cov * cbb.cov);
      double got = VectorTools::cor<T, double>(a, b);
      judge(got, r, t, "moments.cor", cls + ":" + relName, "cor(a,b)" + in);
      vrt::expect(std::fabs(got) <= 1 + static_cast<double>(t), "moments.cor", cls + ":range", [&] { return "cor(a,b)=" + str(got) + in; });
    }
    else vrt::counted("moments.cor-degenerate-unjudged");
  }
  // cosine of the angle
  {
    LD s = 0, sAbs = 0, na = 0, nb = 0;
    for (size_t i = 0; i < n; ++i)
    {
      LD x = static_cast<LD>(a[i]), y = static_cast<LD>(b[i]);
      s += x * y; sAbs += fabsl(x * y); na += x * x; nb += y * y;
    }
    if (na > 0 && nb > 0)
    {
      LD r = s / sqrtl(na * nb);
      judge(VectorTools::cos<T, double>(a, b), r, 4 * (nn + 2) * EPS * sAbs / sqrtl(na * nb) + 8 * (nn + 3) * EPS * fabsl(r) + 4 * EPS, "moments.cos", cls, "cos(a,b)" + in);
    }
  }
}

void momentsWeighted(vrt::Case& c)
{
  size_t n = drawLen(c.rng);
  if (n == 0) n = 2;
  int style; string sname, wname;
  VD a = Gen<double>::make(c.rng, n, style, sname);
  VD b = Gen<double>::like(c.rng, n, style);
  VD w = genWeights(c.rng, n, wname);
  if (c.rng.chance(0.15)) b = a;
  const string cls = "double:" + lenClass(n) + ":" + wname;
  const string in = " a=" + vs(a) + " b=" + vs(b) + " w=" + vs(w);
  vrt::describe("moments:weighted", in);
  vrt::cover("wmoments:" + lenClass(n) + ":" + sname + ":" + wname);
  const LD nn = static_cast<LD>(n);
  LD sw = 0; for (auto x : w) sw += x;
  vector<LD> wn(n); size_t npos = 0; LD sw2 = 0;
  for (size_t i = 0; i < n; ++i) { wn[i] = w[i] / sw; sw2 += wn[i] * wn[i]; if (w[i] > 0) ++npos; }
  CovRef cab = covRef(a, b, wn), caa = covRef(a, a, wn), cbb = covRef(b, b, wn);
  // biased, weights normalised by the library
  double gCov = VectorTools::cov<double, double>(a, b, w, false, true);
  double gVar = VectorTools::var<double, double>(a, w, false, true);
  judge(gCov, cab.cov, cab.bound + 4 * EPS * fabsl(cab.cov), "moments.wcov", cls + ":biased", "cov(a,b,w,false,true)" + in);
  judge(gVar, caa.cov, caa.bound + 4 * EPS * fabsl(caa.cov), "moments.wvar", cls + ":biased", "var(a,w,false,true)" + in);
  judge(VectorTools::sd<double, double>(a, w, false, true), sqrtl(caa.cov), sdTol(caa.cov, caa.bound), "moments.wsd", cls + ":biased", "sd(a,w,false,true)" + in);
  // weights normalised by the caller: same value
  {
    VD wd = w / VectorTools::sum(w);
    vector<LD> wl(wd.begin(), wd.end());
    CovRef r = covRef(a, b, wl);
    judge(VectorTools::cov<double, double>(a, b, wd, false, false), r.cov, r.bound + 4 * EPS * fabsl(r.cov), "moments.wcov", cls + ":prenormalised", "cov(a,b,w/sum(w),false,false)" + in);
  }
  // unbiased: (1) equal weights = classical n-1 estimate; (2) correction factor >= 1 that depends on the weights only
  if (n >= 2 && npos >= 2)
  {
    double uCov = VectorTools::cov<double, double>(a, b, w, true, true);
    double uVar = VectorTools::var<double, double>(a, w, true, true);
    double uCovDefault = VectorTools::cov<double, double>(a, b, w);
    vrt::expect(vrt::sameDouble(uCov, uCovDefault), "moments.wcov", cls + ":defaults", [&] { return "cov(a,b,w)=" + str(uCovDefault) + " cov(a,b,w,true,true)=" + str(uCov) + in; });
    if (wname == "wequal")
    {
      LD k = nn / (nn - 1);
      judge(uCov, cab.cov * k, (cab.bound + 8 * (nn + 4) * EPS * fabsl(cab.cov)) * k, "moments.wcov", cls + ":unbiased-equalweights", "cov(a,b,w,true,true)" + in);
      judge(uVar, caa.cov * k, (caa.bound + 8 * (nn + 4) * EPS * fabsl(caa.cov)) * k, "moments.wvar", cls + ":unbiased-equalweights", "var(a,w,true,true)" + in);
    }
    if (fabsl(caa.cov) > 1e3 * caa.bound && std::isfinite(uVar) && gVar > 0)
    {
      double kv = uVar / gVar;
      vrt::expect(kv >= 1 - 1e-9, "moments.wvar", cls + ":unbiased-factor", [&] { return "var unbiased/biased = " + str(kv) + in; });
      if (fabsl(cab.cov) > 1e3 * cab.bound && gCov != 0)
      {
        double kc = uCov / gCov;
        vrt::expect(vrt::close(kc, kv, 1e-6), "moments.wcov", cls + ":unbiased-factor", [&] { return "cov unbiased/biased = " + str(kc) + " but var unbiased/biased = " + str(kv) + in; });
      }
    }
    else vrt::counted("moments.wvar-degenerate-unjudged");
  }
  // weighted Pearson correlation
  {
    LD t = corTol(cab.cov, cab.bound, caa.cov, caa.bound, cbb.cov, cbb.bound);
    if (t >= 0)
    {
      LD r = cab.cov / sqrtl(caa.cov * cbb.cov);
      judge(VectorTools::cor<double, double>(a, b, w, true), r, t, "moments.wcor", cls, "cor(a,b,w,true)" + in);
      judge(VectorTools::cor<double, double>(a, b, w), r, t, "moments.wcor", cls + ":default", "cor(a,b,w)" + in);
      VD wd = w / VectorTools::sum(w);
      judge(VectorTools::cor<double, double>(a, b, wd, false), r, 2 * t, "moments.wcor", cls + ":prenormalised", "cor(a,b,w/sum(w),false)" + in);
    }
    else vrt::counted("moments.cor-degenerate-unjudged");
  }
  // weighted cosine
  {
    LD s = 0, sAbs = 0, na = 0, nb = 0;
    for (size_t i = 0; i < n; ++i) { LD x = a[i], y = b[i], z = w[i]; s += x * y * z; sAbs += fabsl(x * y * z); na += x * x * z; nb += y * y * z; }
    if (na > 0 && nb > 0)
    {
      LD r = s / sqrtl(na * nb);
      judge(VectorTools::cos<double, double>(a, b, w), r, 4 * (nn + 3) * EPS * sAbs / sqrtl(na * nb) + 8 * (nn + 4) * EPS * fabsl(r) + 4 * EPS, "moments.cos", cls + ":weighted", "cos(a,b,w)" + in);
    }
  }
}

void caseMoments(vrt::Case& c)
{
  switch (c.index % 4)
  {
  case 0: case 1: case 2: momentsFor<double>(c); break; // (cov<int,double> does not instantiate: InputType must equal OutputType)
  default: momentsWeighted(c);
  }
}

// ==================================================================== group: entropy
void caseEntropy(vrt::Case& c)
{
  size_t n = drawLen(c.rng);
  const double DEFAULT_BASE = 2.7182818; // the documented default argument
  int bsel = static_cast<int>(c.rng.below(4));
  double base = bsel == 0 ? DEFAULT_BASE : bsel == 1 ? 2.0 : bsel == 2 ? 10.0 : 2.718281828459045;
  const string bname = bsel == 0 ? "default" : "base" + str(base);
  const LD lb = logl(static_cast<LD>(base));
  const LD nn = static_cast<LD>(n);
  int kind = static_cast<int>(c.index % 4);
  if (kind == 0)
  {
    // shannon on a vector of frequencies
    VD f(n);
    for (size_t i = 0; i < n; ++i) f[i] = c.rng.chance(0.15) ? 0.0 : c.rng.real(0.01, 1);
    bool normalised = c.rng.chance(0.7);
    if (normalised) { LD s = 0; for (auto x : f) s += x; if (s > 0) for (auto& x : f) x = static_cast<double>(x / s); }
    vrt::describe("entropy:shannon", "f=" + vs(f) + " base=" + str(base));
    vrt::cover("shannon:" + lenClass(n) + ":" + bname + (normalised ? ":freq" : ":raw"));
    LD ref = 0, refAbs = 0;
    for (auto x : f) if (x > 0) { LD t = static_cast<LD>(x) * logl(static_cast<LD>(x)) / lb; ref -= t; refAbs += fabsl(t); }
    LD tol = 4 * (nn + 8) * EPS * refAbs;
    double got = bsel == 0 ? VectorTools::shannon<double, double>(f) : VectorTools::shannon<double, double>(f, base);
    judge(got, ref, tol, "entropy.shannon", lenClass(n) + ":" + bname, "shannon(" + vs(f) + "," + bname + ")");
    return;
  }
  if (kind == 3)
  {
    // continuous versions: affine behaviour of the differential entropy, documented exception
    size_t m = static_cast<size_t>(c.rng.range(8, 40));
    VD x(m), y(m);
    for (size_t i = 0; i < m; ++i) { x[i] = c.rng.real(0, 1); y[i] = 0.5 * x[i] + c.rng.real(0, 1); }
    double sc = c.rng.pick(VD{ 2.0, 0.5, 4.0, 8.0 }), sh = static_cast<double>(c.rng.range(-4, 4));
    VD x2(m);
    for (size_t i = 0; i < m; ++i) x2[i] = sc * x[i] + sh;
    vrt::describe("entropy:continuous", "x=" + vs(x) + " scale=" + str(sc) + " shift=" + str(sh) + " base=" + str(base));
    vrt::cover("shannonContinuous:" + bname + ":scale" + str(sc));
    double h1 = 0, h2 = 0;
    vrt::Outcome o = vrt::capture([&] { h1 = VectorTools::shannonContinuous<double, double>(x, base); h2 = VectorTools::shannonContinuous<double, double>(x2, base); });
    if (o.returned() && std::isfinite(h1) && std::isfinite(h2))
    {
      LD want = static_cast<LD>(h1) + logl(static_cast<LD>(sc)) / lb;
      judge(h2, want, 1e-7L * (1 + fabsl(want)), "entropy.continuous-affine", bname, "shannonContinuous(" + str(sc) + "*x+" + str(sh) + ") with H(x)=" + str(h1) + " x=" + vs(x));
    }
    else vrt::counted("entropy.continuous-unjudged");
    VD ys(y.begin(), y.begin() + static_cast<long>(m - 1 - c.rng.below(3)));
    vrt::Outcome om = vrt::capture([&] { (void)VectorTools::miContinuous<double, double>(x, ys, base); });
    vrt::expect(isDim(om), "entropy.mi-mismatch", "miContinuous", [&] { return "miContinuous on lengths " + str(m) + "," + str(ys.size()) + " " + om.text(); });
    vrt::Outcome oc = vrt::capture([&] { (void)VectorTools::miContinuous<double, double>(x, y, base); });
    vrt::counted("entropy.continuous-no-abort");
    (void)oc;
    return;
  }
  // discrete samples
  int alpha = static_cast<int>(c.rng.range(1, 6));
  VI s1(n), s2(n);
  int dep = static_cast<int>(c.rng.below(4)); // 0 independent, 1 identical, 2 function of s1, 3 noisy copy
  for (size_t i = 0; i < n; ++i)
  {
    s1[i] = static_cast<int>(c.rng.range(0, alpha - 1));
    s2[i] = dep == 0 ? static_cast<int>(c.rng.range(0, alpha - 1)) : dep == 1 ? s1[i] : dep == 2 ? (s1[i] * 7 + 3) % 4 : (c.rng.chance(0.7) ? s1[i] : static_cast<int>(c.rng.range(0, alpha)));
  }
  const string depName = dep == 0 ? "independent" : dep == 1 ? "identical" : dep == 2 ? "function" : "noisy";
  vrt::describe("entropy:discrete", "s1=" + vs(s1) + " s2=" + vs(s2) + " base=" + str(base));
  auto entropyRef = [&](const VI& s, LD& refAbs) {
      map<int, LD> cnt; for (auto x : s) cnt[x] += 1;
      LD h = 0; refAbs = 0;
      for (auto& kv : cnt) { LD p = kv.second / nn; LD t = p * logl(p) / lb; h -= t; refAbs += fabsl(t); }
      return h;
    };
  LD a1, a2;
  LD h1 = entropyRef(s1, a1);
  (void)entropyRef(s2, a2);
  if (kind == 1)
  {
    vrt::cover("shannonDiscrete:" + lenClass(n) + ":" + bname + ":alpha" + str(alpha));
    double got = bsel == 0 ? VectorTools::shannonDiscrete<int, double>(s1) : VectorTools::shannonDiscrete<int, double>(s1, base);
    judge(got, n ? h1 : 0, 4 * (nn + 8) * EPS * a1, "entropy.shannonDiscrete", lenClass(n) + ":" + bname, "shannonDiscrete(" + vs(s1) + "," + bname + ")");
    // same sample as doubles
    VD sd(s1.begin(), s1.end());
    double gd = VectorTools::shannonDiscrete<double, double>(sd, base);
    judge(gd, n ? h1 : 0, 4 * (nn + 8) * EPS * a1, "entropy.shannonDiscrete", lenClass(n) + ":double", "shannonDiscrete<double>(" + vs(sd) + ")");
    return;
  }
  // kind == 2: mutual information
  vrt::cover("miDiscrete:" + lenClass(n) + ":" + bname + ":" + depName);
  map<pair<int, int>, LD> c12; map<int, LD> c1, c2;
  for (size_t i = 0; i < n; ++i) { c12[make_pair(s1[i], s2[i])] += 1; c1[s1[i]] += 1; c2[s2[i]] += 1; }
  LD mi = 0, miAbs = 0;
  for (auto& kv : c12) { LD t = (kv.second / nn) * logl(kv.second * nn / (c1[kv.first.first] * c2[kv.first.second])) / lb; mi += t; miAbs += fabsl(t); }
  LD tol = 4 * (nn + 10) * EPS * (miAbs + 1);
  double got = bsel == 0 ? VectorTools::miDiscrete<int, double>(s1, s2) : VectorTools::miDiscrete<int, double>(s1, s2, base);
  const string cls = lenClass(n) + ":" + depName;
  judge(got, n ? mi : 0, tol, "entropy.miDiscrete", cls, "miDiscrete(" + vs(s1) + "," + vs(s2) + "," + bname + ")");
  if (n > 0)
  {
    double sym = VectorTools::miDiscrete<int, double>(s2, s1, base), hh1 = VectorTools::shannonDiscrete<int, double>(s1, base), hh2 = VectorTools::shannonDiscrete<int, double>(s2, base);
    double gb = VectorTools::miDiscrete<int, double>(s1, s2, base);
    LD t2 = 2 * tol + 8 * (nn + 8) * EPS * (a1 + a2);
    vrt::expect(nearLD(sym, gb, t2), "entropy.mi-laws", cls + ":symmetry", [&] { return "MI(s1,s2)=" + str(gb) + " MI(s2,s1)=" + str(sym) + " s1=" + vs(s1) + " s2=" + vs(s2); });
    vrt::expect(gb >= -static_cast<double>(t2) && gb <= min(hh1, hh2) + static_cast<double>(t2), "entropy.mi-laws", cls + ":bounds", [&] { return "MI=" + str(gb) + " H1=" + str(hh1) + " H2=" + str(hh2) + " s1=" + vs(s1) + " s2=" + vs(s2); });
    double self = VectorTools::miDiscrete<int, double>(s1, s1, base);
    vrt::expect(nearLD(self, hh1, t2), "entropy.mi-laws", cls + ":self", [&] { return "MI(s1,s1)=" + str(self) + " H(s1)=" + str(hh1) + " s1=" + vs(s1); });
    // documented exception on unequal lengths
    VI shorter(s2.begin(), s2.end() - 1);
    vrt::Outcome o = vrt::capture([&] { (void)VectorTools::miDiscrete<int, double>(s1, shorter, base); });
    vrt::expect(isDim(o), "entropy.mi-mismatch", "miDiscrete", [&] { return "miDiscrete on lengths " + str(n) + "," + str(n - 1) + " " + o.text(); });
  }
}

// ==================================================================== group: setlike
template<class T> struct PoolGen;
template<> struct PoolGen<int> { static int make(vrt::Rng& r, int k) { return static_cast<int>(r.range(-2, k - 3)); } };
template<> struct PoolGen<double> { static double make(vrt::Rng& r, int k) { return 0.5 * static_cast<double>(r.range(-2, k - 3)); } };
template<> struct PoolGen<string>
{
  static string make(vrt::Rng& r, int k)
  {
    static const char* const names[] = { "a", "b", "ab", "", "A", "seq1", "seq10", "z", "aa", "b ", "c", "d" };
    return names[r.below(static_cast<size_t>(min(k, 12)))];
  }
};
template<class T> vector<T> genPool(vrt::Rng& r, size_t n, int k, bool distinct)
{
  vector<T> v;
  set<T> seen;
  for (size_t tries = 0; v.size() < n && tries < 50 * (n + 1); ++tries)
  {
    T x = PoolGen<T>::make(r, k);
    if (distinct && seen.count(x)) continue;
    seen.insert(x);
    v.push_back(x);
  }
  return v;
}
template<class T> vector<T> firstOccurrences(const vector<T>& v)
{
  vector<T> out; set<T> seen;
  for (auto& x : v) if (seen.insert(x).second) out.push_back(x);
  return out;
}
template<class T> bool hasDuplicates(const vector<T>& v) { return set<T>(v.begin(), v.end()).size() != v.size(); }
template<class T> set<T> asSet(const vector<T>& v) { return set<T>(v.begin(), v.end()); }

template<class T> void setlikeFor(vrt::Case& c)
{
  const string ty = TN<T>::n();
  size_t n1 = drawLen(c.rng), n2 = c.rng.chance(0.3) ? n1 : drawLen(c.rng);
  if (c.rng.chance(0.5)) { n1 = min<size_t>(n1, 6); n2 = min<size_t>(n2, 6); }
  int k = static_cast<int>(c.rng.pick(vector<int>{ 3, 5, 8, 12, 40 }));
  if (TN<T>::n() == string("string")) k = min(k, 12);
  bool distinct = c.rng.chance(0.3);
  vector<T> v1 = genPool<T>(c.rng, n1, k, distinct), v2 = genPool<T>(c.rng, n2, k, distinct);
  int rel = static_cast<int>(c.rng.below(8));
  if (rel == 0) v2 = v1;
  else if (rel == 1) { v2 = v1; c.rng.shuffle(v2); }
  else if (rel == 2 && !v1.empty()) { v2.clear(); for (auto& x : v1) if (c.rng.chance(0.5)) v2.push_back(x); c.rng.shuffle(v2); } // subset
  else if (rel == 3) { v2 = firstOccurrences(v1); } // same set, different multiplicities
  n1 = v1.size(); n2 = v2.size();
  const set<T> s1 = asSet(v1), s2 = asSet(v2);
  set<T> sU(s1), sI, sD;
  sU.insert(s2.begin(), s2.end());
  for (auto& x : s1) { if (s2.count(x)) sI.insert(x); else sD.insert(x); }
  const bool subset = sI.size() == s2.size(); // s2 subset of s1
  const string shape = string(n1 == 0 ? "e" : "x") + (n2 == 0 ? "e" : "x");
  const string rels = sI.empty() ? "disjoint" : (s1 == s2 ? "equalsets" : subset ? "contains2" : "overlap");
  const string dup = string(hasDuplicates(v1) ? "d" : "u") + (hasDuplicates(v2) ? "d" : "u");
  const string cls = ty + ":" + shape + ":" + rels;
  const string in = " v1=" + vs(v1) + " v2=" + vs(v2);
  vrt::describe("setlike:" + ty, ty + in);
  vrt::cover("setlike:" + ty + ":" + shape + ":" + rels + ":" + dup);

  // unique / isUnique / countValues
  {
    vector<T> u = VectorTools::unique(v1);
    vector<T> want(s1.begin(), s1.end());
    vrt::expect(u == want, "setlike.unique", ty + ":" + (n1 ? "x" : "e") + ":" + dup[0], [&] { return "unique(" + vs(v1) + ") => " + vs(u); });
    bool iu = VectorTools::isUnique(v1);
    vrt::expect(iu == !hasDuplicates(v1), "setlike.isUnique", ty + ":" + (n1 ? "x" : "e") + ":" + dup[0], [&] { return "isUnique(" + vs(v1) + ") => " + str(iu); });
    map<T, size_t> cnt = VectorTools::countValues(v1), wc;
    for (auto& x : v1) wc[x]++;
    vrt::expect(cnt == wc, "setlike.count", ty + ":" + (n1 ? "x" : "e"), [&] { return "countValues(" + vs(v1) + ") has " + str(cnt.size()) + " keys, expected " + str(wc.size()); });
  }
  // contains
  {
    bool ok = true; T bad = T();
    vector<T> probes(v2);
    probes.push_back(PoolGen<T>::make(c.rng, k));
    for (auto& x : probes) if (VectorTools::contains(v1, x) != (s1.count(x) > 0)) { ok = false; bad = x; }
    vrt::expect(ok, "setlike.contains", cls, [&] { return "contains(" + vs(v1) + "," + one(bad) + ") is wrong"; });
  }
  // containsAll (sorts its arguments)
  {
    vector<T> x1(v1), x2(v2);
    bool got = false;
    vrt::Outcome o = vrt::capture([&] { got = VectorTools::containsAll(x1, x2); });
    vrt::expect(o.returned() && got == subset, "setlike.containsAll", cls, [&] { return "containsAll(" + vs(v1) + "," + vs(v2) + ") " + (o.returned() ? "=> " + str(got) : o.text()) + " expected " + str(subset); });
  }
  // haveSameElements: the non-const overload documents "in the same frequency"; the const overload only "the same elements"
  {
    vector<T> x1(v1), x2(v2);
    multiset<T> m1(v1.begin(), v1.end()), m2(v2.begin(), v2.end());
    bool got = VectorTools::haveSameElements(x1, x2);
    vrt::expect(got == (m1 == m2), "setlike.haveSameElements", cls + ":" + dup, [&] { return "haveSameElements(" + vs(v1) + "," + vs(v2) + ") => " + str(got); });
    const vector<T>& c1 = v1; const vector<T>& c2 = v2;
    bool gc = VectorTools::haveSameElements(c1, c2);
    vrt::expect(gc == (m1 == m2) || gc == (s1 == s2), "setlike.haveSameElements", cls + ":const:" + dup, [&] { return "haveSameElements(const " + vs(v1) + ",const " + vs(v2) + ") => " + str(gc); });
  }
  // union (2 vectors, list, extend)
  {
    vector<T> u = VectorTools::vectorUnion(v1, v2);
    // "duplicate elements will be removed": an element that only comes from v2 appears once; an element of v1 at most as often as in v1
    bool ok = asSet(u) == sU;
    for (auto& x : sU)
    {
      size_t cu = static_cast<size_t>(count(u.begin(), u.end(), x)), c1 = static_cast<size_t>(count(v1.begin(), v1.end(), x));
      if (c1 == 0 ? cu != 1 : cu > c1) ok = false;
    }
    vrt::expect(ok, "setlike.union", cls + ":" + dup, [&] { return "vectorUnion(" + vs(v1) + "," + vs(v2) + ") => " + vs(u); });
    vector<T> e(v1);
    VectorTools::extend(e, v2);
    bool oke = asSet(e) == sU && e.size() >= n1 && vector<T>(e.begin(), e.begin() + static_cast<long>(n1)) == v1 && (hasDuplicates(v1) || hasDuplicates(v2) || !hasDuplicates(e));
    vrt::expect(oke, "setlike.union", cls + ":extend:" + dup, [&] { return "extend(" + vs(v1) + "," + vs(v2) + ") => " + vs(e); });
    vector<T> v3 = genPool<T>(c.rng, c.rng.below(5), k, distinct);
    size_t nl = c.rng.below(4);
    vector<vector<T>> lst;
    if (nl >= 1) lst.push_back(v1);
    if (nl >= 2) lst.push_back(v2);
    if (nl >= 3) lst.push_back(v3);
    set<T> want; bool anyDup = false;
    for (auto& x : lst) { want.insert(x.begin(), x.end()); anyDup = anyDup || hasDuplicates(x); }
    vector<T> ul = VectorTools::vectorUnion(lst);
    bool okl = asSet(ul) == want;
    for (auto& x : want)
    {
      size_t cu = static_cast<size_t>(count(ul.begin(), ul.end(), x)), cf = 0;
      for (auto& l : lst) { cf = static_cast<size_t>(count(l.begin(), l.end(), x)); if (cf) break; }
      if (cu > cf) okl = false; // at most as often as in the first vector that holds it
    }
    (void)anyDup;
    vrt::expect(okl, "setlike.union", ty + ":list" + str(nl), [&] { return "vectorUnion(list of " + str(nl) + ":" + in + " v3=" + vs(v3) + ") => " + vs(ul); });
    // intersection of a list
    set<T> wi;
    if (nl >= 1) for (auto& x : lst[0]) { bool all = true; for (size_t j = 1; j < nl; ++j) all = all && asSet(lst[j]).count(x); if (all) wi.insert(x); }
    vector<T> il = VectorTools::vectorIntersection(lst);
    vector<T> filt;
    if (nl >= 1) for (auto& x : lst[0]) if (wi.count(x)) filt.push_back(x);
    vrt::expect(asSet(il) == wi && firstOccurrences(il) == firstOccurrences(filt), "setlike.intersection", ty + ":list" + str(nl), [&] { return "vectorIntersection(list of " + str(nl) + ":" + in + " v3=" + vs(v3) + ") => " + vs(il); });
    // concatenation of a list
    vector<T> cat; for (auto& x : lst) cat.insert(cat.end(), x.begin(), x.end());
    vector<T> al = VectorTools::append(lst);
    vrt::expect(al == cat, "setlike.append", ty + ":list" + str(nl), [&] { return "append(list of " + str(nl) + ":" + in + " v3=" + vs(v3) + ") => " + vs(al); });
  }
  // intersection: the elements of v1 that are in v2, in the order of v1
  {
    vector<T> it = VectorTools::vectorIntersection(v1, v2);
    vector<T> filt; for (auto& x : v1) if (s2.count(x)) filt.push_back(x);
    vrt::expect(asSet(it) == sI && firstOccurrences(it) == firstOccurrences(filt), "setlike.intersection", cls + ":" + dup, [&] { return "vectorIntersection(" + vs(v1) + "," + vs(v2) + ") => " + vs(it); });
  }
  // append / prepend of two vectors
  {
    vector<T> x(v1); VectorTools::append(x, v2);
    vector<T> cat(v1); cat.insert(cat.end(), v2.begin(), v2.end());
    vector<T> y(v1); VectorTools::prepend(y, v2);
    vector<T> pre(v2); pre.insert(pre.end(), v1.begin(), v1.end());
    vrt::expect(x == cat && y == pre, "setlike.append", cls, [&] { return "append/prepend(" + vs(v1) + "," + vs(v2) + ") => " + vs(x) + " / " + vs(y); });
  }
  // diff: sorted vector of the elements of v1 not found in v2
  {
    vector<T> x1(v1), x2(v2), d;
    vrt::Outcome o = vrt::capture([&] { VectorTools::diff(x1, x2, d); });
    bool ok = o.returned() && asSet(d) == sD && is_sorted(d.begin(), d.end());
    vrt::expect(ok, "setlike.diff", cls + ":" + dup[0], [&] { return "diff(" + vs(v1) + "," + vs(v2) + ") " + (o.returned() ? "=> " + vs(d) : o.text()); });
  }
  // extract at valid positions
  if (n1 > 0)
  {
    vector<size_t> pos(c.rng.below(6));
    for (auto& p : pos) p = c.rng.below(n1);
    vector<T> ex = VectorTools::extract(v1, pos);
    bool ok = ex.size() == pos.size();
    for (size_t i = 0; ok && i < pos.size(); ++i) ok = ex[i] == v1[pos[i]];
    vrt::expect(ok, "setlike.extract", ty, [&] { return "extract(" + vs(v1) + "," + vs(pos) + ") => " + vs(ex); });
  }
}

void caseSetlike(vrt::Case& c)
{
  switch (c.index % 3)
  {
  case 0: setlikeFor<int>(c); break;
  case 1: setlikeFor<string>(c); break;
  default: setlikeFor<double>(c);
  }
  if (c.index % 3 == 2)
  {
    // mixed-type overloads: contains(vector<T>, U) and vectorIntersection(vector<T>, vector<U>) on integral values
    VD d = genPool<double>(c.rng, c.rng.below(8), 8, false);
    for (auto& x : d) x = std::floor(x);
    VI iv = genPool<int>(c.rng, c.rng.below(8), 8, false);
    set<int> si(iv.begin(), iv.end());
    vector<double> it = VectorTools::vectorIntersection(d, iv);
    VD filt; for (auto x : d) if (si.count(static_cast<int>(x))) filt.push_back(x);
    vrt::expect(asSet(it) == asSet(filt) && firstOccurrences(it) == firstOccurrences(filt), "setlike.intersection", "double-int", [&] { return "vectorIntersection(" + vs(d) + "," + vs(iv) + ") => " + vs(it); });
    int probe = static_cast<int>(c.rng.range(-2, 5));
    bool want = false; for (auto x : d) if (x == probe) want = true;
    vrt::expect(VectorTools::contains(d, probe) == want, "setlike.contains", "double-int", [&] { return "contains(" + vs(d) + ",int " + str(probe) + ")"; });
  }
}

// ==================================================================== group: seqrep
void caseSeqRep(vrt::Case& c)
{
  int kind = static_cast<int>(c.index % 4);
  if (kind == 0)
  {
    // integer sequences
    int from = static_cast<int>(c.rng.range(-20, 20)), by = static_cast<int>(c.rng.range(1, 7));
    int to = c.rng.chance(0.15) ? from : c.rng.chance(0.4) ? from + by * static_cast<int>(c.rng.range(-9, 9)) : static_cast<int>(c.rng.range(-20, 20));
    if (c.rng.chance(0.1)) { by = static_cast<int>(c.rng.range(1, 2)); to = from + (c.rng.chance(0.5) ? 63 : -63) * by; }
    const string dir = from < to ? "ascending" : from > to ? "descending" : "single";
    const bool hits = (to - from) % by == 0;
    vrt::describe("seq:int", "seq(" + str(from) + "," + str(to) + "," + str(by) + ")");
    vrt::cover(string("seq:int:") + dir + (hits ? ":hits-end" : ":stops-before") + (by == 1 ? ":by1" : ""));
    VI s = VectorTools::seq(from, to, by);
    size_t cnt = static_cast<size_t>(abs(to - from) / by) + 1;
    bool ok = s.size() == cnt;
    for (size_t i = 0; ok && i < cnt; ++i) ok = s[i] == (from <= to ? from + static_cast<int>(i) * by : from - static_cast<int>(i) * by);
    vrt::expect(ok, "seqrep.seq", "int:" + dir, [&] { return "seq(" + str(from) + "," + str(to) + "," + str(by) + ") => " + vs(s); });
    return;
  }
  if (kind == 1)
  {
    // real sequences: dyadic steps (exact arithmetic) or decimal steps; the end is k + frac steps away, frac in {0} or [0.1,0.9]
    bool dyadic = c.rng.chance(0.5);
    double by = dyadic ? static_cast<double>(c.rng.range(1, 40)) / 8 : c.rng.pick(VD{ 0.1, 0.2, 0.3, 0.01, 0.7, 1.1, 2.5, 1e-3 });
    double from = dyadic ? static_cast<double>(c.rng.range(-80, 80)) / 8 : c.rng.real(-5, 5);
    size_t k = c.rng.chance(0.1) ? 63 : c.rng.below(20);
    double frac = c.rng.chance(0.5) ? 0.0 : (dyadic ? c.rng.pick(VD{ 0.25, 0.5, 0.75 }) : c.rng.real(0.1, 0.9));
    bool up = c.rng.chance(0.5);
    double span = (static_cast<double>(k) + frac) * by;
    double to = up ? from + span : from - span;
    const string dir = to > from ? "ascending" : to < from ? "descending" : "single";
    vrt::describe("seq:double", "seq(" + str(from) + "," + str(to) + "," + str(by) + ")");
    vrt::cover(string("seq:double:") + dir + (dyadic ? ":dyadic" : ":decimal") + (frac == 0 ? ":hits-end" : ":stops-before"));
    VD s = VectorTools::seq(from, to, by);
    bool ok = s.size() == k + 1;
    LD tolBase = 4 * EPS * (fabsl(static_cast<LD>(from)) + fabsl(static_cast<LD>(to)) + by);
    for (size_t i = 0; ok && i <= k; ++i)
    {
      LD want = to >= from ? static_cast<LD>(from) + static_cast<LD>(i) * by : static_cast<LD>(from) - static_cast<LD>(i) * by;
      ok = nearLD(s[i], want, dyadic ? 0 : tolBase * static_cast<LD>(i + 1));
    }
    vrt::expect(ok, "seqrep.seq", "double:" + dir + (dyadic ? ":dyadic" : ":decimal"), [&] { return "seq(" + str(from) + "," + str(to) + "," + str(by) + ") => " + vs(s) + " expected " + str(k + 1) + " elements from " + str(from) + " towards " + str(to); });
    return;
  }
  // rep
  size_t n = c.rng.chance(0.6) ? c.rng.below(6) : drawLen(c.rng);
  size_t times = c.rng.below(6);
  if (kind == 2)
  {
    int st; string sn;
    VI v = Gen<int>::make(c.rng, n, st, sn);
    vrt::describe("rep:int", "rep(" + vs(v) + "," + str(times) + ")");
    vrt::cover("rep:int:" + lenClass(n) + ":times" + str(times));
    VI r = VectorTools::rep(v, times);
    bool ok = r.size() == n * times;
    for (size_t i = 0; ok && i < r.size(); ++i) ok = r[i] == v[i % n];
    vrt::expect(ok, "seqrep.rep", "int:" + lenClass(n) + ":times" + str(min<size_t>(times, 2)), [&] { return "rep(" + vs(v) + "," + str(times) + ") => " + vs(r); });
  }
  else
  {
    VS v = genPool<string>(c.rng, n, 12, false);
    n = v.size();
    vrt::describe("rep:string", "rep(" + vs(v) + "," + str(times) + ")");
    vrt::cover("rep:string:" + lenClass(n) + ":times" + str(times));
    VS r = VectorTools::rep(v, times);
    bool ok = r.size() == n * times;
    for (size_t i = 0; ok && i < r.size(); ++i) ok = r[i] == v[i % n];
    vrt::expect(ok, "seqrep.rep", "string:" + lenClass(n) + ":times" + str(min<size_t>(times, 2)), [&] { return "rep(" + vs(v) + "," + str(times) + ") => " + vs(r); });
  }
}

// ==================================================================== group: logdomain
const char* const LOG_STYLES[] = { "moderate", "large-positive", "large-negative", "huge", "with-logzero", "all-logzero", "with-plusinf", "tied-max", "wide", "free" };
const int N_LOG_STYLES = 10;
// values on the grid g*Z so that shifts by grid multiples are exact
double onGrid(double x, double g) { return std::nearbyint(x / g) * g; }
VD genLog(vrt::Rng& r, size_t n, int style, double& grid)
{
  VD v(n);
  grid = std::ldexp(1.0, -10);
  if (style == 3) grid = std::ldexp(1.0, 960);
  if (style == 9) grid = 0;
  double centre = style == 1 ? r.real(700, 900) : style == 2 ? r.real(-900, -700) : 0;
  for (size_t i = 0; i < n; ++i)
  {
    switch (style)
    {
    case 1: case 2: v[i] = onGrid(centre + r.real(-40, 40), grid); break;
    case 3: v[i] = static_cast<double>(r.range(-(1LL << 36), 1LL << 36)) * grid; break; // up to 6.7e299
    case 4: v[i] = r.chance(0.4) ? -INF : onGrid(r.real(-50, 50), grid); break;
    case 5: v[i] = -INF; break;
    case 6: v[i] = r.chance(0.3) ? INF : r.chance(0.2) ? -INF : onGrid(r.real(-50, 50), grid); break;
    case 7: v[i] = onGrid(r.real(-30, -1), grid); break;
    case 8: v[i] = onGrid(r.real(-1000, 1000), grid); break;
    case 9: v[i] = r.real(-30, 30); break;
    default: v[i] = onGrid(r.real(-5, 5), grid);
    }
  }
  if (style == 7 && n > 0) { size_t k = 1 + r.below(n); for (size_t i = 0; i < k; ++i) v[r.below(n)] = 0.0; }
  if (style == 6 && n > 0) v[r.below(n)] = INF;
  if (style == 3 && n > 1 && r.chance(0.5)) v[r.below(n)] = v[r.below(n)]; // possible tie
  return v;
}
// exact (error free) addition test
bool exactSum(double a, double b, double s)
{
  if (std::isinf(a)) return s == a;
  if (!std::isfinite(s)) return false;
  double bb = s - a;
  double err = (a - (s - bb)) + (b - bb);
  return err == 0;
}
struct LseRef { LD value; LD M; LD sumRel; bool anyNan; size_t nPlus, nFinite; };
// log sum_i w_i exp(v_i) with long double accumulation; w empty = unit weights; kappa = sum|w e|/|sum w e|
LseRef lseRef(const VD& v, const VD& w, LD* kappa = nullptr)
{
  LseRef r; r.M = -INF; r.nPlus = 0; r.nFinite = 0; r.anyNan = false;
  for (auto x : v) { if (x > r.M) r.M = x; if (x == INF) ++r.nPlus; if (std::isfinite(x)) ++r.nFinite; }
  LD s = 0, sa = 0;
  if (std::isfinite(static_cast<double>(r.M)))
    for (size_t i = 0; i < v.size(); ++i) { LD t = (w.empty() ? 1.0L : static_cast<LD>(w[i])) * expl(static_cast<LD>(v[i]) - r.M); s += t; sa += fabsl(t); }
  r.sumRel = s;
  if (kappa) *kappa = s != 0 ? sa / fabsl(s) : static_cast<LD>(INF);
  r.value = std::isfinite(static_cast<double>(r.M)) ? r.M + logl(s) : r.M;
  return r;
}

void caseLogDomain(vrt::Case& c)
{
  size_t n = drawLen(c.rng);
  if (n == 0) n = static_cast<size_t>(c.rng.range(1, 4)); // empty input: edge group
  int style = static_cast<int>(c.rng.below(N_LOG_STYLES));
  double grid;
  VD v = genLog(c.rng, n, style, grid);
  const string sname = LOG_STYLES[style];
  const string cls = sname + ":" + lenClass(n);
  const string in = "(" + vs(v) + ")";
  vrt::describe("logdomain:" + sname, "v=" + vs(v));
  vrt::cover("logdomain:" + sname + ":" + lenClass(n));
  const LD nn = static_cast<LD>(n);
  const VD none;
  LseRef ref = lseRef(v, none);
  const double M = static_cast<double>(ref.M);
  const bool finiteMax = std::isfinite(M);
  const LD logn = logl(nn);

  // ---- logSumExp / logMeanExp: value, bounds, finiteness
  double lse = VectorTools::logSumExp(v);
  double lme = VectorTools::logMeanExp(v);
  LD tolL = 8 * EPS * (fabsl(ref.M) + fabsl(ref.value) + logn) + 8 * (nn + 4) * EPS;
  if (finiteMax)
  {
    judge(lse, ref.value, tolL, "logdomain.lse-value", cls, "logSumExp" + in);
    judge(lme, ref.value - logn, tolL, "logdomain.lme-value", cls, "logMeanExp" + in);
    vrt::expect(std::isfinite(lse) && std::isfinite(lme), "logdomain.finite", cls, [&] { return "logSumExp/logMeanExp" + in + " => " + str(lse) + "/" + str(lme) + " but the maximum is finite"; });
    vrt::expect(lse >= M - static_cast<double>(tolL) && lse <= M + static_cast<double>(logn + tolL), "logdomain.lse-bounds", cls, [&] { return "logSumExp" + in + " => " + str(lse) + " outside [max, max+log n] = [" + str(M) + "," + ld(M + logn) + "]"; });
    double mn = *min_element(v.begin(), v.end());
    vrt::expect(lme <= M + static_cast<double>(tolL) && (lme >= mn - static_cast<double>(tolL)), "logdomain.lme-bounds", cls, [&] { return "logMeanExp" + in + " => " + str(lme) + " outside [min,max]"; });
  }
  else if (M == INF)
  {
    vrt::expect(lse == INF, "logdomain.lse-bounds", cls + ":max+inf", [&] { return "logSumExp" + in + " => " + str(lse) + " expected +inf"; });
    vrt::expect(lme == INF, "logdomain.lme-bounds", cls + ":max+inf", [&] { return "logMeanExp" + in + " => " + str(lme) + " expected +inf"; });
  }
  else
  {
    vrt::expect(lse == -INF, "logdomain.lse-logzero", cls, [&] { return "logSumExp" + in + " => " + str(lse) + " expected -inf (sum of log-zeros)"; });
    vrt::expect(lme == -INF, "logdomain.lse-logzero", cls + ":mean", [&] { return "logMeanExp" + in + " => " + str(lme) + " expected -inf"; });
  }
  // ---- sumExp against the long double sum (overflow -> +inf, underflow -> within DBL_MIN)
  {
    LD s = 0; for (auto x : v) s += expl(static_cast<LD>(x));
    double got = VectorTools::sumExp(v);
    const LD DMAX = numeric_limits<double>::max();
    LD rel = (4 * nn + 16) * EPS;
    bool ok;
    if (std::isinf(s) || s > DMAX * (1 + rel)) ok = got == INF;
    else if (s > DMAX * (1 - rel)) ok = got == INF || nearLD(got, s, rel * s);
    else ok = nearLD(got, s, rel * s + numeric_limits<double>::min());
    const string range = s > DMAX ? "overflow" : s < numeric_limits<double>::min() ? "underflow" : "inrange";
    vrt::cover("sumExp:" + range + ":" + lenClass(n));
    vrt::expect(ok, "logdomain.sumExp-value", cls + ":" + range, [&] { return "sumExp" + in + " => " + str(got) + " expected " + ld(s); });
  }
  // ---- shift equivariance (only shifts that are exact in double arithmetic are judged)
  if (finiteMax)
  {
    for (int rep = 0; rep < 3; ++rep)
    {
      double sh;
      if (rep == 0) sh = -M;
      else if (grid > 0) sh = static_cast<double>(c.rng.range(-(1 << 22), 1 << 22)) * grid * (style == 3 ? 4096.0 : 1.0);
      else sh = std::ldexp(1.0, static_cast<int>(c.rng.range(-2, 6)));
      VD y(n);
      bool exact = true;
      for (size_t i = 0; i < n; ++i) { y[i] = v[i] + sh; exact = exact && exactSum(v[i], sh, y[i]); }
      if (!exact) { vrt::counted("logdomain.shift-inexact-unjudged"); continue; }
      LseRef r2 = lseRef(y, none);
      LD tol = 2 * tolL + 8 * EPS * (fabsl(static_cast<LD>(sh)) + fabsl(r2.M) + fabsl(r2.value)) + 8 * (nn + 4) * EPS;
      double l2 = VectorTools::logSumExp(y), m2 = VectorTools::logMeanExp(y);
      const string sc = cls + (rep == 0 ? ":to-zero-max" : ":grid");
      vrt::expect(nearLD(l2, static_cast<LD>(lse) + sh, tol), "logdomain.shift", sc, [&] { return "logSumExp(v+" + str(sh) + ")=" + str(l2) + " but logSumExp(v)+shift=" + ld(static_cast<LD>(lse) + sh) + " v=" + vs(v); });
      vrt::expect(nearLD(m2, static_cast<LD>(lme) + sh, tol), "logdomain.shift", sc + ":mean", [&] { return "logMeanExp(v+" + str(sh) + ")=" + str(m2) + " but logMeanExp(v)+shift=" + ld(static_cast<LD>(lme) + sh) + " v=" + vs(v); });
      // sumExp(v + c) = exp(c) sumExp(v) where both are comfortably representable
      if (std::fabs(M) < 300 && std::fabs(M + sh) < 300)
      {
        double s1 = VectorTools::sumExp(v), s2 = VectorTools::sumExp(y);
        LD want = static_cast<LD>(s1) * expl(static_cast<LD>(sh));
        vrt::expect(nearLD(s2, want, (8 * nn + 32) * EPS * want), "logdomain.shift", sc + ":sumExp", [&] { return "sumExp(v+" + str(sh) + ")=" + str(s2) + " but exp(shift)*sumExp(v)=" + ld(want) + " v=" + vs(v); });
      }
    }
  }
  // ---- logNorm: afterwards the exponentials sum to one
  if (finiteMax)
  {
    VD z(v);
    VectorTools::logNorm(z);
    LD s = 0; for (auto x : z) s += expl(static_cast<LD>(x));
    LD tol = 16 * (nn + 4) * EPS + 16 * EPS * (fabsl(ref.M) + fabsl(ref.value));
    vrt::expect(fabsl(s - 1) <= tol, "logdomain.logNorm", cls, [&] { return "after logNorm" + in + " the exponentials sum to " + ld(s) + " (tolerance " + ld(tol) + ")"; });
  }
  // ---- weighted versions
  {
    string wname;
    VD w = genWeights(c.rng, n, wname);
    const string wcls = cls + ":" + wname;
    const string win = "(" + vs(v) + "," + vs(w) + ")";
    LD kappa;
    LseRef wr = lseRef(v, w, &kappa);
    double wl = 0, ws = 0;
    vrt::Outcome o1 = vrt::capture([&] { wl = VectorTools::logSumExp(v, w); });
    vrt::Outcome o2 = vrt::capture([&] { ws = VectorTools::sumExp(v, w); });
    if (finiteMax)
    {
      vrt::cover("logdomain:weighted:" + sname + ":" + wname);
      LD tol = 8 * EPS * (fabsl(wr.M) + fabsl(wr.value) + fabsl(wr.value - wr.M)) + 8 * (nn + 4) * EPS * kappa;
      if (wr.sumRel > 0)
        vrt::expect(o1.returned() && nearLD(wl, wr.value, tol) && std::isfinite(wl), "logdomain.wlse-value", wcls, [&] { return "logSumExp" + win + " " + (o1.returned() ? "=> " + str(wl) : o1.text()) + " expected " + ld(wr.value) + " +- " + ld(tol); });
      else vrt::counted("logdomain.wlse-zero-total-unjudged");
      if (wname == "wequal" && o1.returned())
        vrt::expect(nearLD(wl, lse, 2 * tolL), "logdomain.wlse-value", wcls + ":unit-weights", [&] { return "logSumExp(v,1)=" + str(wl) + " logSumExp(v)=" + str(lse) + " v=" + vs(v); });
      // sumExp(v,w): judged where exp(max) neither overflows nor underflows
      if (std::fabs(M) <= 600)
      {
        LD s = 0, sa = 0; for (size_t i = 0; i < n; ++i) { LD t = static_cast<LD>(w[i]) * expl(static_cast<LD>(v[i])); s += t; sa += fabsl(t); }
        vrt::expect(o2.returned() && nearLD(ws, s, (4 * nn + 16) * EPS * sa + numeric_limits<double>::min()), "logdomain.wsumExp-value", wcls, [&] { return "sumExp" + win + " " + (o2.returned() ? "=> " + str(ws) : o2.text()) + " expected " + ld(s); });
      }
      else vrt::counted("logdomain.wsumExp-outofrange-unjudged");
      // shift equivariance of the weighted log-sum
      double sh = grid > 0 ? static_cast<double>(c.rng.range(-(1 << 22), 1 << 22)) * grid * (style == 3 ? 4096.0 : 1.0) : 4.0;
      VD y(n); bool exact = true;
      for (size_t i = 0; i < n; ++i) { y[i] = v[i] + sh; exact = exact && exactSum(v[i], sh, y[i]); }
      if (exact && o1.returned())
      {
        double w2 = 0;
        vrt::Outcome o3 = vrt::capture([&] { w2 = VectorTools::logSumExp(y, w); });
        LD t2 = 2 * tol + 16 * EPS * (fabsl(static_cast<LD>(sh)) + fabsl(static_cast<LD>(M) + sh) + fabsl(static_cast<LD>(wl) + sh));
        vrt::expect(o3.returned() && nearLD(w2, static_cast<LD>(wl) + sh, t2), "logdomain.shift", wcls + ":weighted", [&] { return "logSumExp(v+" + str(sh) + ",w) " + (o3.returned() ? "=> " + str(w2) : o3.text()) + " but logSumExp(v,w)+shift=" + ld(static_cast<LD>(wl) + sh) + " v=" + vs(v) + " w=" + vs(w); });
      }
    }
    else
    {
      // infinite maximum: the mathematically expected value or a library exception are both accepted, never a foreign exception
      bool ok1 = o1.raisedBpp() || (o1.returned() && (wl == M || std::isnan(wl)));
      bool ok2 = o2.raisedBpp() || (o2.returned() && (ws == (M < 0 ? 0.0 : INF) || std::isnan(ws)));
      vrt::expect(ok1 && ok2, "logdomain.weighted-infinite-max", wcls, [&] { return "logSumExp" + win + " " + (o1.returned() ? "=> " + str(wl) : o1.text()) + "; sumExp " + (o2.returned() ? "=> " + str(ws) : o2.text()); });
    }
  }
}

// ---- pairwise log-sum
void caseLogsum(vrt::Case& c)
{
  static const double specials[] = { -INF, INF, 0.0, -0.0, 1.0, -1.0, 700.0, -700.0, 745.0, -745.0, 1e300, -1e300, 1e-300, 36.5, -36.5, 710.0 };
  const size_t NS = sizeof(specials) / sizeof(double);
  double a, b;
  string kind;
  if (c.index < NS * NS) { a = specials[c.index / NS]; b = specials[c.index % NS]; kind = "special"; }
  else
  {
    int k = static_cast<int>(c.rng.below(5));
    double g = std::ldexp(1.0, -10);
    if (k == 0) { a = onGrid(c.rng.real(-50, 50), g); b = a + onGrid(c.rng.real(-60, 60), g); kind = "close"; }
    else if (k == 1) { a = onGrid(c.rng.real(-1000, 1000), g); b = onGrid(c.rng.real(-1000, 1000), g); kind = "wide"; }
    else if (k == 2) { a = onGrid(c.rng.real(-50, 50), g); b = a; kind = "equal"; }
    else if (k == 3) { a = static_cast<double>(c.rng.range(-(1LL << 36), 1LL << 36)) * std::ldexp(1.0, 960); b = c.rng.chance(0.3) ? a : static_cast<double>(c.rng.range(-(1LL << 36), 1LL << 36)) * std::ldexp(1.0, 960); kind = "huge"; }
    else { a = c.rng.real(-30, 30); b = c.rng.real(-30, 30); kind = "free"; }
  }
  vrt::describe("logsum:" + kind, "logsum(" + str(a) + "," + str(b) + ")");
  const double M = max(a, b), m = min(a, b);
  const string cat = (a == -INF && b == -INF) ? "both-logzero" : (a == INF && b == INF) ? "both+inf" : (M == INF) ? "one+inf" : (m == -INF) ? "one-logzero" : kind;
  vrt::cover("logsum:" + cat + (a < b ? ":a<b" : a > b ? ":a>b" : ":a==b"));
  double r = NumTools::logsum(a, b), rs = NumTools::logsum(b, a);
  const string call = "logsum(" + str(a) + "," + str(b) + ")";
  if (cat == "both-logzero")
  {
    vrt::expect(r == -INF, "logdomain.logsum-logzero", cat, [&] { return call + " => " + str(r) + " expected -inf"; });
    return;
  }
  if (M == INF)
  {
    vrt::expect(r == INF && rs == INF, "logdomain.logsum-bounds", cat, [&] { return call + " => " + str(r) + " (swapped " + str(rs) + ") expected +inf"; });
    return;
  }
  if (m == -INF)
  {
    vrt::expect(r == M && rs == M, "logdomain.logsum-logzero", cat, [&] { return call + " => " + str(r) + " (swapped " + str(rs) + ") expected " + str(M); });
    return;
  }
  LD want = static_cast<LD>(M) + log1pl(expl(static_cast<LD>(m) - M));
  LD tol = 8 * EPS * (fabsl(static_cast<LD>(M)) + fabsl(want)) + 16 * EPS;
  judge(r, want, tol, "logdomain.logsum-value", cat, call);
  vrt::expect(std::isfinite(r), "logdomain.finite", "logsum:" + cat, [&] { return call + " => " + str(r); });
  vrt::expect(r >= M - static_cast<double>(tol) && r <= M + static_cast<double>(logl(2.0L) + tol), "logdomain.logsum-bounds", cat, [&] { return call + " => " + str(r) + " outside [max, max+log 2]"; });
  vrt::expect(nearLD(rs, r, tol), "logdomain.logsum-symmetry", cat, [&] { return call + " => " + str(r) + " swapped => " + str(rs); });
  // agreement with the vector reduction and shift equivariance (exact shifts only)
  double l2 = VectorTools::logSumExp(VD{ a, b });
  vrt::expect(nearLD(l2, r, 2 * tol + 64 * EPS), "logdomain.logsum-value", cat + ":vs-logSumExp", [&] { return call + " => " + str(r) + " but logSumExp{a,b} => " + str(l2); });
  double sh = kind == "huge" ? static_cast<double>(c.rng.range(-(1 << 20), 1 << 20)) * std::ldexp(1.0, 972) : static_cast<double>(c.rng.range(-(1 << 20), 1 << 20)) * std::ldexp(1.0, -10);
  double a2 = a + sh, b2 = b + sh;
  if (exactSum(a, sh, a2) && exactSum(b, sh, b2))
  {
    double r2 = NumTools::logsum(a2, b2);
    LD t2 = 2 * tol + 16 * EPS * (fabsl(static_cast<LD>(sh)) + fabsl(static_cast<LD>(r) + sh));
    vrt::expect(nearLD(r2, static_cast<LD>(r) + sh, t2), "logdomain.shift", "logsum:" + cat, [&] { return "logsum(a+" + str(sh) + ",b+" + str(sh) + ")=" + str(r2) + " but " + call + "+shift=" + ld(static_cast<LD>(r) + sh); });
  }
  else vrt::counted("logdomain.shift-inexact-unjudged");
}

// ==================================================================== group: fdr
void caseFdr(vrt::Case& c)
{
  size_t n = drawLen(c.rng);
  int style = static_cast<int>(c.rng.below(5));
  const string sname = style == 0 ? "distinct" : style == 1 ? "ties" : style == 2 ? "sorted" : style == 3 ? "descending" : "small";
  VD p(n);
  VD pool;
  for (int i = 0; i < 4; ++i) pool.push_back(c.rng.unit());
  pool.push_back(0.0); pool.push_back(1.0);
  for (size_t i = 0; i < n; ++i) p[i] = style == 1 ? c.rng.pick(pool) : style == 4 ? c.rng.logReal(1e-12, 1e-2) : c.rng.unit();
  if (style == 2) sort(p.begin(), p.end());
  if (style == 3) { sort(p.begin(), p.end()); reverse(p.begin(), p.end()); }
  vrt::describe("fdr:" + sname, "p=" + vs(p));
  vrt::cover("fdr:" + sname + ":" + lenClass(n));
  VD f = StatTools::computeFdr(p);
  bool ok = f.size() == n;
  size_t bad = 0; string why;
  VD srt(p); sort(srt.begin(), srt.end());
  bool ties = false;
  for (size_t i = 0; ok && i < n; ++i)
  {
    // admissible ranks (1-based, ascending) of p[i]
    size_t lo = static_cast<size_t>(lower_bound(srt.begin(), srt.end(), p[i]) - srt.begin()) + 1;
    size_t hi = static_cast<size_t>(upper_bound(srt.begin(), srt.end(), p[i]) - srt.begin());
    if (hi > lo) ties = true;
    bool hit = false;
    for (size_t rk = lo; rk <= hi && !hit; ++rk)
    {
      LD want = static_cast<LD>(p[i]) * n / rk;
      hit = nearLD(f[i], want, 8 * EPS * want);
    }
    if (!hit) { ok = false; bad = i; why = "p=" + str(p[i]) + " rank " + str(lo) + (hi > lo ? ".." + str(hi) : "") + " of " + str(n) + " expected " + ld(static_cast<LD>(p[i]) * n / lo) + " got " + str(f[i]); }
  }
  vrt::expect(ok, "fdr.value", ties ? "tied-pvalues" : "distinct-pvalues", [&] { return "computeFdr(" + vs(p) + ") => " + vs(f) + " first bad index " + str(bad) + ": " + why; });
}

// ==================================================================== group: edge (exhaustive table: function x shape)
struct EdgeCtx
{
  VD a, b, w;
  VI ia, ib, iw;
  size_t n1, n2, n3;
};
enum Expect
{
  ANY,        // nothing documented: any value, any exception, never an abort
  DIM12,      // documented DimensionException when the two data vectors differ in length
  DIM123,     // documented DimensionException when any of the three lengths differ
  DIM13,      // documented DimensionException when data and weights differ in length
  EMPTY1,     // documented EmptyVectorException on an empty vector
  ZERO_OR_EXC // empty input: the empty sum (0) or a library exception
};
struct Probe
{
  const char* name;
  int arity;
  Expect exp;
  function<double(EdgeCtx&)> call; // returns a representative value (for ZERO_OR_EXC)
};

#define PV(expr) [](EdgeCtx& x) -> double { (void)x; expr; return 0; }
#define PR(expr) [](EdgeCtx& x) -> double { (void)x; return static_cast<double>(expr); }

const vector<Probe>& probes()
{
  static const vector<Probe> P = {
    // ---- one vector
    { "min", 1, EMPTY1, PR(VectorTools::min(x.a)) },
    { "max", 1, EMPTY1, PR(VectorTools::max(x.a)) },
    { "whichMin", 1, EMPTY1, PR(VectorTools::whichMin(x.a)) },
    { "whichMax", 1, EMPTY1, PR(VectorTools::whichMax(x.a)) },
    { "whichMinAll", 1, EMPTY1, PV(VectorTools::whichMinAll(x.a)) },
    { "whichMaxAll", 1, EMPTY1, PV(VectorTools::whichMaxAll(x.a)) },
    { "range", 1, EMPTY1, PV(VectorTools::range(x.a)) },
    { "order", 1, EMPTY1, PV(VectorTools::order(x.a)) },
    { "min<int>", 1, EMPTY1, PR(VectorTools::min(x.ia)) },
    { "max<int>", 1, EMPTY1, PR(VectorTools::max(x.ia)) },
    { "whichMin<int>", 1, EMPTY1, PR(VectorTools::whichMin(x.ia)) },
    { "whichMax<int>", 1, EMPTY1, PR(VectorTools::whichMax(x.ia)) },
    { "whichMinAll<int>", 1, EMPTY1, PV(VectorTools::whichMinAll(x.ia)) },
    { "whichMaxAll<int>", 1, EMPTY1, PV(VectorTools::whichMaxAll(x.ia)) },
    { "range<int>", 1, EMPTY1, PV(VectorTools::range(x.ia)) },
    { "order<int>", 1, EMPTY1, PV(VectorTools::order(x.ia)) },
    { "sum", 1, ZERO_OR_EXC, PR(VectorTools::sum(x.a)) },
    { "sum<int>", 1, ZERO_OR_EXC, PR(VectorTools::sum(x.ia)) },
    { "sumExp", 1, ZERO_OR_EXC, PR(VectorTools::sumExp(x.a)) },
    { "norm", 1, ZERO_OR_EXC, PR((VectorTools::norm<double, double>(x.a))) },
    { "shannon", 1, ZERO_OR_EXC, PR((VectorTools::shannon<double, double>(x.a))) },
    { "shannonDiscrete", 1, ZERO_OR_EXC, PR((VectorTools::shannonDiscrete<int, double>(x.ia))) },
    { "prod", 1, ANY, PR(VectorTools::prod(x.a)) },
    { "cumSum", 1, ANY, PV(VectorTools::cumSum(x.a)) },
    { "cumProd", 1, ANY, PV(VectorTools::cumProd(x.a)) },
    { "mean", 1, ANY, PR((VectorTools::mean<double, double>(x.a))) },
    { "mean<int,double>", 1, ANY, PR((VectorTools::mean<int, double>(x.ia))) },
    { "median", 1, ANY, PR(VectorTools::median(x.a)) },
    { "median<int>", 1, ANY, PR(VectorTools::median(x.ia)) },
    { "center", 1, ANY, PV((VectorTools::center<double, double>(x.a))) },
    { "var", 1, ANY, PR((VectorTools::var<double, double>(x.a))) },
    { "var-biased", 1, ANY, PR((VectorTools::var<double, double>(x.a, false))) },
    { "sd", 1, ANY, PR((VectorTools::sd<double, double>(x.a))) },
    { "logSumExp", 1, ANY, PR(VectorTools::logSumExp(x.a)) },
    { "logMeanExp", 1, ANY, PR(VectorTools::logMeanExp(x.a)) },
    { "logNorm", 1, ANY, PV(VectorTools::logNorm(x.a)) },
    { "unique", 1, ANY, PV(VectorTools::unique(x.a)) },
    { "isUnique", 1, ANY, PR(VectorTools::isUnique(x.a)) },
    { "countValues", 1, ANY, PV(VectorTools::countValues(x.ia)) },
    { "rep3", 1, ANY, PV(VectorTools::rep(x.a, 3)) },
    { "abs", 1, ANY, PV(VectorTools::abs(x.a)) },
    { "computeFdr", 1, ANY, PV(StatTools::computeFdr(x.a)) },
    { "breaks", 1, ANY, PV(VectorTools::breaks(x.a, 3)) },
    { "which-absent", 1, ANY, PR(VectorTools::which(x.a, -7.0)) },
    { "whichAll-absent", 1, ANY, PV(VectorTools::whichAll(x.a, -7.0)) },
    { "paste", 1, ANY, PV(VectorTools::paste(x.a)) },
    { "extract-nothing", 1, ANY, PV(VectorTools::extract(x.a, vector<size_t>())) },
    { "vectorUnion-list0", 1, ANY, PV(VectorTools::vectorUnion(vector<VD>())) },
    { "vectorIntersection-list0", 1, ANY, PV(VectorTools::vectorIntersection(vector<VD>())) },
    { "append-list0", 1, ANY, PV(VectorTools::append(vector<VD>())) },
    // ---- two vectors
    { "v+v", 2, ANY, PV(x.a + x.b) },
    { "v-v", 2, ANY, PV(x.a - x.b) },
    { "v*v", 2, ANY, PV(x.a * x.b) },
    { "v/v", 2, ANY, PV(x.a / x.b) },
    { "v+v<int>", 2, ANY, PV(x.ia + x.ib) },
    { "v/v<int>", 2, ANY, PV(x.ia / x.ib) },
    { "v+=v", 2, ANY, PV(x.a += x.b) },
    { "v-=v", 2, ANY, PV(x.a -= x.b) },
    { "v*=v", 2, ANY, PV(x.a *= x.b) },
    { "v/=v", 2, ANY, PV(x.a /= x.b) },
    { "v+=v<int>", 2, ANY, PV(x.ia += x.ib) },
    { "v/=v<int>", 2, ANY, PV(x.ia /= x.ib) },
    { "sumProd", 2, ZERO_OR_EXC, PR(VectorTools::sumProd(x.a, x.b)) },
    { "sumProd<int>", 2, ZERO_OR_EXC, PR(VectorTools::sumProd(x.ia, x.ib)) },
    { "logSumExp-weighted", 2, ANY, PR(VectorTools::logSumExp(x.a, x.b)) },
    { "sumExp-weighted", 2, ANY, PR(VectorTools::sumExp(x.a, x.b)) },
    { "mean-weighted", 2, ANY, PR((VectorTools::mean<double, double>(x.a, x.b))) },
    { "mean-weighted-raw", 2, ANY, PR((VectorTools::mean<double, double>(x.a, x.b, false))) },
    { "center-weighted", 2, ANY, PV((VectorTools::center<double, double>(x.a, x.b))) },
    { "kroneckerMult", 2, ANY, PV(VectorTools::kroneckerMult(x.a, x.b)) },
    { "vectorUnion", 2, ANY, PV(VectorTools::vectorUnion(x.a, x.b)) },
    { "vectorIntersection", 2, ANY, PV(VectorTools::vectorIntersection(x.a, x.b)) },
    { "containsAll", 2, ANY, PR(VectorTools::containsAll(x.a, x.b)) },
    { "containsAll<int>", 2, ANY, PR(VectorTools::containsAll(x.ia, x.ib)) },
    { "diff", 2, ANY, [](EdgeCtx& x) -> double { VD d; VectorTools::diff(x.a, x.b, d); return 0; } },
    { "diff<int>", 2, ANY, [](EdgeCtx& x) -> double { VI d; VectorTools::diff(x.ia, x.ib, d); return 0; } },
    { "haveSameElements", 2, ANY, PR(VectorTools::haveSameElements(x.a, x.b)) },
    { "extend", 2, ANY, PV(VectorTools::extend(x.a, x.b)) },
    { "scalar", 2, DIM12, PR((VectorTools::scalar<double, double>(x.a, x.b))) },
    { "scalar<int,int>", 2, DIM12, PR((VectorTools::scalar<int, int>(x.ia, x.ib))) },
    { "cos", 2, DIM12, PR((VectorTools::cos<double, double>(x.a, x.b))) },
    { "cov", 2, DIM12, PR((VectorTools::cov<double, double>(x.a, x.b))) },
    { "cov-biased", 2, DIM12, PR((VectorTools::cov<double, double>(x.a, x.b, false))) },
    { "cor", 2, DIM12, PR((VectorTools::cor<double, double>(x.a, x.b))) },
    { "miDiscrete", 2, DIM12, PR((VectorTools::miDiscrete<int, double>(x.ia, x.ib))) },
    { "miContinuous-mismatch", 2, DIM12, [](EdgeCtx& x) -> double { if (x.n1 == x.n2) return 0; return VectorTools::miContinuous<double, double>(x.a, x.b); } },
    { "norm-weighted", 2, DIM12, PR((VectorTools::norm<double, double>(x.a, x.b))) },
    { "var-weighted", 2, DIM12, PR((VectorTools::var<double, double>(x.a, x.b))) },
    { "var-weighted-raw", 2, DIM12, PR((VectorTools::var<double, double>(x.a, x.b, false, false))) },
    { "sd-weighted", 2, DIM12, PR((VectorTools::sd<double, double>(x.a, x.b))) },
    // ---- two vectors and weights
    { "scalar-weighted", 3, DIM123, PR((VectorTools::scalar<double, double>(x.a, x.b, x.w))) },
    { "cos-weighted", 3, DIM12, PR((VectorTools::cos<double, double>(x.a, x.b, x.w))) },
    { "cov-weighted", 3, DIM12, PR((VectorTools::cov<double, double>(x.a, x.b, x.w))) },
    { "cov-weighted-raw", 3, DIM12, PR((VectorTools::cov<double, double>(x.a, x.b, x.w, false, false))) },
    { "cor-weighted", 3, DIM12, PR((VectorTools::cor<double, double>(x.a, x.b, x.w))) },
    { "cor-weighted-raw", 3, DIM12, PR((VectorTools::cor<double, double>(x.a, x.b, x.w, false))) },
  };
  return P;
}
struct Shape { size_t n1, n2, n3; };
const vector<Shape>& shapes(int arity)
{
  static const vector<Shape> S1 = { { 0, 0, 0 }, { 1, 0, 0 } };
  static const vector<Shape> S2 = { { 0, 0, 0 }, { 0, 1, 0 }, { 1, 0, 0 }, { 0, 5, 0 }, { 5, 0, 0 }, { 3, 5, 0 }, { 5, 3, 0 }, { 1, 2, 0 }, { 2, 1, 0 }, { 64, 63, 0 }, { 63, 64, 0 }, { 1, 1, 0 } };
  static const vector<Shape> S3 = { { 0, 0, 0 }, { 0, 0, 3 }, { 3, 3, 0 }, { 3, 0, 3 }, { 0, 3, 3 }, { 3, 3, 5 }, { 3, 3, 2 }, { 3, 5, 3 }, { 5, 3, 3 }, { 3, 5, 5 }, { 5, 3, 5 }, { 5, 3, 4 }, { 1, 1, 1 } };
  return arity == 1 ? S1 : arity == 2 ? S2 : S3;
}
struct EdgeCase { size_t probe, shape; };
const vector<EdgeCase>& edgeTable()
{
  static vector<EdgeCase> T;
  if (T.empty())
    for (size_t p = 0; p < probes().size(); ++p)
      for (size_t s = 0; s < shapes(probes()[p].arity).size(); ++s) T.push_back(EdgeCase{ p, s });
  return T;
}

void caseEdge(vrt::Case& c)
{
  const EdgeCase& ec = edgeTable()[c.index % edgeTable().size()];
  const Probe& p = probes()[ec.probe];
  const Shape& s = shapes(p.arity)[ec.shape];
  EdgeCtx x;
  x.n1 = s.n1; x.n2 = p.arity >= 2 ? s.n2 : 0; x.n3 = p.arity >= 3 ? s.n3 : 0;
  auto fillD = [&](VD& v, size_t n) { v.resize(n); for (auto& e : v) e = c.rng.real(0.5, 2); };
  auto fillI = [&](VI& v, size_t n) { v.resize(n); for (auto& e : v) e = static_cast<int>(c.rng.range(1, 5)); };
  fillD(x.a, x.n1); fillD(x.b, x.n2); fillD(x.w, x.n3);
  fillI(x.ia, x.n1); fillI(x.ib, x.n2); fillI(x.iw, x.n3);
  string shape = str(s.n1);
  if (p.arity >= 2) shape += "," + str(s.n2);
  if (p.arity >= 3) shape += "," + str(s.n3);
  const string cls = string(p.name) + ":" + shape;
  vrt::describe("edge:" + string(p.name), string(p.name) + " on lengths " + shape + " a=" + vs(x.a) + " b=" + vs(x.b) + " w=" + vs(x.w));
  vrt::cover("edge:" + cls);
  double val = 0;
  vrt::Outcome o = vrt::capture([&] { val = p.call(x); });
  auto text = [&] { return string(p.name) + " on lengths " + shape + " " + (o.returned() ? "returned " + str(val) : o.text()); };
  const bool mismatch12 = x.n1 != x.n2;
  switch (p.exp)
  {
  case EMPTY1:
    if (x.n1 == 0) vrt::expect(isEmptyExc(o), "edge.documented-empty", cls, text);
    else vrt::expect(o.returned(), "edge.documented-empty", cls, text);
    break;
  case DIM12:
    if (mismatch12) vrt::expect(isDim(o), "edge.documented-dimension", cls, text);
    else vrt::counted("edge.no-abort");
    break;
  case DIM123:
    if (mismatch12 || x.n2 != x.n3) vrt::expect(isDim(o), "edge.documented-dimension", cls, text);
    else vrt::counted("edge.no-abort");
    break;
  case DIM13:
    if (x.n1 != x.n3) vrt::expect(isDim(o), "edge.documented-dimension", cls, text);
    else vrt::counted("edge.no-abort");
    break;
  case ZERO_OR_EXC:
    if (x.n1 == 0 && x.n2 == 0) vrt::expect(o.raisedBpp() || (o.returned() && val == 0), "edge.empty-value", cls, text);
    else vrt::counted("edge.no-abort");
    break;
  default:
    vrt::counted("edge.no-abort");
  }
}
} // namespace

int main(int argc, char** argv)
{
  const size_t nEdge = edgeTable().size();
  const size_t nSpecial = 16 * 16;
  vector<vrt::Group> groups = {
    { "edge", nEdge, nEdge, caseEdge, 300, true },
    { "elementwise", 8000, 150000, caseElementwise, 300, false },
    { "mixedscalar", 8000, 150000, caseMixedScalar, 300, false },
    { "reductions", 24000, 400000, caseReductions, 300, false },
    { "moments", 20000, 300000, caseMoments, 300, false },
    { "entropy", 12000, 200000, caseEntropy, 300, false },
    { "setlike", 24000, 400000, caseSetlike, 300, false },
    { "seqrep", 8000, 150000, caseSeqRep, 300, false },
    { "logdomain", 32000, 500000, caseLogDomain, 300, false },
    { "logsum", nSpecial + 10000, nSpecial + 200000, caseLogsum, 300, false },
    { "fdr", 8000, 150000, caseFdr, 300, false },
  };
  vrt::Meta meta;
  meta.rule = "edge: exhaustive table (function x length shape) over every VectorTools/StatTools function with empty, length-one and mismatched operands; "
      "other groups: one case = one random vector (pair, triple) of length 0..64 (0,1,2,3,63,64 over-represented) drawn in a named style "
      "(int: uniform/ties/constant/ascending/descending/wide/nonneg; real: uniform/ties/constant/log-magnitudes/large-offset/integral/ascending/positive; "
      "log space: moderate/naive-overflow/naive-underflow/huge(1e299)/with -inf/all -inf/with +inf/tied maximum/wide/free) on which every function of the family is evaluated "
      "and compared with an exact-integer or long-double reference. A class key = (family, element type, length class, style, relation between the operands "
      "[set relation, duplicates, dependence, weight kind], direction/termination for seq, over/underflow range for sumExp); all keys involve a real evaluation. "
      "mixedscalar: one vector and one scalar of a different arithmetic type (13 element x scalar type pairs), key = (type pair, scalar class "
      "[integral / dyadic fraction below one / above one / decimal / integer type], length class).";
  meta.assumptions = {
    "tolerances: C*n*eps*sum|terms| with C>=4 (second moments: first-order bound including the error of the means, x4); functions of one element 4 ulp",
    "integer products are generated so that they fit in int (signed overflow is outside the statement)",
    "mixed-type vector/scalar operators (element type != scalar type; int/uint/long/ulong/float/double elements, int/long/float/double scalars): "
    "* and / in every form (v op c, c op v, v op= c) give the value of v[i] op c in the common arithmetic type stored as an element, and the forms agree; "
    "+ and -: that value where the scalar is representable in the element type, otherwise either that value or the one obtained by converting the scalar first "
    "(the library's v+c and v+=c differ there by design); operations whose value does not fit the element type are not executed",
    "documented exception => that exception is required; no documented exception => any value or exception accepted, an abort/sanitizer report is a violation",
    "empty sums (sum, sumProd, sumExp, norm, shannon) must be 0 or a library exception",
    "median of an even number of integers: any value between the two middle elements; vectorUnion: set equality, duplicate-free when the inputs are; "
    "weighted unbiased covariance: only equal-weights agreement with the n-1 estimate and a data-independent factor >= 1 are required; nclassScott accepts both sigma estimates",
    "shift equivariance is judged only for shifts that are exact in double arithmetic (error-free addition test); weighted sumExp only where exp(max) is representable",
    "weighted log-domain functions with an infinite maximum: the limit value or a bpp exception; kroneckerMult of different lengths (documented exception contradicts the definition) not judged",
    "seq: step > 0; real sequences end k+f steps away with f = 0 or f in [0.1,0.9]",
    "continuous entropy: only H(a x + b) = H(x) + log a for powers of two a on well-spread samples, and the documented exception of miContinuous",
  };
  meta.requiredClauses = { "elementwise.binary", "elementwise.scalar", "elementwise.compound", "elementwise.mixed-scalar", "elementwise.mixed-compound", "elementwise.mixed-forms", "elementwise.mixed-sum", "reductions.sum", "reductions.prod", "reductions.cumSum", "reductions.minmax",
                           "reductions.whichMinMax", "reductions.order", "reductions.median", "reductions.mean", "reductions.wmean", "moments.var", "moments.cov", "moments.cor",
                           "moments.wcov", "entropy.shannon", "entropy.shannonDiscrete", "entropy.miDiscrete", "setlike.unique", "setlike.union", "setlike.intersection",
                           "setlike.diff", "setlike.containsAll", "setlike.count", "seqrep.seq", "seqrep.rep", "logdomain.lse-value", "logdomain.lse-bounds", "logdomain.shift",
                           "logdomain.finite", "logdomain.sumExp-value", "logdomain.wlse-value", "logdomain.logsum-value", "logdomain.logsum-logzero", "fdr.value",
                           "edge.documented-empty", "edge.documented-dimension", "edge.no-abort" };
  return vrt::run(argc, argv, "C07", groups, meta);
}
