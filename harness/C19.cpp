// C19 - Simplex parametrisations always yield a probability vector and invert exactly.
// Oracles: (a) invariants on every observed state (non-negative, finite, sums to one, parameters inside
// their constraints, OrderedSimplex values non-increasing); (b) a long double reference implementation of
// the three documented codings (written independently from the header formulae) for the forward map
// theta -> p and the inverse map p -> theta; (c) round trips p -> theta -> p and theta -> p -> theta' under
// tolerances derived from a first order error analysis of the codings (see notes/C19.md), computed per
// entry from the input itself; (d) differential checks: perturbed parameter => different output,
// fresh object with the same parameters => same output, copy mutated => source untouched.
#include "vrt.h"

#include <Bpp/Numeric/Prob/Simplex.h>
#include <Bpp/Numeric/Parameter.h>
#include <Bpp/Numeric/ParameterList.h>
#include <Bpp/Numeric/Constraints.h>

#include <algorithm>
#include <cfloat>
#include <cmath>
#include <memory>

using namespace bpp;
using namespace std;
using vrt::str;

namespace
{
typedef long double LD;
const double U = 1.1102230246251565e-16; // unit roundoff 2^-53
const double KTOL = 8.0;                  // safety factor on the first order error bounds
const double ABSFLOOR = 1e-290;           // results below this are in or next to the denormal range: not judged relatively

// ------------------------------------------------------------------ configuration of a case
struct Cfg
{
  unsigned short method;
  size_t dim;
  bool allowNull;
  string name;  // namespace given to the constructor
  string key() const { return "m" + str(method) + ":" + dimClass() + (allowNull ? ":closed" : ":open"); }
  string dimClass() const
  {
    // position of the dimension relative to the powers of two (drives the index arithmetic of the binary coding)
    if (dim == 1) return "n1";
    size_t p2 = 1;
    while (p2 < dim) p2 <<= 1; // smallest power of two >= dim
    if (p2 == dim) return "n=2^k";
    if (dim == p2 / 2 + 1) return "n=2^k+1";
    if (dim + 1 == p2) return "n=2^k-1";
    return "n-other";
  }
  // witness class prefix: the method (and, for the binary coding, the relation of the dimension to the powers of two)
  string sig() const { return method == 3 ? "m3:" + dimClass() : "m" + str(method); }
  string text() const { return "method " + str(method) + " dim " + str(dim) + (allowNull ? " allowNull" : "") + " name '" + name + "'"; }
};

const size_t DIMS[] = { 1, 2, 3, 4, 5, 6, 7, 8, 9, 10, 11, 12, 13, 14, 15, 16, 17, 31, 32, 33 };
const size_t NDIMS = sizeof(DIMS) / sizeof(DIMS[0]);
const size_t NCOMBO = 3 * NDIMS * 2;

// index -> (method, dimension, constraint): the first NCOMBO indices of every block enumerate all combinations of the
// listed dimensions; every fourth block replaces the dimension by a random one in 18..30
Cfg cfgFor(vrt::Case& c, vrt::u64 index)
{
  Cfg g;
  size_t combo = static_cast<size_t>(index % NCOMBO);
  size_t block = static_cast<size_t>(index / NCOMBO);
  g.method = static_cast<unsigned short>(1 + combo % 3);
  g.dim = DIMS[(combo / 3) % NDIMS];
  g.allowNull = (combo / (3 * NDIMS)) % 2 == 1;
  if (block % 4 == 3) g.dim = static_cast<size_t>(c.rng.range(18, 30));
  static const char* names[] = { "Simplex.", "", "A.", "hmm.1.Simplex.", "x_" };
  g.name = names[c.rng.below(5)];
  return g;
}

string th(size_t i) { return "theta" + str(i); }

// ------------------------------------------------------------------ reference (long double), written from the header formulae
// forward map; theta[k] is theta_(k+1)
vector<LD> refForward(unsigned short method, size_t n, const vector<double>& theta)
{
  vector<LD> p(n, 0);
  if (n == 1) { p[0] = 1; return p; }
  if (method == 1)
  {
    LD x = 1;
    for (size_t i = 0; i + 1 < n; ++i) { p[i] = x * static_cast<LD>(theta[i]); x *= (1 - static_cast<LD>(theta[i])); }
    p[n - 1] = x;
  }
  else if (method == 2)
  {
    // weights w_i = prod_{k<i} (1-theta_k)/theta_k, computed relative to the largest one so that nothing overflows
    vector<LD> lw(n, 0);
    for (size_t i = 0; i + 1 < n; ++i) lw[i + 1] = lw[i] + log1pl(-static_cast<LD>(theta[i])) - logl(static_cast<LD>(theta[i]));
    size_t M = static_cast<size_t>(max_element(lw.begin(), lw.end()) - lw.begin());
    vector<LD> w(n, 0);
    w[M] = 1;
    for (size_t i = M; i + 1 < n; ++i) w[i + 1] = w[i] * ((1 - static_cast<LD>(theta[i])) / static_cast<LD>(theta[i]));
    for (size_t i = M; i > 0; --i) w[i - 1] = w[i] * (static_cast<LD>(theta[i - 1]) / (1 - static_cast<LD>(theta[i - 1])));
    LD s = 0;
    for (size_t i = 0; i < n; ++i) s += w[i];
    for (size_t i = 0; i < n; ++i) p[i] = w[i] / s;
  }
  else
  {
    // binary tree on the bits of the index t, least significant bit first: at level l the node "lower l-1 bits of t" splits
    // into the children (0,low) and (1,low); theta_{low + 2^(l-1)} is the conditional probability of the child 1;
    // when low + 2^(l-1) >= n the child 1 holds no index and the factor is 1
    for (size_t t = 0; t < n; ++t)
    {
      LD x = 1;
      for (size_t half = 1; half < n; half <<= 1)
      {
        size_t low = t & (half - 1);
        size_t one = low + half;
        if (one >= n) continue;
        LD q = static_cast<LD>(theta[one - 1]);
        x *= (t & half) ? q : (1 - q);
      }
      p[t] = x;
    }
  }
  return p;
}

// inverse map, per the header formulae
vector<LD> refInverse(unsigned short method, const vector<double>& p)
{
  size_t n = p.size();
  vector<LD> theta(n > 0 ? n - 1 : 0, 0);
  if (method == 1)
  {
    LD y = 1;
    for (size_t i = 0; i + 1 < n; ++i) { theta[i] = static_cast<LD>(p[i]) / y; y -= static_cast<LD>(p[i]); }
  }
  else if (method == 2)
  {
    for (size_t i = 0; i + 1 < n; ++i) theta[i] = static_cast<LD>(p[i]) / (static_cast<LD>(p[i]) + static_cast<LD>(p[i + 1]));
  }
  else
  {
    for (size_t i = 1; i < n; ++i)
    {
      size_t half = 1;
      while (half * 2 <= i) half <<= 1; // strongest bit of i
      size_t low = i - half;
      LD s1 = 0, s0 = 0;
      for (size_t t = 0; t < n; ++t)
      {
        if ((t & (half - 1)) != low) continue;
        if (t & half) s1 += static_cast<LD>(p[t]);
        else s0 += static_cast<LD>(p[t]);
      }
      theta[i - 1] = s1 / (s0 + s1);
    }
  }
  return theta;
}

// ordered variant: v_i = sum_{j>=i} p_j / j  and back  p_i = i (v_i - v_{i+1}), p_n = n v_n
vector<LD> refValues(const vector<LD>& p)
{
  size_t n = p.size();
  vector<LD> v(n, 0);
  LD x = 0;
  for (size_t i = n; i > 0; --i) { x += p[i - 1] / static_cast<LD>(i); v[i - 1] = x; }
  return v;
}
vector<LD> refProbFromValues(const vector<double>& v)
{
  size_t n = v.size();
  vector<LD> p(n, 0);
  for (size_t i = 0; i + 1 < n; ++i) p[i] = static_cast<LD>(i + 1) * (static_cast<LD>(v[i]) - static_cast<LD>(v[i + 1]));
  p[n - 1] = static_cast<LD>(n) * static_cast<LD>(v[n - 1]);
  return p;
}

LD sumLD(const vector<double>& v) { LD s = 0; for (double x : v) s += static_cast<LD>(x); return s; }
vector<double> toD(const vector<LD>& v) { vector<double> r(v.size()); for (size_t i = 0; i < v.size(); ++i) r[i] = static_cast<double>(v[i]); return r; }

// ------------------------------------------------------------------ tolerances (first order error analysis, notes/C19.md)
// Relative tolerance per entry for the round trip p -> theta (double) -> p' (double) of the library's algorithms.
// sigma = |1 - sum p| of the input (the output always sums to one, so the input's own defect must be allowed for).
// Returns rel[i]; absLast is an additional absolute allowance (method 1: the last entry absorbs 1 - sum p and the
// accumulated rounding of the running remainder).
struct RtTol { vector<double> rel; vector<double> abs; };
RtTol roundTripTol(unsigned short method, const vector<double>& p)
{
  size_t n = p.size();
  RtTol t;
  t.rel.assign(n, 0);
  t.abs.assign(n, 0);
  LD sigma = fabsl(1 - sumLD(p));
  if (method == 1)
  {
    // p'_i = p_i prod_{j<i}(1+eta_j), |eta_j| <= 3u y_j/y_{j+1}  (y_j = 1 - sum_{k<j} p_k), the errors of the running
    // remainder cancel (telescoping) except in the last entry: p'_n = y_n + e_n, |e_n| <= n u
    LD y = 1, c = 0;
    for (size_t i = 0; i < n; ++i)
    {
      t.rel[i] = static_cast<double>(KTOL * U * (static_cast<LD>(i + 1) + c));
      LD ynext = y - static_cast<LD>(p[i]);
      if (i + 1 < n) c += y / ynext;
      y = ynext;
    }
    t.abs[n - 1] = static_cast<double>(sigma + KTOL * U * static_cast<LD>(n));
  }
  else if (method == 2)
  {
    // alpha_j = (1-theta_j)/theta_j carries the relative error 2u p_j/p_{j+1} + 4u; w_i = prod_{j<i} alpha_j => E_i = sum_{j<i};
    // p'_i = w_i / sum w => E_i + sum_k p_k E_k + n u; normalisation hides the input's sigma (relative)
    vector<LD> E(n, 0);
    for (size_t i = 0; i + 1 < n; ++i) E[i + 1] = E[i] + static_cast<LD>(p[i]) / static_cast<LD>(p[i + 1]) + 2;
    LD mean = 0;
    for (size_t i = 0; i < n; ++i) mean += static_cast<LD>(p[i]) * E[i];
    for (size_t i = 0; i < n; ++i) t.rel[i] = static_cast<double>(KTOL * U * (E[i] + mean + static_cast<LD>(2 * n)) + 2 * sigma);
  }
  else
  {
    // theta_i = s1/(s0+s1), sums of at most n positive terms: relative error rho = (n+2)u; a factor theta keeps rho,
    // a factor (1-theta) has rho*s1/s0 + u; p'_t = product over the levels; the product sums to one => sigma (relative)
    vector<LD> th = refInverse(3, p);
    for (size_t tt = 0; tt < n; ++tt)
    {
      LD e = 0;
      for (size_t half = 1; half < n; half <<= 1)
      {
        size_t low = tt & (half - 1), one = low + half;
        if (one >= n) continue;
        LD q = th[one - 1];
        LD rho = static_cast<LD>(n + 2);
        e += (tt & half) ? rho + 1 : rho * q / (1 - q) + 2;
      }
      t.rel[tt] = static_cast<double>(KTOL * U * (e + 1) + 2 * sigma);
    }
  }
  return t;
}

// relative tolerance for the library's theta against the exact inverse of the same input
vector<double> inverseTol(unsigned short method, const vector<double>& p)
{
  size_t n = p.size();
  vector<double> r(n > 0 ? n - 1 : 0, 0);
  if (method == 1)
  {
    LD y = 1;
    for (size_t i = 0; i + 1 < n; ++i)
    {
      // running remainder: absolute error <= i u / 2
      r[i] = static_cast<double>(KTOL * U * (1 + static_cast<LD>(i + 1) / y));
      y -= static_cast<LD>(p[i]);
    }
  }
  else if (method == 2)
    for (size_t i = 0; i + 1 < n; ++i) r[i] = KTOL * U * 2;
  else
    for (size_t i = 0; i + 1 < n; ++i) r[i] = KTOL * U * static_cast<double>(n + 2);
  return r;
}

// relative tolerance of the forward evaluation theta (exact doubles) -> p: a few roundings per factor
double forwardTol(size_t n) { return 2 * KTOL * U * static_cast<double>(n + 2); }

// absolute allowance of the forward evaluation: results next to the denormal range carry no relative accuracy.  For the
// local ratio coding a running product that has underflowed (absolute error up to the denormal spacing 4.9e-324, relative to
// the largest weight) may be multiplied by later factors (1-theta)/theta > 1: the error grows by
// G_j = max_{i<j} prod_{k=i..j-1} alpha_k, the true entry is then still tiny but possibly representable.
vector<double> forwardAbsTol(unsigned short method, size_t n, const vector<double>& theta)
{
  vector<double> a(n, ABSFLOOR);
  if (method != 2) return a;
  LD logG = 0;
  for (size_t j = 1; j < n; ++j)
  {
    LD q = static_cast<LD>(theta[j - 1]);
    logG = (log1pl(-q) - logl(q)) + (logG > 0 ? logG : 0);
    if (logG > 0)
    {
      LD extra = logG > 745 ? 1.0L : 1e-322L * expl(logG);
      a[j] = static_cast<double>(static_cast<LD>(ABSFLOOR) + (extra > 1 ? 1.0L : extra));
    }
  }
  return a;
}

bool relClose(double got, LD want, double rel, double abs)
{
  if (!std::isfinite(got)) return false;
  LD d = fabsl(static_cast<LD>(got) - want);
  return d <= static_cast<LD>(abs) + static_cast<LD>(rel) * fabsl(want);
}

// margin bucket: how much of the tolerance was used (reported as a tally, never judged)
void marginTally(const string& what, LD err, LD tol)
{
  if (tol <= 0) return;
  LD r = err / tol;
  vrt::tally("margin:" + what + (r < 0.01L ? ":<1%" : r < 0.1L ? ":<10%" : r < 0.5L ? ":<50%" : r <= 1 ? ":<=100%" : ":exceeded"));
}

// ------------------------------------------------------------------ generators
// a parameter value in (0,1); the classes put it next to an end (distance 1e-16..1e-9, or the extreme neighbours)
double nearZero(vrt::Rng& r, bool extreme)
{
  if (extreme)
  {
    int k = static_cast<int>(r.below(4));
    if (k == 0) return DBL_MIN;            // smallest normal double
    if (k == 1) return r.logReal(1e-300, 1e-100);
    return r.logReal(1e-100, 1e-16);
  }
  return r.logReal(1e-16, 1e-9);
}
double nearOne(vrt::Rng& r, bool extreme)
{
  if (extreme && r.chance(0.4)) return std::nextafter(1.0, 0.0);
  double d = r.logReal(1.2e-16, 1e-9);
  double v = 1.0 - d;
  return v < 1.0 ? v : std::nextafter(1.0, 0.0);
}

const char* THETA_PATTERNS[] = { "uniform", "all-near-0", "all-near-1", "mixed-ends", "one-near-0", "one-near-1", "alternating-ends", "half", "middle", "extreme-near-0", "extreme-mixed", "loguniform" };
const size_t NTHETA = sizeof(THETA_PATTERNS) / sizeof(THETA_PATTERNS[0]);

vector<double> genTheta(vrt::Rng& r, size_t n, size_t pattern)
{
  size_t m = n > 0 ? n - 1 : 0;
  vector<double> t(m, 0.5);
  size_t special = m ? r.below(m) : 0;
  for (size_t i = 0; i < m; ++i)
  {
    double v = 0.5;
    switch (pattern)
    {
    case 0: v = r.real(0.0, 1.0); if (v <= 0) v = 0.5; break;
    case 1: v = nearZero(r, false); break;
    case 2: v = nearOne(r, false); break;
    case 3: { int k = static_cast<int>(r.below(3)); v = k == 0 ? nearZero(r, false) : k == 1 ? nearOne(r, false) : r.real(0.01, 0.99); break; }
    case 4: v = i == special ? nearZero(r, false) : r.real(0.05, 0.95); break;
    case 5: v = i == special ? nearOne(r, false) : r.real(0.05, 0.95); break;
    case 6: v = (i % 2 == 0) ? nearZero(r, false) : nearOne(r, false); break;
    case 7: v = 0.5; break;
    case 8: v = r.real(0.2, 0.8); break;
    case 9: v = nearZero(r, true); break;
    case 10: { int k = static_cast<int>(r.below(3)); v = k == 0 ? nearZero(r, true) : k == 1 ? nearOne(r, true) : r.real(0.01, 0.99); break; }
    default: v = r.chance(0.5) ? r.logReal(1e-9, 0.5) : 1.0 - r.logReal(1e-9, 0.5); break;
    }
    t[i] = v;
  }
  return t;
}

const char* P_PATTERNS[] = { "dirichlet", "uniform", "loguniform-9-decades", "tiny-first", "tiny-last", "tiny-alternating", "one-dominant", "ascending", "descending", "geometric", "tiny-all-but-two" };
const size_t NPPAT = sizeof(P_PATTERNS) / sizeof(P_PATTERNS[0]);
const double PMIN = 1e-9;

// probability vector with entries >= 1e-9 whose sum is one to rounding (normalised in long double)
vector<double> genProb(vrt::Rng& r, size_t n, size_t pattern)
{
  vector<LD> w(n, 1);
  size_t special = r.below(n);
  for (size_t i = 0; i < n; ++i)
  {
    LD v = 1;
    double tiny = r.logReal(1.05e-9, 1e-8);
    switch (pattern)
    {
    case 0: v = -logl(static_cast<LD>(1.0 - r.unit())) + 1e-6L; break;
    case 1: v = 1; break;
    case 2: v = r.logReal(1e-8, 1.0); break;
    case 3: v = (i < (n + 1) / 2 && n > 1) ? tiny : r.real(0.2, 1.0); break;
    case 4: v = (i >= n / 2 && n > 1) ? tiny : r.real(0.2, 1.0); break;
    case 5: v = (i % 2 == 1) ? tiny : r.real(0.2, 1.0); break;
    case 6: v = i == special ? 1.0 : tiny; break;
    case 7: v = static_cast<LD>(i + 1) + r.real(0.0, 0.5); break;
    case 8: v = static_cast<LD>(n - i) + r.real(0.0, 0.5); break;
    case 9: { double ratio = std::exp(std::log(1e-7) / static_cast<double>(n > 1 ? n - 1 : 1)); v = powl(static_cast<LD>(r.chance(0.5) ? ratio : 1.0 / ratio), static_cast<LD>(i)); break; }
    default: v = (i == special || i == (special + 1 + r.below(n > 1 ? n - 1 : 1)) % n) ? r.real(0.2, 1.0) : tiny; break;
    }
    w[i] = v;
  }
  if (n > 1 && pattern >= 3 && pattern <= 5 && r.chance(0.3)) r.shuffle(w);
  vector<double> p(n, 1.0);
  for (int pass = 0; pass < 8; ++pass)
  {
    LD s = 0;
    for (LD x : w) s += x;
    bool ok = true;
    for (size_t i = 0; i < n; ++i)
    {
      p[i] = static_cast<double>(w[i] / s);
      if (p[i] < PMIN * 1.02) { w[i] = s * 2.5e-9L; ok = false; }
    }
    if (ok) break;
  }
  return p;
}

// ------------------------------------------------------------------ observing the library object
struct Obs
{
  vector<double> p;      // Simplex::getFrequencies()
  vector<double> theta;  // getParameterValue("theta" i)
};

vector<double> readTheta(const Simplex& s)
{
  vector<double> t;
  for (size_t i = 1; i < s.dimension(); ++i) t.push_back(s.getParameterValue(th(i)));
  return t;
}

bool inOpenCube(const vector<double>& t)
{
  for (double x : t) if (!(x > 0.0 && x < 1.0)) return false;
  return true;
}
bool allNormal(const vector<double>& t)
{
  for (double x : t) if (!(x >= DBL_MIN)) return false;
  return true;
}

// structural checks on one observed state: shape, accessors agree, probability vector, parameters inside constraints.
// `where` = route that produced the state (part of the witness class).
bool checkState(const Simplex& s, const Cfg& g, const string& where, const string& hist)
{
  const string cls = g.sig() + ":" + where;
  bool ok = true;
  const vector<double>& p = s.getFrequencies();
  ok &= vrt::expect(s.dimension() == g.dim && p.size() == g.dim && s.getMethod() == g.method && s.getNumberOfParameters() == g.dim - 1, "state.shape", cls,
      [&] { return hist + " => dimension " + str(s.dimension()) + " vector size " + str(p.size()) + " method " + str(s.getMethod()) + " parameters " + str(s.getNumberOfParameters()); });
  if (!ok) return false;
  LD sum = 0;
  bool nonneg = true, same = true;
  for (size_t i = 0; i < p.size(); ++i)
  {
    if (!(p[i] >= 0.0) || !std::isfinite(p[i])) nonneg = false;
    if (!vrt::sameDouble(s.prob(i), p[i])) same = false;
    sum += static_cast<LD>(p[i]);
  }
  ok &= vrt::expect(nonneg, "prob.nonnegative", g.sig(), [&] { return hist + " => frequencies " + vrt::vecStr(p, 40) + " parameters " + vrt::vecStr(readTheta(s), 40); });
  ok &= vrt::expect(same, "prob.accessors-agree", cls, [&] { return hist + " => prob(i) differs from getFrequencies()[i]: " + vrt::vecStr(p, 40); });
  if (nonneg)
    ok &= vrt::expect(fabsl(sum - 1) <= 1e-12L * static_cast<LD>(g.dim), "prob.sums-to-one", g.sig(),
        [&] { return hist + " => sum-1 = " + str(static_cast<double>(sum - 1)) + " frequencies " + vrt::vecStr(p, 40) + " parameters " + vrt::vecStr(readTheta(s), 40); });
  // parameters: named theta1..theta(n-1) in the namespace, constrained, inside the constraint, and the constraint is the
  // open / closed unit interval as requested
  const ParameterList& pl = s.getParameters();
  for (size_t i = 0; i < pl.size(); ++i)
  {
    const Parameter& q = pl[i];
    bool has = q.hasConstraint();
    bool inside = has && q.getConstraint()->isCorrect(q.getValue());
    ok &= vrt::expect(inside, "param.inside-constraint", cls, [&] { return hist + " => parameter " + q.getName() + " = " + str(q.getValue()) + (has ? " outside " + q.getConstraint()->getDescription() : " has no constraint"); });
    if (has)
    {
      auto k = q.getConstraint();
      bool kind = k->isCorrect(0.0) == g.allowNull && k->isCorrect(1.0) == g.allowNull && k->isCorrect(DBL_MIN) && k->isCorrect(std::nextafter(1.0, 0.0))
          && !k->isCorrect(-1e-300) && !k->isCorrect(std::nextafter(1.0, 2.0));
      ok &= vrt::expect(kind, "param.constraint-kind", cls + (g.allowNull ? ":closed" : ":open"), [&] { return hist + " => parameter " + q.getName() + " carries " + k->getDescription() + " with allowNull=" + str(g.allowNull); });
    }
    ok &= vrt::expect(q.getName() == g.name + th(i + 1) && s.hasParameter(th(i + 1)), "param.names", cls, [&] { return hist + " => parameter " + str(i) + " is named '" + q.getName() + "'"; });
    if (!ok) break;
  }
  return ok;
}

// the frequencies held by the object are the documented function of the parameters it holds now (forward formula,
// long double reference, tolerance = rounding of the evaluation only)
bool checkForward(const Simplex& s, const Cfg& g, const string& where, const string& hist)
{
  vector<double> t = readTheta(s);
  if (!inOpenCube(t) || !allNormal(t)) { vrt::tally("forward-unjudged:parameters-outside-open-cube-or-denormal"); return true; }
  vector<LD> want = refForward(g.method, g.dim, t);
  const vector<double>& p = s.getFrequencies();
  double rel = forwardTol(g.dim);
  vector<double> absT = forwardAbsTol(g.method, g.dim, t);
  bool ok = true;
  size_t bad = 0;
  for (size_t i = 0; i < g.dim; ++i)
  {
    bool c = relClose(p[i], want[i], rel, absT[i]);
    if (c) marginTally("forward", fabsl(static_cast<LD>(p[i]) - want[i]), static_cast<LD>(absT[i]) + static_cast<LD>(rel) * fabsl(want[i]));
    if (!c && ok) bad = i;
    ok &= c;
  }
  vrt::expect(ok, "forward.formula", g.sig() + ":" + where.substr(0, where.find(':')),
      [&] { return hist + " => entry " + str(bad) + " = " + str(p[bad]) + " but the documented map gives " + str(static_cast<double>(want[bad])) + " (rel tol " + str(rel) + "); parameters " + vrt::vecStr(t, 40) + " frequencies " + vrt::vecStr(p, 40); });
  return ok;
}

// compare a returned vector with the vector that was given, per-entry tolerance
bool checkReturned(const vector<double>& got, const vector<double>& given, const RtTol& tol, const char* clause, const string& cls, const string& hist, const string& what)
{
  bool ok = got.size() == given.size();
  size_t bad = 0;
  for (size_t i = 0; ok && i < given.size(); ++i)
  {
    bool c = relClose(got[i], static_cast<LD>(given[i]), tol.rel[i], tol.abs[i]);
    if (c) marginTally(what, fabsl(static_cast<LD>(got[i]) - static_cast<LD>(given[i])), static_cast<LD>(tol.abs[i]) + static_cast<LD>(tol.rel[i]) * static_cast<LD>(given[i]));
    if (!c) { bad = i; ok = false; }
  }
  vrt::expect(ok, clause, cls, [&] {
    if (got.size() != given.size()) return hist + " => size " + str(got.size());
    return hist + " => entry " + str(bad) + " returned " + str(got[bad]) + " given " + str(given[bad]) + " (relative error " + str(std::fabs(got[bad] - given[bad]) / given[bad]) + ", tolerance rel " + str(tol.rel[bad]) + " abs " + str(tol.abs[bad]) + "); given " + vrt::vecStr(given, 40) + " returned " + vrt::vecStr(got, 40);
  });
  return ok;
}

// the library's parameters against the exact inverse of the given vector
bool checkInverse(const Simplex& s, const Cfg& g, const vector<double>& given, const string& where, const string& hist)
{
  vector<double> t = readTheta(s);
  vector<LD> want = refInverse(g.method, given);
  vector<double> rel = inverseTol(g.method, given);
  bool ok = true;
  size_t bad = 0;
  for (size_t i = 0; i + 1 < g.dim; ++i)
  {
    bool c = relClose(t[i], want[i], rel[i], 0);
    if (c) marginTally("inverse", fabsl(static_cast<LD>(t[i]) - want[i]), static_cast<LD>(rel[i]) * want[i]);
    if (!c && ok) bad = i;
    ok &= c;
  }
  vrt::expect(ok, "inverse.formula", g.sig() + ":" + where,
      [&] { return hist + " => theta" + str(bad + 1) + " = " + str(t[bad]) + " but the documented coding gives " + str(static_cast<double>(want[bad])) + " (rel tol " + str(rel[bad]) + "); given " + vrt::vecStr(given, 40) + " parameters " + vrt::vecStr(t, 40); });
  return ok;
}

void auditCount(vrt::u64 before)
{
  vrt::u64 now = vrt::parameterAudits();
  if (now > before) vrt::counted("audit.parameter", now - before);
}

// ways of giving a full parameter vector to an existing object
const char* ROUTES[] = { "setParameterValue", "matchParametersValues", "setParametersValues", "setAllParametersValues", "setValue+fireParameterChanged", "matchParametersValues-extra-names" };
const size_t NROUTES = sizeof(ROUTES) / sizeof(ROUTES[0]);

// returns the outcome of the (last) library call; for the one-by-one route every intermediate state is checked too
vrt::Outcome applyTheta(Simplex& s, const Cfg& g, const vector<double>& t, size_t route, vrt::Rng& r, const string& hist, bool checkIntermediate)
{
  return vrt::capture([&] {
    ParameterList pl;
    switch (route)
    {
    case 0:
    {
      vector<size_t> order;
      for (size_t i = 0; i < t.size(); ++i) order.push_back(i);
      r.shuffle(order);
      for (size_t k : order)
      {
        s.setParameterValue(th(k + 1), t[k]);
        if (checkIntermediate && vrt::violationsInCase() == 0)
        {
          checkState(s, g, "intermediate", hist + " [after setParameterValue(" + th(k + 1) + "," + str(t[k]) + ")]");
          checkForward(s, g, "intermediate", hist + " [after setParameterValue(" + th(k + 1) + "," + str(t[k]) + ")]");
        }
      }
      break;
    }
    case 1:
    case 2:
    case 3:
      for (size_t i = 0; i < t.size(); ++i) pl.addParameter(Parameter(g.name + th(i + 1), t[i]));
      if (route == 1) s.matchParametersValues(pl);
      else if (route == 2) s.setParametersValues(pl);
      else s.setAllParametersValues(pl);
      break;
    case 4:
      for (size_t i = 0; i < t.size(); ++i) s.getParameter(th(i + 1))->setValue(t[i]);
      s.fireParameterChanged(s.getParameters());
      break;
    default:
      pl.addParameter(Parameter("unrelated.theta1", 0.123));
      for (size_t i = t.size(); i > 0; --i) pl.addParameter(Parameter(g.name + th(i), t[i - 1]));
      pl.addParameter(Parameter(g.name + th(t.size() + 1), 0.77)); // one beyond the last: not a parameter of the object
      s.matchParametersValues(pl);
      break;
    }
  });
}

// the frequencies stored by a constructor are not recomputed from the parameters: they must nevertheless be the
// documented function of the parameters up to the round trip error of the stored vector
bool checkConsistent(const Simplex& s, const Cfg& g, const string& where, const string& hist)
{
  vector<double> t = readTheta(s);
  if (!inOpenCube(t) || !allNormal(t)) { vrt::tally("forward-unjudged:parameters-outside-open-cube-or-denormal"); return true; }
  const vector<double>& p = s.getFrequencies();
  for (double x : p) if (!(x > 0)) { vrt::tally("consistent-unjudged:zero-entry"); return true; }
  vector<LD> want = refForward(g.method, g.dim, t);
  RtTol tol = roundTripTol(g.method, p);
  double f = forwardTol(g.dim);
  vector<double> absT = forwardAbsTol(g.method, g.dim, t);
  bool ok = true;
  size_t bad = 0;
  for (size_t i = 0; i < g.dim; ++i)
  {
    bool c = relClose(p[i], want[i], tol.rel[i] + f, tol.abs[i] + absT[i]);
    if (!c && ok) bad = i;
    ok &= c;
  }
  vrt::expect(ok, "state.frequencies-match-parameters", g.sig() + ":" + where,
      [&] { return hist + " => stored entry " + str(bad) + " = " + str(p[bad]) + " but the parameters give " + str(static_cast<double>(want[bad])) + " (rel tol " + str(tol.rel[bad] + f) + "); parameters " + vrt::vecStr(t, 40) + " frequencies " + vrt::vecStr(p, 40); });
  return ok;
}

// after a call that notifies the object only when a parameter changed (setFrequencies, matchParametersValues): the
// frequencies were recomputed iff the parameters moved; otherwise the stored vector (possibly a constructor's) is still there
bool checkAfterMaybeFire(const Simplex& s, const Cfg& g, const vector<double>& thetaBefore, const string& where, const string& hist)
{
  if (readTheta(s) != thetaBefore) return checkForward(s, g, where, hist);
  return checkConsistent(s, g, where, hist);
}

// values of the ordered variant: non-increasing, non-negative, sum to one, and equal to the tail sums of p_j/j
bool checkValues(const OrderedSimplex& os, const Cfg& g, const string& where, const string& hist)
{
  const string cls = g.sig() + ":" + where;
  const vector<double>& v = os.getFrequencies();
  const vector<double>& p = static_cast<const Simplex&>(os).getFrequencies();
  bool ok = vrt::expect(v.size() == g.dim, "ordered.shape", cls, [&] { return hist + " => " + str(v.size()) + " values for dimension " + str(g.dim); });
  if (!ok) return false;
  bool mono = true, nonneg = true;
  LD sum = 0;
  for (size_t i = 0; i < v.size(); ++i)
  {
    if (!(v[i] >= 0) || !std::isfinite(v[i])) nonneg = false;
    if (i + 1 < v.size() && !(v[i] >= v[i + 1])) mono = false;
    sum += static_cast<LD>(v[i]);
  }
  ok &= vrt::expect(nonneg && mono, "ordered.nonincreasing", cls, [&] { return hist + " => values " + vrt::vecStr(v, 40); });
  if (nonneg)
    ok &= vrt::expect(fabsl(sum - 1) <= 1e-12L * static_cast<LD>(g.dim), "ordered.sums-to-one", cls, [&] { return hist + " => sum-1 = " + str(static_cast<double>(sum - 1)) + " values " + vrt::vecStr(v, 40); });
  // v_i = sum_{j>=i} p_j/j from the probabilities the object holds (n+1 roundings)
  vector<LD> pl(p.begin(), p.end());
  vector<LD> want = refValues(pl);
  bool match = true;
  size_t bad = 0;
  for (size_t i = 0; i < v.size(); ++i)
    if (!relClose(v[i], want[i], KTOL * U * static_cast<double>(g.dim + 2), ABSFLOOR)) { match = false; bad = i; }
  ok &= vrt::expect(match, "ordered.values-formula", cls, [&] { return hist + " => value " + str(bad) + " = " + str(v[bad]) + " but sum_{j>=i} p_j/j = " + str(static_cast<double>(want[bad])) + "; p " + vrt::vecStr(p, 40) + " values " + vrt::vecStr(v, 40); });
  return ok;
}

unique_ptr<Simplex> build(const Cfg& g, bool ordered, const vector<double>* from)
{
  if (ordered)
    return unique_ptr<Simplex>(from ? new OrderedSimplex(*from, g.method, g.allowNull, g.name) : new OrderedSimplex(g.dim, g.method, g.allowNull, g.name));
  return unique_ptr<Simplex>(from ? new Simplex(*from, g.method, g.allowNull, g.name) : new Simplex(g.dim, g.method, g.allowNull, g.name));
}

// ordered values from a probability vector q: v_i = sum_{j>=i} q_j/j (rounded to double)
vector<double> valuesFrom(const vector<double>& q)
{
  vector<LD> ql(q.begin(), q.end());
  return toD(refValues(ql));
}

// ------------------------------------------------------------------ group forward: theta -> p
void caseForward(vrt::Case& c)
{
  vrt::installParameterAudit("audit.parameter");
  vrt::u64 a0 = vrt::parameterAudits();
  Cfg g = cfgFor(c, c.index);
  size_t pattern = static_cast<size_t>((c.index / NCOMBO) % NTHETA);
  size_t route = c.rng.below(NROUTES);
  int start = static_cast<int>(c.rng.below(3)); // 0 dimension constructor, 1 constructor from probabilities, 2 a setFrequencies before
  vector<double> t = genTheta(c.rng, g.dim, pattern);
  const string pat = THETA_PATTERNS[pattern];
  string hist = g.text() + "; start " + (start == 0 ? "Simplex(dim)" : start == 1 ? "Simplex(probas)" : "Simplex(dim)+setFrequencies") + "; theta(" + pat + ") " + vrt::vecStr(t, 40) + " via " + ROUTES[route];
  vrt::describe(g.key() + ":forward:" + pat + ":" + ROUTES[route], hist);
  unique_ptr<Simplex> s;
  vector<double> p0 = genProb(c.rng, g.dim, c.rng.below(NPPAT));
  vector<double> t0;
  vrt::Outcome o = vrt::capture([&] { s = build(g, false, start == 1 ? &p0 : nullptr); t0 = readTheta(*s); if (start == 2) s->setFrequencies(p0); });
  if (!vrt::expect(o.returned() && s, "ctor.accepted", g.sig() + ":start" + str(start), [&] { return hist + " => " + o.text(); })) return;
  if (!checkState(*s, g, "start" + str(start), hist)) return;
  checkAfterMaybeFire(*s, g, t0, "start" + str(start), hist);

  vrt::step("apply theta via " + string(ROUTES[route]));
  vector<double> tb0 = readTheta(*s);
  o = applyTheta(*s, g, t, route, c.rng, hist, true);
  if (!vrt::expect(o.returned(), "update.accepted", g.sig() + ":" + ROUTES[route], [&] { return hist + " => " + o.text(); })) return;
  vector<double> got = readTheta(*s);
  vrt::expect(got == t, "update.parameters-hold-given", g.sig() + ":" + ROUTES[route], [&] { return hist + " => parameters " + vrt::vecStr(got, 40); });
  if (!checkState(*s, g, string("after:") + ROUTES[route], hist)) return;
  if (!checkAfterMaybeFire(*s, g, tb0, string("after:") + ROUTES[route] + ":" + pat, hist)) return;
  vrt::cover(g.key() + ":forward:" + pat + ":" + ROUTES[route]);

  // history independence: a fresh object given the same parameters another way holds the same frequencies
  {
    size_t route2 = (route + 1 + c.rng.below(NROUTES - 1)) % NROUTES;
    unique_ptr<Simplex> f;
    vrt::Outcome o2 = vrt::capture([&] { f = build(g, false, nullptr); });
    if (o2.returned() && f) o2 = applyTheta(*f, g, t, route2, c.rng, hist, false);
    if (vrt::expect(o2.returned(), "update.accepted", g.sig() + ":" + ROUTES[route2], [&] { return hist + " [fresh object via " + ROUTES[route2] + "] => " + o2.text(); }))
    {
      const vector<double>& a = s->getFrequencies();
      const vector<double>& b = f->getFrequencies();
      bool same = a.size() == b.size();
      size_t bad = 0;
      for (size_t i = 0; same && i < a.size(); ++i)
        if (!relClose(a[i], static_cast<LD>(b[i]), 2 * forwardTol(g.dim), 2 * ABSFLOOR)) { same = false; bad = i; }
      vrt::expect(same, "history.independent", g.sig() + ":fresh-object:" + ROUTES[route] + "-vs-" + ROUTES[route2],
          [&] { return hist + " => entry " + str(bad) + ": " + str(a[bad]) + " after the history, " + str(b[bad]) + " in a fresh object given the same parameters via " + ROUTES[route2]; });
    }
  }
  if (g.dim < 2) { auditCount(a0); return; }

  // injectivity: move one parameter, some frequency must move beyond rounding (judged where the documented map predicts a
  // relative change of at least 1e-6 in an entry that is representable)
  {
    size_t k = c.rng.below(g.dim - 1);
    double tk = t[k];
    double moved = tk < 0.5 ? tk * 1.5 : 1.0 - (1.0 - tk) * 1.5;
    if (moved > 0 && moved < 1 && moved != tk)
    {
      vector<double> t2 = t;
      t2[k] = moved;
      vector<LD> r1 = refForward(g.method, g.dim, t), r2 = refForward(g.method, g.dim, t2);
      size_t best = g.dim;
      LD bestRel = 0;
      for (size_t i = 0; i < g.dim; ++i)
      {
        LD lo = min(r1[i], r2[i]), hi = max(r1[i], r2[i]);
        if (lo < 1e-280L) continue;
        LD rel = (hi - lo) / hi;
        if (rel > bestRel) { bestRel = rel; best = i; }
      }
      unique_ptr<Simplex> cl(s->clone());
      vector<double> before = s->getFrequencies();
      vrt::Outcome o3 = vrt::capture([&] { cl->setParameterValue(th(k + 1), moved); });
      if (vrt::expect(o3.returned(), "update.accepted", g.sig() + ":setParameterValue-on-clone", [&] { return hist + " ; clone.setParameterValue(" + th(k + 1) + "," + str(moved) + ") => " + o3.text(); }))
      {
        vector<double> ab1 = forwardAbsTol(g.method, g.dim, t), ab2 = forwardAbsTol(g.method, g.dim, t2);
        if (best < g.dim && bestRel >= 1e-6L && fabsl(r1[best] - r2[best]) > 8 * static_cast<LD>(ab1[best] + ab2[best]))
        {
          double d = std::fabs(cl->prob(best) - before[best]);
          LD expd = fabsl(r1[best] - r2[best]);
          vrt::expect(static_cast<LD>(d) >= 0.5L * expd && cl->getFrequencies() != before, "injective.perturbation-visible", g.sig() + ":" + pat,
              [&] { return hist + " ; theta" + str(k + 1) + " " + str(tk) + " -> " + str(moved) + " => entry " + str(best) + " moved by " + str(d) + ", the documented map moves it by " + str(static_cast<double>(expd)) + " (" + str(static_cast<double>(r1[best])) + " -> " + str(static_cast<double>(r2[best])) + ")"; });
          vrt::cover(g.key() + ":injective:" + pat);
        }
        else vrt::tally("injective-unjudged:change-not-representable");
        checkForward(*cl, g, "clone-perturbed:" + pat, hist + " ; clone.setParameterValue(" + th(k + 1) + "," + str(moved) + ")");
        vrt::expect(s->getFrequencies() == before && readTheta(*s) == t, "copy.independent", g.sig() + ":clone-perturbed", [&] { return hist + " => the source changed when its clone was given another theta" + str(k + 1); });
      }
    }
  }

  // parameter recovery theta -> p -> theta' through the constructor / the setter (only when p is inside the stated input domain)
  {
    vector<double> p = s->getFrequencies();
    double mn = *min_element(p.begin(), p.end());
    if (mn >= PMIN)
    {
      bool viaCtor = c.rng.chance(0.5);
      unique_ptr<Simplex> rcv;
      vrt::Outcome o4 = vrt::capture([&] {
          if (viaCtor) rcv = build(g, false, &p);
          else { rcv = build(g, false, nullptr); rcv->setFrequencies(p); }
        });
      const string rt = viaCtor ? "ctor" : "setFrequencies";
      if (vrt::expect(o4.returned() && rcv, "recovery.accepted", g.sig() + ":" + rt, [&] { return hist + " ; " + rt + "(" + vrt::vecStr(p, 40) + ") => " + o4.text(); }))
      {
        vector<double> t3 = readTheta(*rcv);
        vector<double> it = inverseTol(g.method, p);
        double f = forwardTol(g.dim);
        bool ok = true;
        size_t bad = 0;
        double badTol = 0;
        LD y = 1;
        for (size_t i = 0; i + 1 < g.dim; ++i)
        {
          double tol = it[i] + 2 * f * (1 + (g.method == 1 ? static_cast<double>(1 / y) : 0.0));
          if (!relClose(t3[i], static_cast<LD>(t[i]), tol, 0) && ok) { ok = false; bad = i; badTol = tol; }
          y -= static_cast<LD>(p[i]);
        }
        vrt::expect(ok, "injective.parameters-recovered", g.sig() + ":" + rt,
            [&] { return hist + " ; frequencies " + vrt::vecStr(p, 40) + " given back through " + rt + " => theta" + str(bad + 1) + " = " + str(t3[bad]) + " instead of " + str(t[bad]) + " (rel tol " + str(badTol) + ")"; });
        checkState(*rcv, g, "recovery:" + rt, hist);
        vrt::cover(g.key() + ":recovery:" + rt + ":" + pat);
      }
    }
    else vrt::tally("recovery-unjudged:entry-below-1e-9");
  }
  auditCount(a0);
}

// ------------------------------------------------------------------ group roundtrip: p -> theta -> p
void caseRoundTrip(vrt::Case& c)
{
  vrt::installParameterAudit("audit.parameter");
  vrt::u64 a0 = vrt::parameterAudits();
  Cfg g = cfgFor(c, c.index);
  size_t pattern = static_cast<size_t>((c.index / NCOMBO) % NPPAT);
  const string pat = P_PATTERNS[pattern];
  vector<double> p = genProb(c.rng, g.dim, pattern);
  int route = static_cast<int>(c.rng.below(4)); // 0 ctor, 1 dim ctor + setFrequencies, 2 ctor(other) + setFrequencies, 3 ctor(other) + parameter updates + setFrequencies
  static const char* RN[] = { "ctor", "dim-ctor+setFrequencies", "ctor+setFrequencies", "ctor+updates+setFrequencies" };
  RtTol tol = roundTripTol(g.method, p);
  string hist = g.text() + "; p(" + pat + ") " + vrt::vecStr(p, 40) + " via " + RN[route];
  vrt::describe(g.key() + ":roundtrip:" + pat + ":" + RN[route], hist);
  const string cls = g.sig() + ":" + RN[route];
  unique_ptr<Simplex> s;
  vrt::Outcome o;
  if (route == 0)
  {
    o = vrt::capture([&] { s = build(g, false, &p); });
    if (!vrt::expect(o.returned() && s, "ctor.accepted", cls, [&] { return hist + " => " + o.text(); })) return;
    if (!checkState(*s, g, RN[route], hist)) return;
    checkReturned(s->getFrequencies(), p, tol, "roundtrip.ctor-returns-given", cls + ":" + pat, hist, "roundtrip");
    checkInverse(*s, g, p, RN[route], hist);
    // make the object recompute its frequencies from its parameters, without changing any of them
    int how = static_cast<int>(c.rng.below(3));
    vrt::step("recompute " + str(how));
    o = vrt::capture([&] {
        if (how == 0 || g.dim == 1) s->fireParameterChanged(s->getParameters());
        else if (how == 1) { size_t k = 1 + c.rng.below(g.dim - 1); s->setParameterValue(th(k), s->getParameterValue(th(k))); }
        else s->setParametersValues(s->getParameters());
      });
    if (!vrt::expect(o.returned(), "update.accepted", cls + ":recompute", [&] { return hist + " ; recompute => " + o.text(); })) return;
    if (!checkState(*s, g, string(RN[route]) + ":recomputed", hist)) return;
    checkReturned(s->getFrequencies(), p, tol, "roundtrip.recomputed", cls + ":" + pat, hist + " ; recomputed from the parameters", "roundtrip");
    checkForward(*s, g, string(RN[route]) + ":recomputed", hist);
  }
  else
  {
    vector<double> p0 = genProb(c.rng, g.dim, c.rng.below(NPPAT));
    o = vrt::capture([&] { s = build(g, false, route == 1 ? nullptr : &p0); });
    if (!vrt::expect(o.returned() && s, "ctor.accepted", cls, [&] { return hist + " => " + o.text(); })) return;
    if (route == 3)
    {
      vector<double> t = genTheta(c.rng, g.dim, c.rng.below(NTHETA));
      o = applyTheta(*s, g, t, c.rng.below(NROUTES), c.rng, hist, false);
      if (!vrt::expect(o.returned(), "update.accepted", cls + ":before", [&] { return hist + " ; theta " + vrt::vecStr(t, 40) + " => " + o.text(); })) return;
    }
    vrt::step("setFrequencies");
    vector<double> tb = readTheta(*s);
    o = vrt::capture([&] { s->setFrequencies(p); });
    if (!vrt::expect(o.returned(), "setFrequencies.accepted", cls, [&] { return hist + " => " + o.text(); })) return;
    if (!checkState(*s, g, RN[route], hist)) return;
    checkReturned(s->getFrequencies(), p, tol, "roundtrip.setFrequencies", cls + ":" + pat, hist, "roundtrip");
    checkInverse(*s, g, p, RN[route], hist);
    checkAfterMaybeFire(*s, g, tb, RN[route], hist);
  }
  vrt::cover(g.key() + ":roundtrip:" + pat + ":" + RN[route]);

  // set another vector, then the first again: the result depends on the last vector only; a copy taken in between is not affected
  {
    vector<double> q = genProb(c.rng, g.dim, c.rng.below(NPPAT));
    vector<double> before = s->getFrequencies(), tb = readTheta(*s);
    unique_ptr<Simplex> cp(c.rng.chance(0.5) ? new Simplex(*s) : s->clone());
    o = vrt::capture([&] { cp->setFrequencies(q); });
    if (vrt::expect(o.returned(), "setFrequencies.accepted", cls + ":on-copy", [&] { return hist + " ; copy.setFrequencies(" + vrt::vecStr(q, 40) + ") => " + o.text(); }))
    {
      vrt::expect(s->getFrequencies() == before && readTheta(*s) == tb, "copy.independent", g.sig() + ":copy-setFrequencies", [&] { return hist + " => the source changed when setFrequencies was called on its copy"; });
      checkReturned(cp->getFrequencies(), q, roundTripTol(g.method, q), "roundtrip.setFrequencies", g.sig() + ":on-copy", hist + " ; copy.setFrequencies(" + vrt::vecStr(q, 40) + ")", "roundtrip");
      o = vrt::capture([&] { cp->setFrequencies(p); });
      if (vrt::expect(o.returned(), "setFrequencies.accepted", cls + ":again", [&] { return hist + " ; again => " + o.text(); }))
      {
        checkReturned(cp->getFrequencies(), p, tol, "roundtrip.setFrequencies", g.sig() + ":again", hist + " ; copy.setFrequencies(q) ; copy.setFrequencies(p)", "roundtrip");
        checkState(*cp, g, "again", hist);
      }
    }
  }
  auditCount(a0);
}

// tolerance (absolute, per value) for the ordered round trip v -> q -> theta -> q' -> v'
vector<double> orderedTol(unsigned short method, const vector<double>& v, vector<double>* qOut, RtTol* qTol)
{
  size_t n = v.size();
  vector<double> q = toD(refProbFromValues(v));
  RtTol t = roundTripTol(method, q);
  // the library's q carries two more roundings per entry (difference, product): they enter the last entry of method 1
  // through the remainder, and all entries relatively
  for (size_t i = 0; i < n; ++i) { t.rel[i] += 4 * KTOL * U; t.abs[i] += (i + 1 == n && method == 1) ? 4 * KTOL * U * static_cast<double>(n) : 0; }
  vector<double> a(n, 0);
  LD acc = 0;
  for (size_t i = n; i > 0; --i)
  {
    acc += (static_cast<LD>(t.rel[i - 1]) * static_cast<LD>(q[i - 1]) + static_cast<LD>(t.abs[i - 1])) / static_cast<LD>(i);
    a[i - 1] = static_cast<double>(acc + static_cast<LD>(KTOL * U * static_cast<double>(n + 2)) * static_cast<LD>(v[i - 1]));
  }
  if (qOut) *qOut = q;
  if (qTol) *qTol = t;
  return a;
}

bool checkValuesReturned(const OrderedSimplex& os, const Cfg& g, const vector<double>& v, const char* clause, const string& where, const string& hist)
{
  vector<double> q;
  RtTol qt;
  vector<double> a = orderedTol(g.method, v, &q, &qt);
  const vector<double>& got = os.getFrequencies();
  bool ok = got.size() == v.size();
  size_t bad = 0;
  for (size_t i = 0; ok && i < v.size(); ++i)
  {
    bool c = relClose(got[i], static_cast<LD>(v[i]), 0, a[i]);
    if (c) marginTally("ordered-roundtrip", fabsl(static_cast<LD>(got[i]) - static_cast<LD>(v[i])), static_cast<LD>(a[i]));
    if (!c) { ok = false; bad = i; }
  }
  vrt::expect(ok, clause, g.sig() + ":" + where, [&] {
    if (got.size() != v.size()) return hist + " => " + str(got.size()) + " values";
    return hist + " => value " + str(bad) + " returned " + str(got[bad]) + " given " + str(v[bad]) + " (abs tol " + str(a[bad]) + "); given " + vrt::vecStr(v, 40) + " returned " + vrt::vecStr(got, 40);
  });
  // the underlying probabilities p_i = i (v_i - v_{i+1})
  checkReturned(static_cast<const Simplex&>(os).getFrequencies(), q, qt, "ordered.roundtrip-probabilities", g.sig() + ":" + where, hist, "roundtrip");
  return ok;
}

// ------------------------------------------------------------------ group ordered
void caseOrdered(vrt::Case& c)
{
  vrt::installParameterAudit("audit.parameter");
  vrt::u64 a0 = vrt::parameterAudits();
  Cfg g = cfgFor(c, c.index);
  size_t block = static_cast<size_t>(c.index / NCOMBO);
  bool forward = block % 2 == 0;
  unique_ptr<Simplex> holder;
  vrt::Outcome o;
  if (forward)
  {
    size_t pattern = (block / 2) % NTHETA;
    const string pat = THETA_PATTERNS[pattern];
    size_t route = c.rng.below(NROUTES);
    vector<double> t = genTheta(c.rng, g.dim, pattern);
    bool fromValues = c.rng.chance(0.4);
    vector<double> v0 = valuesFrom(genProb(c.rng, g.dim, c.rng.below(NPPAT)));
    string hist = g.text() + "; OrderedSimplex(" + (fromValues ? "values " + vrt::vecStr(v0, 40) : string("dim")) + "); theta(" + pat + ") " + vrt::vecStr(t, 40) + " via " + ROUTES[route];
    vrt::describe(g.key() + ":ordered-forward:" + pat + ":" + ROUTES[route], hist);
    o = vrt::capture([&] { holder = build(g, true, fromValues ? &v0 : nullptr); });
    if (!vrt::expect(o.returned() && holder, "ctor.accepted", g.sig() + ":ordered:" + (fromValues ? "values" : "dim"), [&] { return hist + " => " + o.text(); })) return;
    OrderedSimplex& os = static_cast<OrderedSimplex&>(*holder);
    if (!checkState(os, g, "ordered-ctor", hist) || !checkValues(os, g, "ordered-ctor", hist)) return;
    if (fromValues) checkValuesReturned(os, g, v0, "ordered.roundtrip-ctor", "ctor", hist);
    checkConsistent(os, g, "ordered-ctor", hist);
    vrt::step("apply theta");
    vector<double> tb0 = readTheta(os);
    o = applyTheta(os, g, t, route, c.rng, hist, false);
    if (!vrt::expect(o.returned(), "update.accepted", g.sig() + ":ordered:" + ROUTES[route], [&] { return hist + " => " + o.text(); })) return;
    if (!checkState(os, g, string("ordered-after:") + ROUTES[route], hist)) return;
    checkAfterMaybeFire(os, g, tb0, string("ordered-after:") + ROUTES[route], hist);
    checkValues(os, g, string("ordered-after:") + ROUTES[route] + ":" + pat, hist);
    vrt::cover(g.key() + ":ordered-forward:" + pat + ":" + ROUTES[route]);
  }
  else
  {
    size_t pattern = (block / 2) % NPPAT;
    const string pat = P_PATTERNS[pattern];
    vector<double> v = valuesFrom(genProb(c.rng, g.dim, pattern));
    int route = static_cast<int>(c.rng.below(3)); // 0 ctor, 1 dim ctor + setFrequencies, 2 ctor(other) + updates + setFrequencies
    static const char* RN[] = { "ctor", "dim-ctor+setFrequencies", "ctor+updates+setFrequencies" };
    string hist = g.text() + "; OrderedSimplex values(" + pat + ") " + vrt::vecStr(v, 40) + " via " + RN[route];
    vrt::describe(g.key() + ":ordered-roundtrip:" + pat + ":" + RN[route], hist);
    const string cls = g.sig() + ":ordered:" + RN[route];
    vector<double> tbSet;
    if (route == 0)
    {
      o = vrt::capture([&] { holder = build(g, true, &v); });
      if (!vrt::expect(o.returned() && holder, "ctor.accepted", cls, [&] { return hist + " => " + o.text(); })) return;
    }
    else
    {
      vector<double> v0 = valuesFrom(genProb(c.rng, g.dim, c.rng.below(NPPAT)));
      o = vrt::capture([&] { holder = build(g, true, route == 1 ? nullptr : &v0); });
      if (!vrt::expect(o.returned() && holder, "ctor.accepted", cls, [&] { return hist + " => " + o.text(); })) return;
      if (route == 2)
      {
        vector<double> t = genTheta(c.rng, g.dim, c.rng.below(NTHETA));
        o = applyTheta(*holder, g, t, c.rng.below(NROUTES), c.rng, hist, false);
        if (!vrt::expect(o.returned(), "update.accepted", cls + ":before", [&] { return hist + " ; theta " + vrt::vecStr(t, 40) + " => " + o.text(); })) return;
      }
      vrt::step("setFrequencies");
      tbSet = readTheta(*holder);
      o = vrt::capture([&] { static_cast<OrderedSimplex&>(*holder).setFrequencies(v); });
      if (!vrt::expect(o.returned(), "setFrequencies.accepted", cls, [&] { return hist + " => " + o.text(); })) return;
    }
    OrderedSimplex& os = static_cast<OrderedSimplex&>(*holder);
    if (!checkState(os, g, string("ordered:") + RN[route], hist)) return;
    checkValues(os, g, string("ordered:") + RN[route], hist);
    checkValuesReturned(os, g, v, "ordered.roundtrip", string(RN[route]) + ":" + pat, hist);
    if (route == 0) checkConsistent(os, g, string("ordered:") + RN[route], hist);
    else checkAfterMaybeFire(os, g, tbSet, string("ordered:") + RN[route], hist);
    vrt::cover(g.key() + ":ordered-roundtrip:" + pat + ":" + RN[route]);

    // a probability vector that is not non-increasing cannot be the value vector of an ordered simplex: whatever the call
    // does (raise or not), the object must go on returning non-increasing values that sum to one and match its parameters
    if (g.dim >= 2)
    {
      vector<double> w = v;
      if (c.rng.chance(0.5)) std::reverse(w.begin(), w.end());
      else { size_t i = c.rng.below(g.dim - 1); std::swap(w[i], w[g.dim - 1]); }
      if (w != v)
      {
        vector<double> tb = readTheta(os);
        vrt::step("setFrequencies(unsorted)");
        vrt::Outcome ou = vrt::capture([&] { os.setFrequencies(w); });
        string h2 = hist + " ; setFrequencies(unsorted " + vrt::vecStr(w, 40) + ") " + ou.text();
        vrt::tally(string("ordered-unsorted:") + (ou.returned() ? "returned" : ou.type));
        vrt::expect(ou.returned() || ou.raisedBpp(), "ordered.unsorted-outcome", g.sig(), [&] { return h2; });
        checkState(os, g, "ordered:after-unsorted-setFrequencies", h2);
        checkValues(os, g, "after-unsorted-setFrequencies", h2);
        if (readTheta(os) == tb)
          checkValuesReturned(os, g, v, "ordered.roundtrip", "after-unsorted-setFrequencies", h2);
        vrt::cover(g.key() + ":ordered-unsorted:" + (ou.returned() ? "returned" : "raised"));
      }
    }
  }
  auditCount(a0);
}

// ------------------------------------------------------------------ group history
void caseHistory(vrt::Case& c)
{
  vrt::installParameterAudit("audit.parameter");
  vrt::u64 a0 = vrt::parameterAudits();
  Cfg g = cfgFor(c, c.index);
  bool ordered = c.rng.chance(0.3);
  bool fromVec = c.rng.chance(0.5);
  size_t len = static_cast<size_t>(c.rng.range(2, 8));
  vector<double> init = genProb(c.rng, g.dim, c.rng.below(NPPAT));
  if (ordered) init = valuesFrom(init);
  string hist = g.text() + (ordered ? "; OrderedSimplex(" : "; Simplex(") + (fromVec ? vrt::vecStr(init, 40) : string("dim")) + ")";
  vrt::describe(g.key() + ":history:" + (ordered ? "ordered" : "plain"), hist + " + " + str(len) + " operations");
  unique_ptr<Simplex> s;
  vrt::Outcome o = vrt::capture([&] { s = build(g, ordered, fromVec ? &init : nullptr); });
  if (!vrt::expect(o.returned() && s, "ctor.accepted", g.sig() + ":history", [&] { return hist + " => " + o.text(); })) return;
  OrderedSimplex* os = ordered ? static_cast<OrderedSimplex*>(s.get()) : nullptr;
  const string kind = ordered ? "ordered" : "plain";
  if (!checkState(*s, g, "history:ctor", hist)) return;
  if (os) checkValues(*os, g, "history:ctor", hist);
  bool recomputed = false;
  for (size_t step = 0; step < len && vrt::violationsInCase() == 0; ++step)
  {
    int k = static_cast<int>(c.rng.below(100));
    vector<double> tb = readTheta(*s);
    string opn;
    bool fires = true; // the operation certainly notifies the object (otherwise only when a parameter changed)
    if (k < 25 && g.dim >= 2)
    {
      // one parameter
      size_t i = c.rng.below(g.dim - 1);
      double v = genTheta(c.rng, 2, c.rng.below(NTHETA))[0];
      opn = "setParameterValue";
      string text = "setParameterValue(" + th(i + 1) + "," + str(v) + ")";
      hist += " ; " + text;
      vrt::step(text);
      o = vrt::capture([&] { s->setParameterValue(th(i + 1), v); });
      if (!vrt::expect(o.returned(), "update.accepted", g.sig() + ":history:" + opn, [&] { return hist + " => " + o.text(); })) return;
      vector<double> want = tb;
      want[i] = v;
      vrt::expect(readTheta(*s) == want, "update.parameters-hold-given", g.sig() + ":history:" + opn, [&] { return hist + " => parameters " + vrt::vecStr(readTheta(*s), 40) + " expected " + vrt::vecStr(want, 40); });
    }
    else if (k < 45 && g.dim >= 2)
    {
      // a subset through a list route
      ParameterList pl;
      vector<double> want = tb;
      string text;
      for (size_t i = 0; i + 1 < g.dim; ++i)
        if (c.rng.chance(0.5))
        {
          double v = genTheta(c.rng, 2, c.rng.below(NTHETA))[0];
          pl.addParameter(Parameter(g.name + th(i + 1), v));
          want[i] = v;
          text += th(i + 1) + "=" + str(v) + " ";
        }
      bool viaMatch = c.rng.chance(0.5);
      fires = !viaMatch;
      opn = viaMatch ? "matchParametersValues" : "setParametersValues";
      hist += " ; " + opn + "(" + text + ")";
      vrt::step(opn + "(" + text + ")");
      o = vrt::capture([&] { if (viaMatch) s->matchParametersValues(pl); else s->setParametersValues(pl); });
      if (!vrt::expect(o.returned(), "update.accepted", g.sig() + ":history:" + opn, [&] { return hist + " => " + o.text(); })) return;
      vrt::expect(readTheta(*s) == want, "update.parameters-hold-given", g.sig() + ":history:" + opn, [&] { return hist + " => parameters " + vrt::vecStr(readTheta(*s), 40) + " expected " + vrt::vecStr(want, 40); });
    }
    else if (k < 55 && g.dim >= 2)
    {
      vector<double> t = genTheta(c.rng, g.dim, c.rng.below(NTHETA));
      size_t route = c.rng.below(NROUTES);
      opn = string("full:") + ROUTES[route];
      fires = !(route == 1 || route == 5);
      hist += " ; all parameters " + vrt::vecStr(t, 40) + " via " + ROUTES[route];
      vrt::step(opn);
      o = applyTheta(*s, g, t, route, c.rng, hist, false);
      if (!vrt::expect(o.returned(), "update.accepted", g.sig() + ":history:" + opn, [&] { return hist + " => " + o.text(); })) return;
      vrt::expect(readTheta(*s) == t, "update.parameters-hold-given", g.sig() + ":history:" + opn, [&] { return hist + " => parameters " + vrt::vecStr(readTheta(*s), 40); });
    }
    else if (k < 80)
    {
      vector<double> q = genProb(c.rng, g.dim, c.rng.below(NPPAT));
      if (os) q = valuesFrom(q);
      opn = "setFrequencies";
      fires = false;
      hist += " ; setFrequencies(" + vrt::vecStr(q, 40) + ")";
      vrt::step("setFrequencies(" + vrt::vecStr(q, 40) + ")");
      o = vrt::capture([&] { if (os) os->setFrequencies(q); else s->setFrequencies(q); });
      if (!vrt::expect(o.returned(), "setFrequencies.accepted", g.sig() + ":history:" + kind, [&] { return hist + " => " + o.text(); })) return;
      if (os) checkValuesReturned(*os, g, q, "ordered.roundtrip", "history", hist);
      else
      {
        checkReturned(s->getFrequencies(), q, roundTripTol(g.method, q), "roundtrip.setFrequencies", g.sig() + ":history", hist, "roundtrip");
        checkInverse(*s, g, q, "history", hist);
      }
    }
    else if (k < 92 && g.dim >= 2 && (os || !g.allowNull) && (g.allowNull || c.rng.chance(0.4)))
    {
      // a vector the object cannot take (ordered: not non-increasing; open constraint: a zero entry): whatever the call does,
      // the object must stay a valid simplex whose frequencies follow its parameters - now and after later partial updates
      vector<double> q = genProb(c.rng, g.dim, c.rng.below(NPPAT));
      if (os)
      {
        q = valuesFrom(q);
        size_t i = c.rng.below(g.dim - 1);
        std::swap(q[i], q[g.dim - 1]);
        if (q[i] == q[g.dim - 1]) q[g.dim - 1] = q[0], q[0] = q[i];
      }
      else
      {
        size_t i = c.rng.below(g.dim), j = (i + 1 + c.rng.below(g.dim - 1)) % g.dim;
        q[j] += q[i];
        q[i] = 0;
      }
      opn = "rejected-setFrequencies";
      fires = false;
      hist += " ; setFrequencies(" + vrt::vecStr(q, 40) + ")";
      vrt::step("setFrequencies(" + vrt::vecStr(q, 40) + ")");
      o = vrt::capture([&] { if (os) os->setFrequencies(q); else s->setFrequencies(q); });
      hist += " " + o.text();
      vrt::tally(opn + ":" + (o.returned() ? "returned" : o.type));
    }
    else if (k < 92 && g.dim >= 2 && !g.allowNull)
    {
      // a value the open constraint excludes: whatever the call does, the object must stay a valid simplex
      size_t i = c.rng.below(g.dim - 1);
      static const double bad[] = { 0.0, 1.0, -0.25, 1.5, -1e-300 };
      double v = bad[c.rng.below(5)];
      bool direct = c.rng.chance(0.3);
      opn = direct ? "rejected-matchParametersValues" : "rejected-setParameterValue";
      string text = opn + "(" + th(i + 1) + "," + str(v) + ")";
      hist += " ; " + text;
      vrt::step(text);
      o = vrt::capture([&] {
          if (direct) { ParameterList pl; if (i > 0) pl.addParameter(Parameter(g.name + th(i), 0.4321)); pl.addParameter(Parameter(g.name + th(i + 1), v)); s->matchParametersValues(pl); }
          else s->setParameterValue(th(i + 1), v);
        });
      hist += " " + o.text();
      vrt::tally(opn + ":" + (o.returned() ? "returned" : o.type));
      fires = false;
    }
    else
    {
      // no-op notifications: nothing changed, so nothing may move beyond rounding
      opn = "fire-unchanged";
      hist += " ; fireParameterChanged(all, unchanged)";
      vrt::step("fireParameterChanged(unchanged)");
      o = vrt::capture([&] { s->fireParameterChanged(s->getParameters()); });
      if (!vrt::expect(o.returned(), "update.accepted", g.sig() + ":history:" + opn, [&] { return hist + " => " + o.text(); })) return;
      vrt::expect(readTheta(*s) == tb, "update.parameters-hold-given", g.sig() + ":history:" + opn, [&] { return hist + " => parameters changed"; });
    }
    if (!checkState(*s, g, "history:" + opn + ":" + kind, hist)) return;
    vector<double> tn = readTheta(*s);
    if (!inOpenCube(tn)) { vrt::tally("history-stopped:left-open-cube"); break; }
    // frequencies stored by a constructor are the given vector; once the object has been notified they are recomputed
    if (fires || tn != tb) recomputed = true;
    if (recomputed) checkForward(*s, g, "history:" + opn + ":" + kind, hist);
    else checkConsistent(*s, g, "history:" + opn + ":" + kind, hist);
    if (os) checkValues(*os, g, "history:" + opn, hist);
    vrt::cover(g.key() + ":history:" + kind + ":" + opn);
  }
  auditCount(a0);
}

// ------------------------------------------------------------------ group copy
struct Snap
{
  vector<double> p, t, v;
  size_t dim;
  unsigned short method;
  bool operator==(const Snap& o) const { return p == o.p && t == o.t && v == o.v && dim == o.dim && method == o.method; }
  string text() const { return "dim " + str(dim) + " method " + str(method) + " parameters " + vrt::vecStr(t, 40) + " frequencies " + vrt::vecStr(p, 40) + (v.empty() ? "" : " values " + vrt::vecStr(v, 40)); }
};
Snap snap(const Simplex& s)
{
  Snap x;
  x.p = s.getFrequencies();
  x.t = readTheta(s);
  x.dim = s.dimension();
  x.method = s.getMethod();
  const OrderedSimplex* os = dynamic_cast<const OrderedSimplex*>(&s);
  if (os) x.v = os->getFrequencies();
  return x;
}

// mutate an object thoroughly (all routes that change state)
vrt::Outcome mutate(Simplex& s, const Cfg& g, vrt::Rng& r, string& text)
{
  int k = static_cast<int>(r.below(4));
  if (g.dim < 2) k = 3;
  OrderedSimplex* os = dynamic_cast<OrderedSimplex*>(&s);
  return vrt::capture([&] {
      if (k == 0)
      {
        size_t i = r.below(g.dim - 1);
        double cur = s.getParameterValue(th(i + 1));
        double v = cur < 0.5 ? cur + 0.25 : cur - 0.25;
        text = "setParameterValue(" + th(i + 1) + "," + str(v) + ")";
        s.setParameterValue(th(i + 1), v);
      }
      else if (k == 1)
      {
        vector<double> t = genTheta(r, g.dim, 8);
        text = "all parameters " + vrt::vecStr(t, 40);
        size_t route = 1 + r.below(3);
        vrt::Outcome o = applyTheta(s, g, t, route, r, text, false);
        if (!o.returned()) throw Exception("applyTheta: " + o.text());
      }
      else if (k == 2)
      {
        size_t i = r.below(g.dim - 1);
        double cur = s.getParameterValue(th(i + 1));
        double v = cur < 0.5 ? cur + 0.125 : cur - 0.125;
        text = "getParameter(" + th(i + 1) + ")->setValue(" + str(v) + ") + fireParameterChanged";
        s.getParameter(th(i + 1))->setValue(v);
        s.fireParameterChanged(s.getParameters());
      }
      else
      {
        vector<double> q = genProb(r, g.dim, 7 + r.below(2));
        if (os) q = valuesFrom(q);
        text = "setFrequencies(" + vrt::vecStr(q, 40) + ")";
        if (os) os->setFrequencies(q); else s.setFrequencies(q);
      }
    });
}

void caseCopy(vrt::Case& c)
{
  vrt::installParameterAudit("audit.parameter");
  vrt::u64 a0 = vrt::parameterAudits();
  Cfg g = cfgFor(c, c.index);
  bool ordered = c.rng.chance(0.35);
  int kind = static_cast<int>(c.rng.below(5)); // 0 copy ctor, 1 clone, 2 assignment (same shape), 3 assignment (other shape), 4 vector growth
  static const char* KN[] = { "copy-ctor", "clone", "assign-same-shape", "assign-other-shape", "vector-growth" };
  const string cls = g.sig() + ":" + (ordered ? "ordered:" : "plain:") + KN[kind];
  const string ckey = g.key() + ":" + (ordered ? "ordered:" : "plain:") + KN[kind];
  // source in a non-default state
  vector<double> p = genProb(c.rng, g.dim, c.rng.below(NPPAT));
  if (ordered) p = valuesFrom(p);
  bool viaTheta = c.rng.chance(0.5);
  string hist = g.text() + (ordered ? "; OrderedSimplex(" : "; Simplex(") + vrt::vecStr(p, 40) + ")";
  vrt::describe(ckey, hist);
  unique_ptr<Simplex> a;
  vrt::Outcome o = vrt::capture([&] { a = build(g, ordered, &p); });
  if (!vrt::expect(o.returned() && a, "ctor.accepted", cls, [&] { return hist + " => " + o.text(); })) return;
  if (viaTheta && g.dim >= 2)
  {
    vector<double> t = genTheta(c.rng, g.dim, c.rng.chance(0.5) ? 0 : 8);
    hist += " ; parameters " + vrt::vecStr(t, 40);
    o = applyTheta(*a, g, t, c.rng.below(NROUTES), c.rng, hist, false);
    if (!vrt::expect(o.returned(), "update.accepted", cls, [&] { return hist + " => " + o.text(); })) return;
  }
  Snap sa = snap(*a);
  unique_ptr<Simplex> b;
  vector<Simplex> vec;
  vector<OrderedSimplex> ovec;
  Simplex* bp = nullptr;
  vrt::step(KN[kind]);
  o = vrt::capture([&] {
      switch (kind)
      {
      case 0:
        if (ordered) b.reset(new OrderedSimplex(static_cast<const OrderedSimplex&>(*a))); else b.reset(new Simplex(*a));
        break;
      case 1: b.reset(a->clone()); break;
      case 2:
      case 3:
      {
        Cfg h = g;
        if (kind == 3) { h.dim = g.dim == 4 ? 7 : 4; h.method = static_cast<unsigned short>(1 + g.method % 3); h.name = "other."; }
        vector<double> q = genProb(c.rng, h.dim, c.rng.below(NPPAT));
        if (ordered) q = valuesFrom(q);
        b = build(h, ordered, &q);
        if (ordered) static_cast<OrderedSimplex&>(*b) = static_cast<const OrderedSimplex&>(*a); else *b = *a;
        break;
      }
      default:
        if (ordered)
        {
          ovec.push_back(static_cast<const OrderedSimplex&>(*a));
          for (int i = 0; i < 5; ++i) ovec.push_back(OrderedSimplex(3, 1));
          bp = &ovec[0];
        }
        else
        {
          vec.push_back(*a);
          for (int i = 0; i < 5; ++i) vec.push_back(Simplex(3, 1));
          bp = &vec[0];
        }
      }
    });
  if (!vrt::expect(o.returned(), "copy.accepted", cls, [&] { return hist + " ; " + KN[kind] + " => " + o.text(); })) return;
  if (!bp) bp = b.get();
  // clone() of an OrderedSimplex is not declared by the class: the statement only asks that a copy is independent of its
  // source, so the clone is judged as the (plain) Simplex it is
  bool sliced = ordered && kind == 1 && dynamic_cast<OrderedSimplex*>(bp) == nullptr;
  if (sliced) vrt::tally("clone-of-ordered-is-plain-simplex");
  Snap sb = snap(*bp);
  if (sliced) { sb.v = sa.v; }
  vrt::expect(sb == sa, "copy.equal", cls, [&] { return hist + " ; " + KN[kind] + " => copy holds " + sb.text() + " but the source holds " + sa.text(); });
  if (vrt::violationsInCase()) return;

  // mutate the copy: the source must not move; then mutate the source: the copy must not move
  for (int round = 0; round < 2; ++round)
  {
    Simplex& target = round == 0 ? *bp : *a;
    Simplex& other = round == 0 ? *a : *bp;
    Snap before = snap(other);
    vector<double> tbt = readTheta(target);
    string text;
    o = mutate(target, g, c.rng, text);
    string h2 = hist + " ; " + KN[kind] + " ; " + (round == 0 ? "copy." : "source.") + text;
    hist = h2;
    if (!vrt::expect(o.returned(), "update.accepted", cls + ":mutate", [&] { return h2 + " => " + o.text(); })) return;
    Snap after = snap(other);
    vrt::expect(after == before, "copy.independent", cls + (round == 0 ? ":copy-mutated" : ":source-mutated"),
        [&] { return h2 + " => the other object changed from " + before.text() + " to " + after.text(); });
    checkState(target, g, string("copy:") + KN[kind] + ":mutated", h2);
    checkAfterMaybeFire(target, g, tbt, string("copy:") + KN[kind] + ":mutated", h2);
    if (OrderedSimplex* os = dynamic_cast<OrderedSimplex*>(&target)) checkValues(*os, g, string("copy:") + KN[kind] + ":mutated", h2);
    if (vrt::violationsInCase()) return;
  }
  // the copy outlives its source
  if (kind != 4)
  {
    Snap before = snap(*bp);
    a.reset();
    vrt::expect(snap(*bp) == before, "copy.independent", cls + ":source-destroyed", [&] { return hist + " => the copy changed when its source was destroyed"; });
    vector<double> q = genProb(c.rng, g.dim, c.rng.below(NPPAT));
    OrderedSimplex* os = dynamic_cast<OrderedSimplex*>(bp);
    if (os) q = valuesFrom(q);
    o = vrt::capture([&] { if (os) os->setFrequencies(q); else bp->setFrequencies(q); });
    string h3 = hist + " ; source destroyed ; copy.setFrequencies(" + vrt::vecStr(q, 40) + ")";
    if (vrt::expect(o.returned(), "setFrequencies.accepted", cls + ":source-destroyed", [&] { return h3 + " => " + o.text(); }))
    {
      if (os) checkValuesReturned(*os, g, q, "ordered.roundtrip", string("copy:") + KN[kind], h3);
      else checkReturned(bp->getFrequencies(), q, roundTripTol(g.method, q), "roundtrip.setFrequencies", cls + ":source-destroyed", h3, "roundtrip");
      checkState(*bp, g, string("copy:") + KN[kind] + ":source-destroyed", h3);
    }
  }
  vrt::cover(ckey);
  auditCount(a0);
}

// ------------------------------------------------------------------ group rename: the object is re-configured between two uses
// The namespace of the parameters is changed (setNamespace) at every stage of a history: before the first call of the
// setter, between two calls, before / after a copy, clone or assignment; every clause of the statement is judged again after
// each stage with the namespace the object has *now* (the statement holds for every configuration of the object, and the
// namespace is documented as a mere prefix of the parameter names).
const char* NS_REL[] = { "empty", "dotted", "extends-old", "prefix-of-old", "same", "no-separator", "parameter-like" };
const size_t NNSREL = sizeof(NS_REL) / sizeof(NS_REL[0]);

string newNamespace(vrt::Rng& r, const string& cur, size_t rel)
{
  switch (rel)
  {
  case 0: return cur.empty() ? string("N.") : string(); // to (or, when already there, from) the empty namespace
  case 1:
  {
    static const char* d[] = { "second.", "a.b.c.", "hmm.2.Simplex.", "Simplex." };
    string n = d[r.below(4)];
    return n == cur ? string("third.") : n;
  }
  case 2:
  {
    static const char* e[] = { "B.", "1.", "Simplex.", "x" };
    return cur + e[r.below(4)]; // the old namespace is a prefix of the new one
  }
  case 3: // the new namespace is a proper prefix of the old one
    if (cur.size() >= 2) return cur.substr(0, 1 + r.below(cur.size() - 1));
    return cur.size() == 1 ? string() : string("x");
  case 4: return cur;
  case 5:
  {
    static const char* f[] = { "ns", "X", "p_", "Simplex" };
    string n = f[r.below(4)];
    return n == cur ? string("q_") : n;
  }
  default:
  {
    static const char* h[] = { "theta", "theta1", "theta1.", "theta1theta" };
    string n = h[r.below(4)];
    return n == cur ? string("theta2") : n;
  }
  }
}

vector<string> namesOf(const Simplex& s) { return s.getParameters().getParameterNames(); }

void caseRename(vrt::Case& c)
{
  vrt::installParameterAudit("audit.parameter");
  vrt::u64 a0 = vrt::parameterAudits();
  Cfg g = cfgFor(c, c.index);
  const size_t block = static_cast<size_t>(c.index / NCOMBO);
  const size_t pre = block % 3;                          // calls of the setter before the first change of namespace
  const int copyKind = static_cast<int>((block / 3) % 5); // 0 none, 1 copy ctor, 2 clone, 3 assignment (same shape), 4 assignment (other shape)
  static const char* CK[] = { "no-copy", "copy-ctor", "clone", "assign-same-shape", "assign-other-shape" };
  const int copyPos = static_cast<int>(c.rng.below(3));
  static const char* CP[] = { "copy-before-setNamespace", "copy-after-setNamespace", "copy-after-setNamespace+set" };
  const bool ordered = c.rng.chance(0.3);
  const bool fromVec = c.rng.chance(0.5);
  const size_t rel0 = c.rng.below(NNSREL);

  // plan of the history: F setFrequencies, R setNamespace, C copy (the copy becomes the working object), U parameter update
  string plan(pre, 'F');
  if (copyKind && copyPos == 0) plan += 'C';
  plan += 'R';
  if (copyKind && copyPos == 1) plan += 'C';
  plan += 'F';
  if (copyKind && copyPos == 2) plan += 'C';
  if (c.rng.chance(0.5)) plan += 'U';
  if ((copyKind && copyPos == 2) || c.rng.chance(0.5)) plan += "RF";
  if (c.rng.chance(0.5)) plan += 'F';
  if (c.rng.chance(0.3)) plan += "RU";

  vector<double> init = genProb(c.rng, g.dim, c.rng.below(NPPAT));
  if (ordered) init = valuesFrom(init);
  const string ctorName = string(ordered ? "OrderedSimplex(" : "Simplex(") + (fromVec ? "vector" : "dim") + ")";
  string hist = g.text() + (ordered ? "; OrderedSimplex(" : "; Simplex(") + (fromVec ? vrt::vecStr(init, 40) : string("dim")) + ")";
  const string ckey = g.key() + ":rename:" + ctorName + ":pre" + str(pre) + ":" + CK[copyKind] + (copyKind ? string(":") + CP[copyPos] : string()) + ":" + NS_REL[rel0];
  vrt::describe(g.key() + ":rename:" + ctorName + ":" + CK[copyKind], hist + " + plan " + plan + " (" + CK[copyKind] + (copyKind ? string(", ") + CP[copyPos] : string()) + ")");

  unique_ptr<Simplex> s, src;
  Cfg gsrc = g;
  Snap srcSnap;
  vector<string> srcNames;
  vrt::Outcome o = vrt::capture([&] { s = build(g, ordered, fromVec ? &init : nullptr); });
  if (!vrt::expect(o.returned() && s, "ctor.accepted", g.sig() + ":rename:" + ctorName, [&] { return hist + " => " + o.text(); })) return;
  if (!checkState(*s, g, "rename:ctor", hist)) return;

  // the vector the getter has to return now (none after a parameter update or a dimension constructor) and the clause it is judged by
  bool haveGiven = fromVec;
  vector<double> given = init;
  const char* givenClause = ordered ? "ordered.roundtrip-ctor" : "roundtrip.ctor-returns-given";
  bool recomputed = false; // has the object been notified since a constructor stored its vector
  bool renamed = false, isCopy = false, judgedAfterRename = false;
  size_t nRename = 0;

  auto stage = [&] { return string(renamed ? "after-setNamespace" : "before-setNamespace") + (isCopy ? ":on-copy" : ""); };
  // the getter still returns the vector that was given last
  auto judgeGiven = [&](const string& suffix) {
    if (!haveGiven) return;
    OrderedSimplex* os = dynamic_cast<OrderedSimplex*>(s.get());
    if (os) checkValuesReturned(*os, g, given, givenClause, "rename:" + stage() + suffix, hist);
    else checkReturned(s->getFrequencies(), given, roundTripTol(g.method, given), givenClause, g.sig() + ":rename:" + stage() + suffix, hist, "roundtrip");
  };
  judgeGiven(":ctor");

  for (size_t k = 0; k < plan.size() && vrt::violationsInCase() == 0; ++k)
  {
    const char op = plan[k];
    OrderedSimplex* os = dynamic_cast<OrderedSimplex*>(s.get());
    vector<double> tb = readTheta(*s);
    string opn;
    bool fires = false;
    if (op == 'F')
    {
      vector<double> q = genProb(c.rng, g.dim, c.rng.below(NPPAT));
      if (os) q = valuesFrom(q);
      opn = "setFrequencies";
      hist += " ; setFrequencies(" + vrt::vecStr(q, 40) + ")";
      vrt::step("setFrequencies(" + vrt::vecStr(q, 40) + ")");
      o = vrt::capture([&] { if (os) os->setFrequencies(q); else s->setFrequencies(q); });
      if (!vrt::expect(o.returned(), "setFrequencies.accepted", g.sig() + ":" + stage(), [&] { return hist + " => " + o.text(); })) return;
      if (!checkState(*s, g, "rename:" + opn + ":" + stage(), hist)) return;
      haveGiven = true;
      given = q;
      givenClause = os ? "ordered.roundtrip" : "roundtrip.setFrequencies";
      judgeGiven("");
      if (!os) checkInverse(*s, g, q, "rename:" + stage(), hist);
      if (renamed && vrt::violationsInCase() == 0 && !judgedAfterRename) { judgedAfterRename = true; vrt::cover(ckey); }
    }
    else if (op == 'R')
    {
      size_t rel = nRename == 0 ? rel0 : c.rng.below(NNSREL);
      ++nRename;
      string ns = newNamespace(c.rng, g.name, rel);
      opn = "setNamespace";
      hist += string(" ; setNamespace('") + ns + "' [" + NS_REL[rel] + "])";
      vrt::step("setNamespace('" + ns + "')");
      o = vrt::capture([&] { s->setNamespace(ns); });
      // the statement does not speak of the outcome of the renaming itself: an exception ends the case unjudged
      if (!o.returned()) { vrt::tally("rename-unjudged:setNamespace-raised:" + o.type); break; }
      g.name = ns;
      renamed = true;
      vrt::expect(s->getNamespace() == ns, "param.names", g.sig() + ":rename:getNamespace", [&] { return hist + " => getNamespace() = '" + s->getNamespace() + "'"; });
      if (!checkState(*s, g, "rename:" + opn + ":" + stage(), hist)) return;
      judgeGiven(":kept");
      vrt::tally(string("rename:relation:") + NS_REL[rel]);
    }
    else if (op == 'U')
    {
      if (g.dim < 2) continue;
      vector<double> t = genTheta(c.rng, g.dim, c.rng.chance(0.5) ? 0 : c.rng.below(NTHETA));
      size_t route = c.rng.below(NROUTES);
      opn = string("full:") + ROUTES[route];
      fires = !(route == 1 || route == 5);
      hist += " ; all parameters " + vrt::vecStr(t, 40) + " via " + ROUTES[route];
      vrt::step(opn);
      o = applyTheta(*s, g, t, route, c.rng, hist, false);
      if (!vrt::expect(o.returned(), "update.accepted", g.sig() + ":" + stage() + ":" + ROUTES[route], [&] { return hist + " => " + o.text(); })) return;
      vrt::expect(readTheta(*s) == t, "update.parameters-hold-given", g.sig() + ":" + stage() + ":" + ROUTES[route], [&] { return hist + " => parameters " + vrt::vecStr(readTheta(*s), 40); });
      haveGiven = false;
      if (!checkState(*s, g, "rename:" + opn + ":" + stage(), hist)) return;
    }
    else
    {
      // copy / clone / assignment: the copy becomes the working object, the source is kept and watched
      opn = CK[copyKind];
      hist += string(" ; ") + opn;
      vrt::step(opn);
      Snap sa = snap(*s);
      unique_ptr<Simplex> b;
      o = vrt::capture([&] {
          if (copyKind == 1) { if (os) b.reset(new OrderedSimplex(*os)); else b.reset(new Simplex(*s)); }
          else if (copyKind == 2) b.reset(s->clone());
          else
          {
            // the target of the assignment has a namespace and a history of its own (constructor, setter, renaming, setter)
            Cfg h = g;
            h.name = "other.";
            if (copyKind == 4) { h.dim = g.dim == 4 ? 7 : 4; h.method = static_cast<unsigned short>(1 + g.method % 3); }
            vector<double> q0 = genProb(c.rng, h.dim, c.rng.below(NPPAT)), q1 = genProb(c.rng, h.dim, c.rng.below(NPPAT)), q2 = genProb(c.rng, h.dim, c.rng.below(NPPAT));
            if (os) { q0 = valuesFrom(q0); q1 = valuesFrom(q1); q2 = valuesFrom(q2); }
            b = build(h, os != nullptr, &q0);
            bool tr = c.rng.chance(0.5);
            if (os)
            {
              OrderedSimplex& ob = static_cast<OrderedSimplex&>(*b);
              ob.setFrequencies(q1);
              if (tr) { ob.setNamespace("target."); ob.setFrequencies(q2); }
              ob = *os;
            }
            else
            {
              b->setFrequencies(q1);
              if (tr) { b->setNamespace("target."); b->setFrequencies(q2); }
              *b = *s;
            }
          }
        });
      if (!vrt::expect(o.returned() && b, "copy.accepted", g.sig() + ":rename:" + opn, [&] { return hist + " => " + o.text(); })) return;
      bool sliced = os && dynamic_cast<OrderedSimplex*>(b.get()) == nullptr; // clone() of an OrderedSimplex is a plain Simplex (see caseCopy)
      if (sliced) vrt::tally("clone-of-ordered-is-plain-simplex");
      if (!checkState(*b, g, "rename:" + opn + ":" + stage(), hist)) return;
      Snap sb = snap(*b);
      if (sliced) sb.v = sa.v;
      vrt::expect(sb == sa, "copy.equal", g.sig() + ":rename:" + opn, [&] { return hist + " => copy holds " + sb.text() + " but the source holds " + sa.text(); });
      src = std::move(s);
      s = std::move(b);
      gsrc = g;
      srcSnap = snap(*src);
      srcNames = namesOf(*src);
      isCopy = true;
      if (sliced) haveGiven = false; // the value vector is lost with the slicing; the next setter call gives a new vector
      judgeGiven(":kept");
    }
    if (vrt::violationsInCase()) break;
    // frequencies follow the parameters the object holds now
    vector<double> tn = readTheta(*s);
    if (fires || tn != tb) recomputed = true;
    if (recomputed) checkForward(*s, g, "rename:" + opn, hist);
    else checkConsistent(*s, g, "rename:" + opn, hist);
    if (OrderedSimplex* os2 = dynamic_cast<OrderedSimplex*>(s.get())) checkValues(*os2, g, "rename:" + opn, hist);
    // whatever happens to the copy (renaming included) leaves the source alone
    if (src && op != 'C')
      vrt::expect(snap(*src) == srcSnap && namesOf(*src) == srcNames, "copy.independent", g.sig() + ":rename:source-after-copy." + opn.substr(0, opn.find(':')),
          [&] { return hist + " => the source changed from " + srcSnap.text() + " names " + vrt::vecStr(srcNames, 4) + " to " + snap(*src).text() + " names " + vrt::vecStr(namesOf(*src), 4); });
  }

  // the source of the copy goes on working under its own namespace, and does not disturb the copy
  if (src && vrt::violationsInCase() == 0)
  {
    Snap before = snap(*s);
    vector<string> namesBefore = namesOf(*s);
    OrderedSimplex* os = dynamic_cast<OrderedSimplex*>(src.get());
    vector<double> q = genProb(c.rng, g.dim, c.rng.below(NPPAT));
    if (os) q = valuesFrom(q);
    string h3 = hist + " ; source[" + gsrc.name + "].setFrequencies(" + vrt::vecStr(q, 40) + ")";
    vrt::step("source.setFrequencies");
    o = vrt::capture([&] { if (os) os->setFrequencies(q); else src->setFrequencies(q); });
    if (vrt::expect(o.returned(), "setFrequencies.accepted", g.sig() + ":rename:source-of-copy", [&] { return h3 + " => " + o.text(); }) && checkState(*src, gsrc, "rename:source-of-copy", h3))
    {
      if (os) checkValuesReturned(*os, gsrc, q, "ordered.roundtrip", "rename:source-of-copy", h3);
      else checkReturned(src->getFrequencies(), q, roundTripTol(g.method, q), "roundtrip.setFrequencies", g.sig() + ":rename:source-of-copy", h3, "roundtrip");
      vrt::expect(snap(*s) == before && namesOf(*s) == namesBefore, "copy.independent", g.sig() + ":rename:copy-after-source.setFrequencies", [&] { return h3 + " => the copy changed from " + before.text() + " to " + snap(*s).text(); });
    }
  }
  auditCount(a0);
}
} // namespace

int main(int argc, char** argv)
{
  const vrt::u64 C = NCOMBO; // 120 combinations (method, listed dimension, constraint)
  vector<vrt::Group> groups = {
    { "forward", C * 48, C * 48 * 40, caseForward, 600, false },
    { "roundtrip", C * 44, C * 44 * 40, caseRoundTrip, 600, false },
    { "ordered", C * 48, C * 48 * 30, caseOrdered, 600, false },
    { "history", C * 30, C * 30 * 40, caseHistory, 600, false },
    { "copy", C * 16, C * 16 * 30, caseCopy, 600, false },
    { "rename", C * 15, C * 15 * 30, caseRename, 600, false },
  };
  vrt::Meta meta;
  meta.rule = "Case index -> (method 1..3, dimension, allowNull): every block of 120 consecutive indices enumerates methods x dimensions {1..17,31,32,33} x {open, closed constraint}; "
      "every fourth block replaces the dimension by a random one in 18..30; the block number selects the input pattern. forward: a parameter vector of one of 12 patterns (uniform, all / one / "
      "alternating entries within 1e-9 of an end, extreme values down to the smallest normal double and up to 1-2^-53, 0.5, log-uniform) given through one of 6 update routes to an object "
      "built in one of 3 ways; roundtrip: a probability vector (entries >= 1e-9, 11 patterns: Dirichlet, uniform, 9 decades, tiny entries first / last / alternating / all but two, one dominant, "
      "ascending, descending, geometric) through the constructor or setFrequencies after 3 kinds of prior history; ordered: the same two families for OrderedSimplex plus an unsorted vector; "
      "history: 2..8 random operations on one object; copy: copy constructor / clone / assignment / vector growth, then mutation of either side; rename: a history of setFrequencies / setNamespace / "
      "copy / parameter updates in which the namespace changes (to / from the empty one, dotted, extending or truncating the old one, the same, without separator, parameter-like) after 0, 1 or 2 "
      "calls of the setter, with a copy constructor / clone / assignment before or after the change, every clause judged after each stage under the namespace the object has then. A class key = (method, relation of the dimension "
      "to the powers of two {1, 2^k, 2^k+1, 2^k-1, other}, constraint, group, pattern, route): every key involves a real evaluation of a coding, none is trivial.";
  meta.assumptions = {
    "parameter values are normal doubles in (0,1): from the smallest normal double up to 1-2^-53 (denormal values are not generated)",
    "probability vectors have entries >= 1e-9 and are normalised in long double (|sum-1| of a few ulps); the measured |sum-1| of the given vector is added to the tolerance",
    "the reference for the three codings is the formula of Simplex.h evaluated in long double; 'to rounding' = first order rounding error bound of the coding for the given input times 8 (notes/C19.md)",
    "frequencies below 1e-290, and for the local ratio coding below 1e-322 times the largest later growth of the running product, are not judged relatively (underflow of intermediate products is accepted)",
    "method 0 (no parametrisation) is outside the quantifier and not exercised; dimension 0 neither",
    "injectivity is judged where the documented map moves a representable entry (>= 1e-280) by at least 1e-6 relative; parameter recovery only when every frequency is >= 1e-9",
    "after a call that raised, only the validity and the consistency of the object are judged (atomicity of bulk updates is C02)",
  };
  meta.requiredClauses = { "prob.nonnegative", "prob.sums-to-one", "param.inside-constraint", "param.constraint-kind", "forward.formula", "inverse.formula", "roundtrip.ctor-returns-given",
                           "roundtrip.recomputed", "roundtrip.setFrequencies", "injective.perturbation-visible", "injective.parameters-recovered", "copy.independent", "copy.equal",
                           "history.independent", "ordered.nonincreasing", "ordered.sums-to-one", "ordered.roundtrip", "ordered.roundtrip-ctor", "audit.parameter", "state.frequencies-match-parameters" };
  return vrt::run(argc, argv, "C19", groups, meta);
}
