#!/usr/bin/env python3-vt
"""C08 offline oracle: compares the event log `fn,args,result` written by harness/C08.cpp with independent
high-precision evaluations.

  python3-vt oracle/C08_oracle.py <logdir> <out.json> [--jobs N] [--tier quick|thorough]

Bulk reference: scipy.special (double precision, vectorised).  A point where the library and scipy disagree by
more than the tolerance is only a *suspect*: it becomes a violation when the 50-digit mpmath evaluation confirms
it (scipy itself is not always accurate in far tails).  Independently a deterministic sample of every function's
records is judged against mpmath directly.

Tolerances = accuracies the implementation documents (see harness/C08.cpp header):
  pNorm 1e-12; pBeta 1e-12 + 4 eps max|lnGamma|; gamma-type cdfs 2e-8;
  quantiles through |P_ref(q(p)) - p|: qNorm 1e-7; qChisq/qGamma 1e-6 * q*pdf(q) + 4e-8; qBeta 1e-12*pdf + cdf
  accuracy with q allowed to move by 4 ulp (of q, and of 1 in the swapped tail).
"""
import json
import math
import os
import signal
import sys
import time
import zlib
from multiprocessing import Pool

import numpy as np
import scipy.special as sp
import mpmath as mp

mp.mp.dps = 50
EPS = 2.220446049250313e-16
TOL_N = 1e-12
TOL_G = 2e-8
TOL_QN = 1e-7
NARGS = {"pNorm": 1, "pNorm3": 3, "qNorm": 1, "qNorm3": 3, "pGamma": 3, "qGamma": 3, "pChisq": 2, "qChisq": 2,
         "pBeta": 3, "qBeta": 3, "incompleteGamma": 3, "incompleteBeta": 3, "lnBeta": 2, "lnGamma": 1}
CDFS = ("pNorm", "pNorm3", "pGamma", "pChisq", "incompleteGamma", "pBeta", "incompleteBeta", "lnBeta", "lnGamma")


# ---------------------------------------------------------------- structural regions (mirror of the harness labels)
def region_norm(z):
    y = abs(z)
    if y != y:
        return "nan"
    if y <= 0.67448975:
        return "central"
    if y <= math.sqrt(32.0):
        return "mid"
    if -37.5193 < z < 8.2924:
        return "tail-lower" if z < 0 else "tail-upper"
    return "saturated"


def region_gamma(y, alpha):
    if y != y or alpha != alpha:
        return "nan"
    if y == math.inf:
        return "cf:x=inf"
    if y >= 1e100:
        return "cf:x>=1e100"
    if y > 1 and y >= alpha:
        return "cf"
    return "series"


def region_beta(x, a, b):
    if x <= 0 or x >= 1:
        return "end"
    if b * x <= 1.0 and x <= 0.95:
        return "ps"
    flag = x > a / (a + b)
    if flag:
        a, b = b, a
        x = 1 - x
    if flag and b * x <= 1.0 and x <= 0.95:
        return "ps:swap"
    y = x * (a + b - 2.0) - (a - 1.0)
    return ("cf1" if y < 0 else "cf2") + (":swap" if flag else "")


def region_qchisq(p, v):
    if not (0.000002 <= p <= 0.999998):
        return "p-outside-documented"
    if v < -1.24 * math.log(p):
        return "start-smallp"
    if v <= 0.32:
        return "start-smallv"
    return "start-wilson-hilferty"


def region_qbeta(p, a, b):
    pp, qq = (a, b) if p <= 0.5 else (b, a)
    return ("lower" if p <= 0.5 else "upper") + (":init-cornish" if pp > 1 and qq > 1 else ":init-other")


def region_of(fn, a):
    if fn == "pNorm":
        return region_norm(a[0])
    if fn == "pNorm3":
        return region_norm((a[0] - a[1]) / a[2])
    if fn in ("qNorm", "qNorm3"):
        return "lower" if a[0] < 0.5 else "upper"
    if fn == "pGamma":
        return region_gamma(a[0] * a[2], a[1])
    if fn == "pChisq":
        return region_gamma(a[0] / 2, a[1] / 2)
    if fn == "incompleteGamma":
        return region_gamma(a[0], a[1])
    if fn == "qGamma":
        return region_qchisq(a[0], 2 * a[1])
    if fn == "qChisq":
        return region_qchisq(a[0], a[1])
    if fn in ("pBeta", "incompleteBeta"):
        return region_beta(a[0], a[1], a[2])
    if fn == "qBeta":
        return region_qbeta(a[0], a[1], a[2])
    return "any"


# ---------------------------------------------------------------- log
def read_logs(logdir):
    recs = {fn: [] for fn in NARGS}   # fn -> list of (a0,a1,a2,result,group,idx)
    nfiles = nbad = 0
    fh = float.fromhex
    for name in sorted(os.listdir(logdir)):
        if not name.endswith(".c08log"):
            continue
        nfiles += 1
        group, idx = "?", 0
        with open(os.path.join(logdir, name), "r", errors="replace") as f:
            for line in f:
                p = line.rstrip("\n").split(",")
                try:
                    if p[0] == "@":
                        group, idx = p[1], int(p[2])
                        continue
                    fn = p[0]
                    n = NARGS[fn]
                    a = [fh(t) for t in p[1].split(";")]
                    if len(a) != n or len(p) != 3:
                        raise ValueError
                    r = fh(p[2])
                    while len(a) < 3:
                        a.append(0.0)
                    recs[fn].append((a[0], a[1], a[2], r, group, idx))
                except (KeyError, ValueError, IndexError):
                    nbad += 1   # a line cut by a killed child
    return recs, nfiles, nbad


# ---------------------------------------------------------------- tolerances / scipy references (vectorised)
def tol_beta(a, b):
    L = np.maximum(np.abs(sp.gammaln(a)), np.maximum(np.abs(sp.gammaln(b)), np.abs(sp.gammaln(a + b))))
    return 1e-12 + 4 * EPS * L


def xpdf_gamma(y, a):
    with np.errstate(all="ignore"):
        r = np.exp(a * np.log(y) - y - sp.gammaln(a))
    return np.where(y > 0, r, 0.0)


def pdf_beta(x, a, b):
    with np.errstate(all="ignore"):
        r = np.exp((a - 1) * np.log(x) + (b - 1) * np.log1p(-x) - sp.betaln(a, b))
    return r


def qbeta_delta(q, p):
    return 4 * EPS * q + np.where(p > 0.5, 4 * EPS, 0.0) + 1e-300


def judge_scipy(fn, A, R):
    """returns (judged mask, err, tol): err > tol (or NaN) = suspect"""
    a0, a1, a2 = A[:, 0], A[:, 1], A[:, 2]
    with np.errstate(all="ignore"):
        if fn == "pNorm":
            m = ~np.isnan(a0)
            return m, np.abs(R - sp.ndtr(a0)), np.full(len(R), TOL_N)
        if fn == "pNorm3":
            m = a2 > 0
            return m, np.abs(R - sp.ndtr((a0 - a1) / a2)), np.full(len(R), TOL_N)
        if fn == "qNorm":
            m = (a0 > 0) & (a0 < 1)
            return m, np.abs(sp.ndtr(R) - a0), np.full(len(R), TOL_QN)
        if fn == "qNorm3":
            m = (a0 > 0) & (a0 < 1) & (a2 > 0)
            z = (R - a1) / a2
            return m, np.abs(sp.ndtr(z) - a0), TOL_QN + 0.4 * 8 * EPS * (np.abs(a1) / a2 + np.abs(z))
        if fn in ("pGamma", "pChisq", "incompleteGamma"):
            if fn == "pGamma":
                al, y = a1, a0 * a2
                m = (a1 > 0) & (a2 > 0) & (a0 >= 0)
            elif fn == "pChisq":
                al, y = a1 / 2, a0 / 2
                m = (a1 > 0) & (a0 >= 0)
            else:
                al, y = a1, a0
                m = (a1 > 0) & (a0 >= 0)
            return m, np.abs(R - sp.gammainc(np.where(m, al, 1.0), np.where(m, y, 1.0))), np.full(len(R), TOL_G)
        if fn in ("qChisq", "qGamma"):
            if fn == "qChisq":
                al, y = a1 / 2, R / 2
                m = a1 > 0
            else:
                al, y = a1, R * a2
                m = (a1 > 0) & (a2 > 0)
            # outside the documented range 0.000002 < p < 0.999998 (boundary included) the error signal is expected and
            # judged in-process; a value returned there is judged like any other
            m = m & (a0 > 0) & (a0 < 1) & ~(((a0 <= 0.000002) | (a0 >= 0.999998)) & ~(R >= 0))
            ys = np.where(m & (y >= 0), y, 1.0)
            als = np.where(m, al, 1.0)
            err = np.abs(sp.gammainc(als, ys) - a0)
            err = np.where(m & ~(y >= 0), np.inf, err)   # negative / NaN quantile inside the documented range
            return m, err, 1e-6 * xpdf_gamma(ys, als) + 2 * TOL_G
        if fn in ("pBeta", "incompleteBeta"):
            m = (a1 > 0) & (a2 > 0) & (a0 >= 0) & (a0 <= 1)
            return m, np.abs(R - sp.betainc(np.where(m, a1, 1.0), np.where(m, a2, 1.0), np.where(m, a0, 0.5))), tol_beta(np.where(m, a1, 1.0), np.where(m, a2, 1.0))
        if fn == "qBeta":
            m = (a0 > 0) & (a0 < 1) & (a1 > 0) & (a2 > 0)
            a, b = np.where(m, a1, 1.0), np.where(m, a2, 1.0)
            inr = (R >= 0) & (R <= 1)
            q = np.where(inr, R, 0.5)
            d = qbeta_delta(q, a0)
            lo = sp.betainc(a, b, np.clip(q - d, 0, 1))
            hi = sp.betainc(a, b, np.clip(q + d, 0, 1))
            err = np.maximum(0, np.maximum(lo - a0, a0 - hi))
            err = np.where(inr, err, np.inf)
            pdfc = pdf_beta(np.clip(q, 1e-300, 1 - EPS / 2), a, b)
            tol = tol_beta(a, b) + 3e-12 + 1e-12 * np.minimum(np.nan_to_num(pdfc, nan=1e4, posinf=1e4), 1e4)
            return m, err, tol
        if fn == "lnBeta":
            m = (a0 > 0) & (a1 > 0)
            a, b = np.where(m, a0, 1.0), np.where(m, a1, 1.0)
            sc = 1 + np.abs(sp.gammaln(a)) + np.abs(sp.gammaln(b)) + np.abs(sp.gammaln(a + b))
            return m, np.abs(R - sp.betaln(a, b)), 1e-13 * sc
        if fn == "lnGamma":
            m = a0 > 0
            ref = sp.gammaln(np.where(m, a0, 1.0))
            return m, np.abs(R - ref), 1e-13 * (1 + np.abs(ref))
    raise KeyError(fn)


# ---------------------------------------------------------------- mpmath references (one record)
class Timeout(Exception):
    pass


def _alarm(_s, _f):
    raise Timeout()


def M(x):
    if x == math.inf:
        return mp.inf
    if x == -math.inf:
        return -mp.inf
    return mp.mpf(x)


def mp_gamma_p(al, y):
    """regularised lower incomplete gamma P(al, y), al > 0, y >= 0 (mpf)"""
    if y == 0:
        return mp.mpf(0)
    if y == mp.inf:
        return mp.mpf(1)
    if y > al and (y - (al - 1) * mp.log(y) + mp.loggamma(al)) > 200:
        return mp.mpf(1)    # upper tail below e^-200
    if y < al + 1:
        return mp.gammainc(al, 0, y, regularized=True)
    return 1 - mp.gammainc(al, y, mp.inf, regularized=True)


def mp_beta_i(a, b, x):
    if x <= 0:
        return mp.mpf(0)
    if x >= 1:
        return mp.mpf(1)
    if x <= a / (a + b):
        return mp.betainc(a, b, 0, x, regularized=True)
    return 1 - mp.betainc(b, a, 0, 1 - x, regularized=True)


def mp_judge(task):
    """task = (fn, a0, a1, a2, r) -> (err, tol, reftext) judged against mpmath; None on failure"""
    fn, a0, a1, a2, r = task
    old = signal.signal(signal.SIGALRM, _alarm)
    signal.alarm(120)
    try:
        R_ = M(r)
        if fn == "pNorm":
            ref = mp.ncdf(M(a0))
            return float(abs(R_ - ref)), TOL_N, mp.nstr(ref, 25)
        if fn == "pNorm3":
            ref = mp.ncdf((M(a0) - M(a1)) / M(a2))
            return float(abs(R_ - ref)), TOL_N, mp.nstr(ref, 25)
        if fn == "qNorm":
            ref = mp.ncdf(R_)
            return float(abs(ref - M(a0))), TOL_QN, "Phi(q) = " + mp.nstr(ref, 25)
        if fn == "qNorm3":
            z = (R_ - M(a1)) / M(a2)
            ref = mp.ncdf(z)
            return float(abs(ref - M(a0))), TOL_QN + 0.4 * 8 * EPS * (abs(a1) / a2 + abs(float(z))), "Phi((q-mu)/sigma) = " + mp.nstr(ref, 25)
        if fn in ("pGamma", "pChisq", "incompleteGamma"):
            if fn == "pGamma":
                al, y = M(a1), mp.mpf(a0 * a2) if math.isfinite(a0 * a2) else mp.inf
            elif fn == "pChisq":
                al, y = M(a1) / 2, M(a0) / 2
            else:
                al, y = M(a1), M(a0)
            ref = mp_gamma_p(al, y)
            return float(abs(R_ - ref)), TOL_G, mp.nstr(ref, 25)
        if fn in ("qChisq", "qGamma"):
            if not (r >= 0):
                return math.inf, 0.0, "no quantile"
            if fn == "qChisq":
                al, y = M(a1) / 2, R_ / 2
            else:
                al, y = M(a1), R_ * M(a2)
            ref = mp_gamma_p(al, y)
            xpdf = float(mp.exp(al * mp.log(y) - y - mp.loggamma(al))) if y > 0 else 0.0
            return float(abs(ref - M(a0))), 1e-6 * xpdf + 2 * TOL_G, "P_ref(q) = " + mp.nstr(ref, 25)
        if fn in ("pBeta", "incompleteBeta"):
            ref = mp_beta_i(M(a1), M(a2), M(a0))
            return float(abs(R_ - ref)), float(tol_beta(np.float64(a1), np.float64(a2))), mp.nstr(ref, 25)
        if fn == "qBeta":
            if not (0 <= r <= 1):
                return math.inf, 0.0, "no quantile"
            d = float(qbeta_delta(np.float64(r), np.float64(a0)))
            lo = mp_beta_i(M(a1), M(a2), max(mp.mpf(0), R_ - M(d)))
            hi = mp_beta_i(M(a1), M(a2), min(mp.mpf(1), R_ + M(d)))
            p = M(a0)
            err = max(mp.mpf(0), lo - p, p - hi)
            with np.errstate(all="ignore"):
                pdfc = float(pdf_beta(np.float64(min(max(r, 1e-300), 1 - EPS / 2)), np.float64(a1), np.float64(a2)))
            if pdfc != pdfc or pdfc > 1e4:
                pdfc = 1e4
            tol = float(tol_beta(np.float64(a1), np.float64(a2))) + 3e-12 + 1e-12 * pdfc
            return float(err), tol, "P_ref(q -/+ 4ulp) = [" + mp.nstr(lo, 20) + ", " + mp.nstr(hi, 20) + "]"
        if fn == "lnBeta":
            a, b = M(a0), M(a1)
            ref = mp.loggamma(a) + mp.loggamma(b) - mp.loggamma(a + b)
            sc = 1 + abs(mp.loggamma(a)) + abs(mp.loggamma(b)) + abs(mp.loggamma(a + b))
            return float(abs(R_ - ref)), float(1e-13 * sc), mp.nstr(ref, 25)
        if fn == "lnGamma":
            ref = mp.loggamma(M(a0))
            return float(abs(R_ - ref)), float(1e-13 * (1 + abs(ref))), mp.nstr(ref, 25)
        return None
    except Timeout:
        return None
    except Exception as e:   # mpmath convergence failure etc.
        return ("error", repr(e))
    finally:
        signal.alarm(0)
        signal.signal(signal.SIGALRM, old)


def call_text(fn, a):
    n = NARGS[fn]
    name = {"pNorm3": "pNorm", "qNorm3": "qNorm"}.get(fn, fn)
    return "%s(%s)" % (name, ", ".join(repr(float(x)) for x in a[:n]))


def main(argv):
    logdir, out = argv[1], argv[2]
    jobs, tier = 4, "quick"
    i = 3
    while i < len(argv):
        if argv[i] == "--jobs":
            jobs = int(argv[i + 1]); i += 1
        elif argv[i] == "--tier":
            tier = argv[i + 1]; i += 1
        i += 1
    t0 = time.time()
    recs, nfiles, nbad = read_logs(logdir)
    sample_n = 700 if tier == "thorough" else 160
    SUSPECT_CAP = 300      # per (fn, region): the worst ones go to mpmath
    viol, counts, stats = [], {"oracle.accuracy": 0, "oracle.inverse": 0}, {}
    tasks = []             # (kind, fn, recindex, task)
    per_fn = {}
    for fn in NARGS:
        L = recs[fn]
        if not L:
            continue
        A = np.array([(r[0], r[1], r[2]) for r in L], dtype=float).reshape(-1, 3)
        R = np.array([r[3] for r in L], dtype=float)
        m, err, tol = judge_scipy(fn, A, R)
        clause = "oracle.accuracy" if fn in CDFS else "oracle.inverse"
        counts[clause] += int(m.sum())
        bad = m & ~(err <= tol)
        st = dict(records=len(L), judged=int(m.sum()), scipy_suspects=int(bad.sum()),
                  max_err_over_tol=float(np.nanmax(np.where(m & np.isfinite(err), err / tol, 0))) if m.any() else 0.0)
        per_fn[fn] = st
        # suspects: worst SUSPECT_CAP per region
        byreg = {}
        for k in np.nonzero(bad)[0]:
            byreg.setdefault(region_of(fn, A[k]), []).append(int(k))
        for reg, ks in byreg.items():
            ks.sort(key=lambda k: -(err[k] / tol[k] if np.isfinite(err[k]) and tol[k] > 0 else 1e300))
            for k in ks[:SUSPECT_CAP]:
                tasks.append(("suspect", fn, k, (fn, float(A[k, 0]), float(A[k, 1]), float(A[k, 2]), float(R[k]))))
            st.setdefault("suspects_not_sent_to_mpmath", 0)
            st["suspects_not_sent_to_mpmath"] += max(0, len(ks) - SUSPECT_CAP)
        # deterministic mpmath sample of the judged, non-suspect records
        idxs = np.nonzero(m & ~bad)[0]
        if len(idxs) > sample_n:
            h = np.array([zlib.crc32(("%s;%r;%r;%r" % (fn, A[k, 0], A[k, 1], A[k, 2])).encode()) for k in idxs], dtype=np.uint64)
            idxs = idxs[np.argsort(h, kind="stable")[:sample_n]]
        for k in idxs:
            tasks.append(("sample", fn, int(k), (fn, float(A[k, 0]), float(A[k, 1]), float(A[k, 2]), float(R[k]))))
    # ---- mpmath pass
    results = []
    if tasks:
        with Pool(max(1, jobs)) as pool:
            results = pool.map(mp_judge, [t[3] for t in tasks], chunksize=8)
    unconfirmed = []
    for (kind, fn, k, task), res in zip(tasks, results):
        st = per_fn[fn]
        clause = "oracle.accuracy" if fn in CDFS else "oracle.inverse"
        a = task[1:4]
        if res is None or (isinstance(res, tuple) and res and res[0] == "error"):
            st["mpmath_failures"] = st.get("mpmath_failures", 0) + 1
            if kind == "suspect":
                unconfirmed.append("%s = %r: mpmath evaluation failed (%s)" % (call_text(fn, a), task[4], res))
            continue
        err, tol, reftext = res
        st["mpmath_" + kind] = st.get("mpmath_" + kind, 0) + 1
        if err <= tol:
            if kind == "suspect":
                st["scipy_suspects_cleared_by_mpmath"] = st.get("scipy_suspects_cleared_by_mpmath", 0) + 1
                ex = st.setdefault("scipy_inaccurate_examples", [])
                if len(ex) < 4:
                    ex.append("%s = %r, mpmath %s" % (call_text(fn, a), task[4], reftext))
            continue
        L = recs[fn][k]
        reg = region_of(fn, a)
        what = ("differs from the reference by %.3g (allowed %.3g)" % (err, tol)) if fn in CDFS else \
               ("does not invert the cdf: |P_ref(q) - p| = %.3g (allowed %.3g)" % (err, tol))
        viol.append(dict(group=L[4], idx=L[5], clause=clause, cls="fn=%s,region=%s" % (fn, reg),
                         witness="%s = %r %s; mpmath (50 digits): %s; hex args %s, result %s; found by the %s pass" % (
                             call_text(fn, a), task[4], what, reftext, ";".join(float(x).hex() for x in a[:NARGS[fn]]), float(task[4]).hex(),
                             "scipy-disagreement" if kind == "suspect" else "mpmath sample"),
                         desc="offline oracle over the event log; logged by case %s/%d" % (L[4], L[5]), steps=[]))
    stats = dict(files=nfiles, unparsable_lines=nbad, per_function=per_fn, mpmath_tasks=len(tasks), wall_s=round(time.time() - t0, 1),
                 unconfirmed=unconfirmed[:20])
    with open(out, "w") as f:
        json.dump(dict(violations=viol, counts=counts, stats=stats), f, indent=1)
    return 0


if __name__ == "__main__":
    sys.exit(main(sys.argv))
