// C16 fuzz targets: every string-processing / parsing entry point of bpp-core.
// Shared by the libFuzzer binary (fuzz/fuzz_all.cpp, clang) and the deterministic vrt harness
// (harness/C16.cpp, gcc + hardened STL).  A target may return normally or throw anything:
// the caller classifies the outcome (returned / bpp::Exception / foreign exception).
#ifndef VERIF_FUZZ_TARGETS_H
#define VERIF_FUZZ_TARGETS_H

#include <cstdint>
#include <cstring>
#include <map>
#include <sstream>
#include <string>
#include <vector>
#include <memory>
#include <functional>
#include <stdexcept>

#include <Bpp/Exceptions.h>
#include <Bpp/Text/TextTools.h>
#include <Bpp/Text/StringTokenizer.h>
#include <Bpp/Text/NestedStringTokenizer.h>
#include <Bpp/Text/KeyvalTools.h>
#include <Bpp/Utils/AttributesTools.h>
#include <Bpp/App/ApplicationTools.h>
#include <Bpp/App/NumCalcApplicationTools.h>
#include <Bpp/Io/FileTools.h>
#include <Bpp/Io/OutputStream.h>
#include <Bpp/Io/BppODiscreteDistributionFormat.h>
#include <Bpp/Numeric/DataTable.h>
#include <Bpp/Numeric/Constraints.h>
#include <Bpp/Numeric/ParameterList.h>
#include <Bpp/Numeric/Prob/DiscreteDistribution.h>
#include <Bpp/Numeric/Function/Operators/ComputationTree.h>
#include <Bpp/Numeric/Function/Functions.h>

namespace fz
{
// ------------------------------------------------------------------ input decoding
struct In
{
  const uint8_t* d;
  size_t n, p;
  In(const uint8_t* data, size_t size) : d(data), n(size), p(0) {}
  uint8_t byte() { return p < n ? d[p++] : 0; }
  bool flag() { return (byte() & 1) != 0; }
  // a character option: one of a small set of interesting characters, or the raw byte
  char chr(const char* set)
  {
    uint8_t b = byte();
    size_t k = std::strlen(set);
    if (b < 2 * k) return set[b % k];
    return static_cast<char>(b);
  }
  // text up to the next field separator (0x1f) or the end
  std::string field()
  {
    size_t s = p;
    while (p < n && d[p] != 0x1f) ++p;
    std::string r(reinterpret_cast<const char*>(d + s), p - s);
    if (p < n) ++p;
    return r;
  }
  std::string rest()
  {
    std::string r(reinterpret_cast<const char*>(d + p), n - p);
    p = n;
    return r;
  }
  bool done() const { return p >= n; }
};

inline std::vector<std::string> lines(const std::string& s)
{
  std::vector<std::string> v;
  std::string cur;
  for (char c : s) { if (c == '\n') { v.push_back(cur); cur.clear(); } else cur += c; }
  v.push_back(cur);
  return v;
}

// Numeric literals that legitimately size an output (class counts, seq(from,to,step), 1-100000 ranges)
// must stay small so that a time-out / allocation ceiling can only mean non-termination or unbounded growth:
// reject inputs with a run of more than 3 digits (dots and signs inside a number do not break a run) or an exponent.
inline size_t countSub(const std::string& s, const std::string& p)
{
  size_t n = 0, at = 0;
  while (!p.empty() && (at = s.find(p, at)) != std::string::npos) { ++n; at += p.size(); }
  return n;
}
inline bool bigNumbers(const std::string& s)
{
  size_t run = 0;
  for (size_t i = 0; i < s.size(); ++i)
  {
    char c = s[i];
    if (c >= '0' && c <= '9')
    {
      if (++run > 3) return true;
    }
    else if (c == '.' ) { /* keeps the run */ }
    else
    {
      // an exponent mark directly after a digit or a decimal point ("1e9", "6.e8", ".5E3")
      if ((c == 'e' || c == 'E') && i > 0 && ((s[i - 1] >= '0' && s[i - 1] <= '9') || s[i - 1] == '.')
          && i + 1 < s.size() && ((s[i + 1] >= '0' && s[i + 1] <= '9') || s[i + 1] == '-' || s[i + 1] == '+'))
        return true;
      run = 0;
    }
  }
  return false;
}

// Class counts ("n=<k>" arguments, at any nesting level) legitimately size the work of a distribution description
// (k quantile evaluations, each thousands of sanitized floating point operations): keep k <= 16 so that a time-out can
// only mean non-termination.  Whitespace is ignored as the key-value parser does.
inline bool bigClassCount(const std::string& desc)
{
  std::string s;
  for (char c : desc) if (c != ' ' && c != '\t' && c != '\n' && c != '\r' && c != '\f' && c != '\v') s += c;
  for (size_t i = 0; i + 2 < s.size(); ++i)
  {
    if (s[i] == 'n' && s[i + 1] == '=' && (i == 0 || s[i - 1] == '(' || s[i - 1] == ','))
    {
      size_t j = i + 2, v = 0, digits = 0;
      while (j < s.size() && s[j] >= '0' && s[j] <= '9' && digits < 6) { v = v * 10 + static_cast<size_t>(s[j] - '0'); ++j; ++digits; }
      if (v > 16) return true;
    }
  }
  return false;
}

static volatile size_t sink = 0; // keeps results alive
inline void use(const std::string& s) { sink += s.size(); }
inline void use(size_t x) { sink += x; }
inline void use(bool x) { sink += x ? 1 : 0; }
inline void use(int x) { sink += static_cast<size_t>(x); }
inline void use(unsigned x) { sink += x; }
inline void use(double x) { sink += (x == x) ? 1 : 0; }
inline void use(const std::vector<std::string>& v) { for (auto& s : v) sink += s.size(); }

// An oracle of a target found the library in a state / with a result that the property excludes (a table whose name lists
// and cells disagree: the next by-name access indexes past a column; an integer conversion that wrapped).  Not a
// bpp::Exception on purpose: both engines classify it as a foreign exception, i.e. a violation.
struct InvariantBroken : std::logic_error
{
  explicit InvariantBroken(const std::string& m) : std::logic_error(m) {}
};

// Number conversion oracle.  For a string of the strict integer grammar  -?D+ ( S +? D+ )?  (D decimal digit, S the
// scientific-notation character, neither a digit nor a sign) the denoted value is mantissa * 10^exponent, computed here
// on the digits with saturating integer arithmetic (independent of the library's stream / floating point route).
// "Returns a value or raises" + "no signed overflow": when toInt returns for such a string, the result is the denoted
// value if that fits an int; for a value outside the int range the call must raise, or at most hand back the saturated
// bound of the same sign (what the documented stream extraction stores) - a result of the other sign / a wrapped value
// is the visible trace of an overflowing conversion.
inline bool strictInteger(const std::string& s, char sci, bool& negative, unsigned long long& magnitude /* saturates at 4e18 */)
{
  if ((sci >= '0' && sci <= '9') || sci == '-' || sci == '+') return false;
  const unsigned long long CAP = 4000000000000000000ULL;
  size_t i = 0;
  negative = false;
  if (i < s.size() && s[i] == '-') { negative = true; ++i; }
  size_t d0 = i;
  unsigned long long m = 0;
  while (i < s.size() && s[i] >= '0' && s[i] <= '9') { if (m < CAP) m = m * 10 + static_cast<unsigned long long>(s[i] - '0'); if (m > CAP) m = CAP; ++i; }
  if (i == d0) return false;
  unsigned long long ex = 0;
  if (i < s.size())
  {
    if (s[i] != sci) return false;
    ++i;
    if (i < s.size() && s[i] == '+') ++i;
    size_t e0 = i;
    while (i < s.size() && s[i] >= '0' && s[i] <= '9') { if (ex < 100000) ex = ex * 10 + static_cast<unsigned long long>(s[i] - '0'); ++i; }
    if (i == e0 || i != s.size()) return false;
  }
  for (unsigned long long k = 0; k < ex && m != 0 && m < CAP; ++k) { m = (m > CAP / 10) ? CAP : m * 10; }
  magnitude = m;
  return true;
}
inline int checkedToInt(const std::string& s, char sci)
{
  int v = bpp::TextTools::toInt(s, sci); // may raise: fine
  bool neg = false;
  unsigned long long mag = 0;
  if (strictInteger(s, sci, neg, mag))
  {
    long long want = neg ? (mag > 2147483648ULL ? -2147483648LL : -static_cast<long long>(mag)) : (mag > 2147483647ULL ? 2147483647LL : static_cast<long long>(mag));
    bool inRange = neg ? mag <= 2147483648ULL : mag <= 2147483647ULL;
    if (static_cast<long long>(v) != want)
      throw InvariantBroken(std::string(inRange ? "toInt-wrong-value" : "toInt-out-of-range-wrapped") + ": toInt('" + s + "', sci=" + std::to_string(static_cast<int>(sci)) + ") returned " + std::to_string(v)
          + " for the value " + (neg ? "-" : "") + std::to_string(mag) + (mag >= 4000000000000000000ULL ? "(or more)" : "") + (inRange ? "" : ", which is outside the int range (must raise)"));
  }
  return v;
}

// Table invariants after every editing step, accepted or rejected: as many row names as rows (when the table has row
// names), as many column names as columns, every column as long as the row count - otherwise the next by-name / by-index
// access indexes past a column.  Then every name the table reports is used for a by-name read (sanitizer / hardened-STL
// clean; a bpp::Exception is tolerated).
inline void checkTable(const bpp::DataTable& dt, const std::string& after)
{
  size_t nr = dt.getNumberOfRows(), nc = dt.getNumberOfColumns();
  std::vector<std::string> rn, cn;
  if (dt.hasRowNames()) { rn = dt.getRowNames(); if (rn.size() != nr) throw InvariantBroken("table-row-names: " + std::to_string(rn.size()) + " row names for " + std::to_string(nr) + " rows after " + after); }
  if (dt.hasColumnNames()) { cn = dt.getColumnNames(); if (cn.size() != nc) throw InvariantBroken("table-column-names: " + std::to_string(cn.size()) + " column names for " + std::to_string(nc) + " columns after " + after); }
  for (size_t j = 0; j < nc; ++j)
    if (dt.getColumn(j).size() != nr) throw InvariantBroken("table-column-length: column " + std::to_string(j) + " has " + std::to_string(dt.getColumn(j).size()) + " cells for " + std::to_string(nr) + " rows after " + after);
  auto tryIt = [](const std::function<void()>& f) { try { f(); } catch (bpp::Exception&) {} };
  // by-name reads for the first and last three names only: every name would make the check quadratic in the table size
  // (17 checks per input; the libFuzzer table target fell from 1500 to 57 executions/s)
  auto ends = [](const std::vector<std::string>& v) { std::vector<std::string> o; for (size_t i = 0; i < v.size(); ++i) if (i < 3 || i + 3 >= v.size()) o.push_back(v[i]); return o; };
  for (auto& n : ends(rn)) { tryIt([&] { use(dt.hasRow(n)); use(dt.getRow(n)); }); if (nc) tryIt([&] { use(dt(n, nc - 1)); }); if (!cn.empty()) tryIt([&] { use(dt(n, cn[0])); }); }
  for (auto& n : ends(cn)) { tryIt([&] { use(dt.hasColumn(n)); use(dt.getColumn(n)); }); if (nr) tryIt([&] { use(dt(nr - 1, n)); }); }
}

// ------------------------------------------------------------------ 1. character and string utilities
inline void t_text(In& in)
{
  using namespace bpp;
  uint8_t op = in.byte() % 24;
  switch (op)
  {
  case 0:
  {
    std::string s = in.rest();
    for (char c : s) { use(TextTools::isWhiteSpaceCharacter(c)); use(TextTools::isNewLineCharacter(c)); use(TextTools::isDecimalNumber(c)); }
    use(TextTools::isEmpty(s));
    use(TextTools::toUpper(s)); use(TextTools::toLower(s));
    break;
  }
  case 1: { std::string s = in.rest(); use(TextTools::removeWhiteSpaces(s)); use(TextTools::removeFirstWhiteSpaces(s)); use(TextTools::removeLastWhiteSpaces(s)); use(TextTools::removeSurroundingWhiteSpaces(s)); break; }
  case 2: { std::string s = in.rest(); use(TextTools::removeNewLines(s)); use(TextTools::removeLastNewLines(s)); break; }
  case 3: { char dec = in.chr(".,e-"), sci = in.chr("eE.d-"); std::string s = in.rest(); use(TextTools::isDecimalNumber(s, dec, sci)); use(TextTools::isDecimalInteger(s, sci)); break; }
  case 4: { char dec = in.chr(".,e-"), sci = in.chr("eE.d-"); std::string s = in.rest(); use(TextTools::toDouble(s, dec, sci)); break; }
  case 5: { char sci = in.chr("eE.d-"); std::string s = in.rest(); use(static_cast<size_t>(checkedToInt(s, sci))); break; }
  case 6: { std::string s = in.rest(); use(TextTools::fromString<double>(s)); use(static_cast<size_t>(TextTools::fromString<int>(s))); use(TextTools::to<unsigned>(s)); use(TextTools::fromString<std::string>(s)); break; }
  case 7: { size_t k = in.byte(); char fill = in.chr(" .0"); std::string s = in.rest(); use(TextTools::resizeRight(s, k, fill)); use(TextTools::resizeLeft(s, k, fill)); break; }
  case 8: { size_t k = in.byte(); std::string s = in.rest(); use(TextTools::split(s, k)); break; }
  case 9: { char b = in.chr("([{<\""), e = in.chr(")]}>\""); std::string s = in.rest(); use(TextTools::removeSubstrings(s, b, e)); break; }
  case 10:
  {
    char b = in.chr("([{<\""), e = in.chr(")]}>\"");
    size_t nb = in.byte() % 4, ne = in.byte() % 4;
    std::vector<std::string> eb, ee;
    for (size_t i = 0; i < nb; ++i) eb.push_back(in.field());
    for (size_t i = 0; i < ne; ++i) ee.push_back(in.field());
    std::string s = in.rest();
    use(TextTools::removeSubstrings(s, b, e, eb, ee));
    break;
  }
  case 11: { char c = in.chr(" ,;"); std::string s = in.rest(); use(TextTools::removeChar(s, c)); break; }
  case 12: { std::string p = in.field(); std::string s = in.rest(); use(TextTools::count(s, p)); break; }
  case 13: { std::string p = in.field(); std::string s = in.rest(); use(TextTools::startsWith(s, p)); use(TextTools::endsWith(s, p)); use(TextTools::hasSubstring(s, p)); break; }
  case 14: { std::string q = in.field(), r = in.field(); std::string s = in.rest(); TextTools::replaceAll(s, q, r); use(s); break; }
  case 15: { std::string s = in.rest(); double x = TextTools::fromString<double>(s); use(TextTools::toString(x)); use(TextTools::toString(x, in.n % 20)); break; }
  default:
  {
    // a few calls in a row on the same text, as application code does
    std::string s = in.rest();
    std::string t = TextTools::removeSurroundingWhiteSpaces(s);
    if (TextTools::isDecimalNumber(t)) use(TextTools::toDouble(t));
    if (TextTools::isDecimalInteger(t)) use(static_cast<size_t>(checkedToInt(t, 'e')));
    use(TextTools::removeSubstrings(t, '[', ']'));
  }
  }
}

// ------------------------------------------------------------------ 2. tokenisers
inline void drain(bpp::StringTokenizer& st, In& in)
{
  use(st.numberOfRemainingTokens());
  use(st.unparseRemainingTokens());
  size_t k = 0, when = in.n % 5;
  while (st.hasMoreToken())
  {
    if (k == when) { st.removeEmptyTokens(); if (!st.hasMoreToken()) break; }
    use(st.nextToken());
    use(st.unparseRemainingTokens());
    use(st.numberOfRemainingTokens());
    ++k;
  }
  for (size_t i = 0; i < st.getTokens().size(); ++i) use(st.getToken(i));
  use(st.unparseRemainingTokens());
  bool raised = false;
  try { st.nextToken(); } catch (bpp::Exception&) { raised = true; }
  if (!raised) throw std::logic_error("nextToken past the end did not raise");
}

inline void t_tokenizer(In& in)
{
  using namespace bpp;
  uint8_t op = in.byte();
  bool solid = op & 1, allowEmpty = op & 2, nested = op & 4, defDelim = op & 8;
  if (!nested)
  {
    std::string delims = defDelim ? std::string(" \t\n\f\r") : in.field();
    std::string s = in.rest();
    StringTokenizer st(s, delims, solid, allowEmpty);
    drain(st, in);
  }
  else
  {
    std::string open = (op & 16) ? std::string("(") : in.field();
    std::string close = (op & 16) ? std::string(")") : in.field();
    std::string delims = defDelim ? std::string(",") : in.field();
    std::string s = in.rest();
    NestedStringTokenizer st(s, open, close, delims, solid);
    use(st.numberOfRemainingTokens());
    while (st.hasMoreToken()) use(st.nextToken());
    use(st.unparseRemainingTokens());
  }
}

// ------------------------------------------------------------------ 3. key-value and procedure parsing
inline void t_keyval(In& in)
{
  using namespace bpp;
  uint8_t op = in.byte();
  bool nested = op & 8, defSplit = op & 16;
  switch (op % 5)
  {
  case 0: { std::string split = defSplit ? "=" : in.field(); std::string s = in.rest(); std::string k, v; KeyvalTools::singleKeyval(s, k, v, split); use(k); use(v); break; }
  case 1: { std::string split = defSplit ? "," : in.field(); std::string s = in.rest(); std::map<std::string, std::string> m; KeyvalTools::multipleKeyvals(s, m, split, nested); for (auto& kv : m) { use(kv.first); use(kv.second); } break; }
  case 2:
  {
    std::string s = in.rest(), name;
    std::map<std::string, std::string> m;
    KeyvalTools::parseProcedure(s, name, m);
    use(name);
    for (auto& kv : m)
    {
      use(kv.first);
      // nested procedures are parsed recursively by client code
      std::string n2; std::map<std::string, std::string> m2;
      try { KeyvalTools::parseProcedure(kv.second, n2, m2); } catch (bpp::Exception&) {}
    }
    break;
  }
  default:
  {
    std::string split = defSplit ? "," : in.field();
    std::map<std::string, std::string> nk;
    size_t n = in.byte() % 4;
    for (size_t i = 0; i < n; ++i) { std::string k = in.field(); nk[k] = in.field(); }
    std::string s = in.rest();
    use(KeyvalTools::changeKeyvals(s, nk, split, nested));
  }
  }
}

// ------------------------------------------------------------------ 4. option parsing, comments, continuation lines, variables, typed getters
inline void t_options(In& in)
{
  using namespace bpp;
  uint8_t op = in.byte();
  switch (op % 8)
  {
  case 0:
  {
    std::string delim = (op & 16) ? "=" : in.field();
    std::vector<std::string> ls = lines(in.rest());
    std::map<std::string, std::string> am = AttributesTools::getAttributesMap(ls, delim);
    size_t refs = 0;
    for (auto& kv : am) refs += countSub(kv.second, "$(");
    if ((op & 32) && refs <= 8) AttributesTools::resolveVariables(am);
    for (auto& kv : am) { use(kv.first); use(kv.second); }
    break;
  }
  case 1:
  {
    char code = in.chr("$%@"), beg = in.chr("({["), end = in.chr(")}]");
    std::vector<std::string> ls = lines(in.rest());
    std::map<std::string, std::string> am = AttributesTools::getAttributesMap(ls, "=");
    size_t refs = 0;
    for (auto& kv : am) refs += countSub(kv.second, std::string(1, code) + std::string(1, beg));
    if (refs > 8) return; // expansion is legitimately exponential in the number of references
    AttributesTools::resolveVariables(am, code, beg, end);
    for (auto& kv : am) use(kv.second);
    break;
  }
  case 2:
  {
    // comment removal is private: reached through getAttributesMap with one-line inputs
    std::vector<std::string> one(1, in.rest());
    std::map<std::string, std::string> am = AttributesTools::getAttributesMap(one, "=");
    for (auto& kv : am) use(kv.second);
    break;
  }
  case 3:
  {
    // command line: argv[0] is the program name.  "param=" would make the library open arbitrary files: filtered.
    std::vector<std::string> ls = lines(in.rest());
    if (ls.size() > 64) ls.resize(64);
    std::vector<std::string> args(1, "prog");
    size_t refs = 0;
    for (auto& l : ls) { if (l.find("param") != std::string::npos) return; refs += countSub(l, "$"); args.push_back(l); }
    if (refs > 8) return;
    std::vector<char*> argv;
    for (auto& a : args) argv.push_back(const_cast<char*>(a.c_str()));
    std::vector<std::string> v = AttributesTools::getVector(static_cast<int>(argv.size()), argv.data());
    use(v);
    std::map<std::string, std::string> m = AttributesTools::parseOptions(static_cast<int>(argv.size()), argv.data());
    for (auto& kv : m) use(kv.second);
    std::map<std::string, std::string> m2;
    AttributesTools::actualizeAttributesMap(m2, m, op & 16);
    break;
  }
  case 4:
  {
    // typed getters on a parsed map
    std::string suffix = (op & 16) ? "" : in.field();
    bool sufOpt = op & 32;
    std::string name = in.field();
    std::vector<std::string> ls = lines(in.rest());
    std::map<std::string, std::string> am = AttributesTools::getAttributesMap(ls, "=");
    use(ApplicationTools::parameterExists(name, am));
    auto tryIt = [](const std::function<void()>& f) { try { f(); } catch (bpp::Exception&) {} };
    tryIt([&] { use(ApplicationTools::getDoubleParameter(name, am, 1.5, suffix, sufOpt, 5)); });
    tryIt([&] { use(static_cast<size_t>(ApplicationTools::getIntParameter(name, am, 3, suffix, sufOpt, 5))); });
    tryIt([&] { use(ApplicationTools::getBooleanParameter(name, am, true, suffix, sufOpt, 5)); });
    tryIt([&] { use(ApplicationTools::getStringParameter(name, am, "dflt", suffix, sufOpt, 5)); });
    tryIt([&] { use(ApplicationTools::getParameter<double>(name, am, 2., suffix, sufOpt, 5)); });
    tryIt([&] { use(ApplicationTools::getAFilePath(name, am, false, false, suffix, sufOpt, "none", 5)); });
    break;
  }
  case 5:
  {
    char sep = in.chr(",;:|");
    std::string name = in.field();
    std::string val = in.rest();
    // Only the range forms a-b / a:b size their output by numeric literals: they are driven when every range
    // spans at most 2000 values (whatever the magnitude of its ends: ranges next to INT_MAX are legal and small).
    bool rangesSmall = true;
    {
      // mirror of the library's own reading (ApplicationTools::getVectorParameter with a range operator): the outer
      // parentheses are dropped when both are present, tokens are split at the separator only, the first occurrence of
      // the range operator splits a token, and each end is what `std::istringstream >> int` reads (leading white space,
      // optional sign, decimal digits; no digits reads as 0, out-of-range values are clamped): "inf", "0x10", "(5" and
      // "1e9" are NOT the numbers std::stold would make of them.
      auto asInt = [](const std::string& t) -> long double {
        size_t k = 0;
        while (k < t.size() && std::isspace(static_cast<unsigned char>(t[k]))) ++k;
        bool neg = false;
        if (k < t.size() && (t[k] == '+' || t[k] == '-')) { neg = t[k] == '-'; ++k; }
        long double v = 0; bool any = false;
        while (k < t.size() && t[k] >= '0' && t[k] <= '9') { v = v * 10 + (t[k] - '0'); any = true; ++k; if (v > 1e12L) break; }
        if (!any) return 0;
        v = neg ? -v : v;
        if (v > 2147483647.0L) v = 2147483647.0L;
        if (v < -2147483648.0L) v = -2147483648.0L;
        return v;
      };
      std::string body = val;
      if (body.size() >= 1 && body[0] == '(' && body[body.size() - 1] == ')') body = body.size() >= 2 ? body.substr(1, body.size() - 2) : "";
      std::string tok;
      for (size_t i = 0; i <= body.size(); ++i)
      {
        char ch = i < body.size() ? body[i] : sep;
        if (ch != sep) { tok += ch; continue; }
        for (char rop : { '-', ':' })
        {
          size_t pos = tok.find(rop);
          if (pos == std::string::npos) continue;
          long double a = asInt(tok.substr(0, pos)), b = asInt(tok.substr(pos + 1));
          if (!(b - a <= 2000)) rangesSmall = false;
        }
        tok.clear();
      }
    }
    std::map<std::string, std::string> am;
    am[name] = val;
    auto tryIt = [](const std::function<void()>& f) { try { f(); } catch (bpp::Exception&) {} };
    tryIt([&] { use(ApplicationTools::getVectorParameter<double>(name, am, sep, "").size()); });
    tryIt([&] { use(ApplicationTools::getVectorParameter<int>(name, am, sep, "(1,2)").size()); });
    tryIt([&] { use(ApplicationTools::getVectorParameter<std::string>(name, am, sep, "").size()); });
    tryIt([&] { use(ApplicationTools::getVectorOfVectorsParameter<double>(name, am, sep, "").size()); });
    if (rangesSmall)
    {
      tryIt([&] { use(ApplicationTools::getVectorParameter<int>(name, am, sep, '-', "", "", true, false).size()); });
      tryIt([&] { use(ApplicationTools::getVectorParameter<int>(name, am, sep, ':', "", "", true, false).size()); });
    }
    tryIt([&] { use(ApplicationTools::getMatrixParameter<double>(name, am, sep, "", "", true, false).getNumberOfRows()); });
    break;
  }
  default:
  {
    // wildcard matching of parameter names
    std::string pattern = in.field();
    std::vector<std::string> names = lines(in.rest());
    if (names.size() > 32) names.resize(32);
    std::map<std::string, std::string> am;
    ParameterList pl;
    for (auto& nm : names) { am[nm] = "1"; if (!pl.hasParameter(nm)) pl.addParameter(Parameter(nm, 1.)); }
    use(ApplicationTools::matchingParameters(pattern, am));
    use(ApplicationTools::matchingParameters(pattern, names));
    use(pl.getMatchingParameterNames(pattern));
  }
  }
}

// ------------------------------------------------------------------ 5. path helpers and line readers
inline void t_path(In& in)
{
  using namespace bpp;
  uint8_t op = in.byte();
  char sep = (op & 8) ? '/' : in.chr("/\\:");
  std::string s = in.rest();
  switch (op % 4)
  {
  case 0: use(FileTools::getFileName(s, sep)); use(FileTools::getFileName(s)); break;
  case 1: use(FileTools::getParent(s, sep)); use(FileTools::getParent(s)); break;
  case 2: use(FileTools::getExtension(s)); break;
  default:
  {
    std::istringstream is(s);
    use(FileTools::putStreamIntoVectorOfStrings(is));
    std::istringstream is2(s);
    for (size_t i = 0; i < 10000 && !is2.eof(); ++i) use(FileTools::getNextLine(is2));
    use(FileTools::getNextLine(is2));
  }
  }
}

// ------------------------------------------------------------------ 6. delimited tables: read, query, edit, write
inline void t_table(In& in)
{
  using namespace bpp;
  uint8_t op = in.byte();
  bool header = op & 1;
  int rowNames = (op & 2) ? static_cast<int>(in.byte() % 6) : -1;
  std::string sep = (op & 4) ? "\t" : ((op & 8) ? "," : in.field());
  std::string edits = in.field();
  std::string text = in.rest();
  std::istringstream is(text);
  std::unique_ptr<DataTable> dt = DataTable::read(is, sep, header, rowNames);
  size_t nr = dt->getNumberOfRows(), nc = dt->getNumberOfColumns();
  use(nr); use(nc);
  checkTable(*dt, "read");
  if (dt->hasColumnNames()) { use(dt->getColumnNames()); for (size_t j = 0; j < nc; ++j) { use(dt->getColumnName(j)); use(dt->getColumn(dt->getColumnName(j))); use(dt->hasColumn(dt->getColumnName(j))); } }
  if (dt->hasRowNames()) { use(dt->getRowNames()); for (size_t i = 0; i < nr; ++i) { use(dt->getRowName(i)); use(dt->getRow(dt->getRowName(i))); use(dt->hasRow(dt->getRowName(i))); } }
  for (size_t i = 0; i < nr; ++i) { use(dt->getRow(i)); for (size_t j = 0; j < nc; ++j) use((*dt)(i, j)); }
  for (size_t j = 0; j < nc; ++j) use(dt->getColumn(j));
  // edits: each byte of `edits` is one operation; arguments out of range must raise a bpp::Exception
  auto tryIt = [](const std::function<void()>& f) { try { f(); } catch (bpp::Exception&) {} };
  size_t steps = 0;
  for (char e : edits)
  {
    if (++steps > 16) break;
    size_t k = static_cast<unsigned char>(e) / 8 % 8;
    std::vector<std::string> vals;
    if (static_cast<unsigned char>(e) >= 128)
    {
      // named / invalid edits (bytes >= 0x80; v = bit 6): every call in its own try, the sequence goes on after a rejected
      // edit (wrong width, duplicate or unknown name, index out of range) and the invariants are checked after each step
      bool v = (static_cast<unsigned char>(e) & 64) != 0;
      std::string rk = "r" + std::to_string(k), ck = "c" + std::to_string(k);
      const DataTable& cdt = *dt;
      switch (static_cast<unsigned char>(e) % 8)
      {
      case 0: vals.assign(v ? dt->getNumberOfColumns() : k, "n"); tryIt([&] { dt->addRow(rk, vals); }); break;
      case 1: vals.assign(v ? dt->getNumberOfRows() : k, "m"); tryIt([&] { dt->addColumn(ck, vals); }); break;
      case 2: if (v) tryIt([&] { dt->deleteRow(dt->getRowName(k)); }); else tryIt([&] { dt->deleteRow(rk); }); break;
      case 3: if (v) tryIt([&] { dt->deleteColumn(dt->getColumnName(k)); }); else tryIt([&] { dt->deleteColumn(ck); }); break;
      case 4:
        tryIt([&] { std::vector<std::string> nm; for (size_t i = 0; i < (v ? dt->getNumberOfRows() : k); ++i) nm.push_back("r" + std::to_string(i)); dt->setRowNames(nm); });
        // also on a table without row names (that wrote out of bounds before repair c104d85)
        tryIt([&] { dt->setRowName(k, v ? "r0" : "q" + std::to_string(k)); });
        break;
      case 5:
        tryIt([&] { std::vector<std::string> nm; for (size_t i = 0; i < (v ? dt->getNumberOfColumns() : k); ++i) nm.push_back("c" + std::to_string(i)); dt->setColumnNames(nm); });
        break;
      case 6:
        tryIt([&] { use(dt->hasRow(rk)); use(dt->getRow(rk)); });
        tryIt([&] { use(dt->hasColumn(ck)); use(dt->getColumn(ck)); use(cdt.getColumn(ck)); });
        tryIt([&] { use((*dt)(rk, ck)); }); tryIt([&] { use(cdt(rk, ck)); });
        tryIt([&] { use((*dt)(rk, k)); }); tryIt([&] { use(cdt(rk, k)); });
        tryIt([&] { use((*dt)(k, ck)); }); tryIt([&] { use(cdt(k, ck)); });
        tryIt([&] { use((*dt)(k, k)); }); tryIt([&] { use(cdt(k, k)); });
        break;
      default:
        vals.assign(v ? dt->getNumberOfColumns() : k + 1, "s"); tryIt([&] { dt->setRow(k, vals); });
        vals.assign(v ? dt->getNumberOfColumns() + 1 : dt->getNumberOfColumns(), "t"); tryIt([&] { dt->addRow(vals); });
        vals.assign(v ? dt->getNumberOfRows() + 1 : dt->getNumberOfRows(), "u"); tryIt([&] { dt->addColumn(vals); });
      }
      checkTable(*dt, "edit byte " + std::to_string(static_cast<unsigned char>(e)) + " (step " + std::to_string(steps) + ")");
      continue;
    }
    switch (static_cast<unsigned char>(e) % 8)
    {
    case 0: tryIt([&] { dt->deleteColumn(k); }); break;
    case 1: tryIt([&] { dt->deleteRow(k); }); break;
    case 2: vals.assign(dt->getNumberOfRows(), "x"); tryIt([&] { dt->addColumn(vals); }); break;
    case 3: vals.assign(dt->getNumberOfColumns(), "y"); tryIt([&] { dt->addRow(vals); }); break;
    case 4: vals.assign(k, "z"); tryIt([&] { dt->addRow(vals); }); tryIt([&] { dt->addColumn("c" + std::to_string(k), vals); }); break;
    case 5: tryIt([&] { use(dt->getRow(k)); use(dt->getColumn(k)); use(dt->getRowName(k)); use(dt->getColumnName(k)); }); break;
    case 6:
      tryIt([&] { std::vector<std::string> nm; for (size_t i = 0; i < dt->getNumberOfRows(); ++i) nm.push_back("r" + std::to_string(i % (k + 1))); dt->setRowNames(nm); });
      tryIt([&] { std::vector<std::string> nm; for (size_t i = 0; i < dt->getNumberOfColumns(); ++i) nm.push_back("c" + std::to_string(i % (k + 1))); dt->setColumnNames(nm); });
      break;
    default:
      tryIt([&] { use(dt->getRow("r" + std::to_string(k))); use(dt->getColumn("c" + std::to_string(k))); dt->deleteRow("r" + std::to_string(k)); dt->deleteColumn("c" + std::to_string(k)); });
    }
    checkTable(*dt, "edit byte " + std::to_string(static_cast<unsigned char>(e)) + " (step " + std::to_string(steps) + ")");
  }
  std::ostringstream os;
  DataTable::write(*dt, os, sep, op & 16);
  use(os.str());
  DataTable copy(*dt);
  use(copy.getNumberOfRows());
  checkTable(copy, "copy");
  // assignment onto targets of another shape with and without names of their own: the target's names must not
  // survive when the source has none (they did before repair 5ed8159), and the reverse direction
  {
    DataTable named(2, std::vector<std::string>{ "ca", "cb", "cc" });
    tryIt([&] { named.setRowNames(std::vector<std::string>{ "ra", "rb" }); });
    DataTable plain(3, 1);
    DataTable t1(named);
    t1 = *dt;
    checkTable(t1, "assignment onto a named 2x3 table");
    tryIt([&] { use(t1.getRow("ra")); }); tryIt([&] { use(t1.getColumn("cc")); }); tryIt([&] { t1.deleteRow("rb"); }); tryIt([&] { t1.deleteColumn("ca"); });
    checkTable(t1, "by-name edits after assignment onto a named table");
    DataTable t2(plain);
    t2 = *dt;
    checkTable(t2, "assignment onto an unnamed 3x1 table");
    DataTable t3(*dt);
    t3 = plain;
    checkTable(t3, "assignment of an unnamed 3x1 table");
    tryIt([&] { if (dt->hasRowNames() && dt->getNumberOfRows() > 0) use(t3.getRow(dt->getRowName(0))); });
    tryIt([&] { if (dt->hasColumnNames() && dt->getNumberOfColumns() > 0) use(t3.getColumn(dt->getColumnName(0))); });
    DataTable t4(*dt);
    t4 = named;
    checkTable(t4, "assignment of a named 2x3 table");
  }
}

// ------------------------------------------------------------------ 7. distribution descriptions
inline void t_dist(In& in)
{
  using namespace bpp;
  uint8_t op = in.byte();
  std::string s = in.rest();
  if (bigNumbers(s) || bigClassCount(s)) return;
  BppODiscreteDistributionFormat fmt(false);
  std::unique_ptr<DiscreteDistributionInterface> d = fmt.readDiscreteDistribution(s, op & 1);
  if (!d) return;
  use(d->getNumberOfCategories());
  use(d->getName());
  for (size_t i = 0; i < d->getNumberOfCategories(); ++i) { use(d->getCategory(i)); use(d->getProbability(i)); }
  for (auto& kv : fmt.getUnparsedArguments()) use(kv.second);
  StdStr out;
  std::map<std::string, std::string> aliases;
  std::vector<std::string> written;
  fmt.writeDiscreteDistribution(*d, out, aliases, written);
  use(out.str());
}

// ------------------------------------------------------------------ 8. interval descriptions
inline void t_interval(In& in)
{
  using namespace bpp;
  std::string s = in.rest();
  std::string s2 = s;
  IntervalConstraint ic(s2);
  use(ic.getDescription());
  use(ic.isCorrect(0.)); use(ic.isEmpty()); use(ic.getLimit(1e9)); use(ic.getAcceptedLimit(-1e9));
  IntervalConstraint other(0, 1, true, false);
  std::unique_ptr<ConstraintInterface> inter(ic & other);
  if (inter) use(inter->getDescription());
  other.readDescription(s2);
  use(other == ic);
}

// ------------------------------------------------------------------ 9. formulas
inline void t_formula(In& in)
{
  using namespace bpp;
  std::string s = in.rest();
  std::map<std::string, std::shared_ptr<FunctionInterface>> fns;
  ComputationTree tree(s, fns);
  use(tree.getValue());
  use(tree.output());
  use(tree.isAllSum());
  use(tree.getFirstOrderDerivative("x"));
  use(tree.getSecondOrderDerivative("x"));
}

// ------------------------------------------------------------------ 10. vector and sequence descriptions
inline void t_numcalc(In& in)
{
  using namespace bpp;
  uint8_t op = in.byte();
  switch (op % 3)
  {
  case 0:
  {
    std::string delim = (op & 8) ? "," : in.field(), sd = (op & 16) ? "-" : in.field();
    std::string s = in.rest();
    if (bigNumbers(s)) return;
    use(NumCalcApplicationTools::seqFromString(s, delim, sd).size());
    break;
  }
  case 1: { std::string s = in.rest(); if (bigNumbers(s)) return; use(NumCalcApplicationTools::getVector(s).size()); break; }
  default:
  {
    std::string s = in.rest();
    if (bigNumbers(s)) return;
    std::map<std::string, std::string> am = AttributesTools::getAttributesMap(lines(s), "=");
    auto it = am.find("grid.number_of_parameters");
    if (it != am.end() && it->second.size() > 1) return; // the count of grid dimensions is a sizing literal too
    std::shared_ptr<ParameterGrid> g = NumCalcApplicationTools::getParameterGrid(am, "", true, false);
    if (g) use(g->getNumberOfDimensions());
  }
  }
}

typedef void (* TargetFn)(In&);
struct Target { const char* name; TargetFn fn; unsigned opMask, opMod; }; // (first byte & opMask) % opMod = which entry point / option class
inline const std::vector<Target>& targets()
{
  static const std::vector<Target> t = {
    { "text", t_text, 0xff, 24 }, { "tokenizer", t_tokenizer, 7, 8 }, { "keyval", t_keyval, 0xff, 5 }, { "options", t_options, 0xff, 8 }, { "path", t_path, 0xff, 4 },
    { "table", t_table, 3, 4 }, { "dist", t_dist, 1, 2 }, { "interval", t_interval, 0, 1 }, { "formula", t_formula, 0, 1 }, { "numcalc", t_numcalc, 0xff, 3 },
  };
  return t;
}
inline const Target* findTarget(const std::string& name)
{
  for (auto& t : targets()) if (name == t.name) return &t;
  return 0;
}
} // namespace fz
#endif
