#!/usr/bin/env python3
"""Writes the grammar-aware seed corpus and the dictionary for the C16 fuzz targets (committed output)."""
import os, shutil
D = os.path.dirname(os.path.abspath(__file__))
FS = b"\x1f"
seeds = {k: [] for k in "text tokenizer keyval options path table dist interval formula numcalc".split()}
def b(x): return x if isinstance(x, bytes) else x.encode()
# text: op byte % 24
texts = ["", " ", "abc", "  hello world \n", "-12.5e+3", "1e5", "-", ".", "e5", "12", "+3", "1.2.3", "a(b(c)d)e", "x[1]y[2]", "((", "))", "a)b", "tab\tsep\r\n\n", "\xff\xfe", "0", "-0", "1e", "1e+", "1e-2", "007", "2147483648", "1e400", "1e999", "1e-999", "99999999999", "-99999999999", "4.9e-324"]
for op in range(24):
    for t in texts[:: 3 if op > 15 else 1]:
        if op in (3, 4): seeds["text"].append(bytes([op, 0, 0]) + b(t))
        elif op == 5: seeds["text"].append(bytes([op, 0]) + b(t))
        elif op == 7: seeds["text"].append(bytes([op, 5, 0]) + b(t)); seeds["text"].append(bytes([op, 0, 1]) + b(t))
        elif op == 8: seeds["text"].append(bytes([op, 2]) + b(t)); seeds["text"].append(bytes([op, 0]) + b(t)); seeds["text"].append(bytes([op, 200]) + b(t))
        elif op == 9: seeds["text"].append(bytes([op, 0, 0]) + b(t)); seeds["text"].append(bytes([op, 1, 1]) + b(t))
        elif op == 10: seeds["text"].append(bytes([op, 0, 0, 1, 1]) + b"(x" + FS + b"y)" + FS + b(t)); seeds["text"].append(bytes([op, 0, 0, 2, 0]) + b"ab(" + FS + b"(" + FS + b(t))
        elif op == 11: seeds["text"].append(bytes([op, 0]) + b(t))
        elif op in (12, 13): seeds["text"].append(bytes([op]) + b"b" + FS + b(t)); seeds["text"].append(bytes([op]) + FS + b(t))
        elif op == 14: seeds["text"].append(bytes([op]) + b"b" + FS + b"XX" + FS + b(t)); seeds["text"].append(bytes([op]) + b"a" + FS + b"aa" + FS + b(t))
        else: seeds["text"].append(bytes([op]) + b(t))
toks = ["a b  c", ",a,,b,", "a,b;c", "", ",,,", "f(a,b),g(c)", "((a)", "a::b::c::", "::", "x", " \t\n", "a(b,c(d,e)),f", ")("]
for op in range(32):
    for t in toks:
        if op & 4:
            pre = b"" if op & 16 else b"(" + FS + b")" + FS
            pre += b"" if op & 8 else b"," + FS
        else:
            pre = b"" if op & 8 else b",;" + FS
        seeds["tokenizer"].append(bytes([op]) + pre + b(t))
    if not op & 8:
        seeds["tokenizer"].append(bytes([op]) + (b"" if not op & 4 or op & 16 else b"(" + FS + b")" + FS) + FS + b"abc")       # empty delimiter
        seeds["tokenizer"].append(bytes([op]) + (b"" if not op & 4 or op & 16 else b"" + FS + b"" + FS) + b"::" + FS + b"a::b::::c")
kvs = ["a=1", "a=1,b=2", "Gamma(n=4,alpha=0.5)", "f(a=g(b=1,c=2),d=3)", "x", "=", "a=", "=b", "a==b", "a=1,=,b", "a = 1 , b = 2", "f(", "f)", ")(", "f(a=1)x", "f()", "  name (k=v)  ", "a=1,b", "f(a=(1,2),b=(3))"]
for op in range(32):
    for t in kvs:
        m = op % 5
        if m == 0: pre = b"" if op & 16 else b"=" + FS
        elif m == 1: pre = b"" if op & 16 else b"," + FS
        elif m == 2: pre = b""
        else: pre = (b"" if op & 16 else b"," + FS) + bytes([2]) + b"a" + FS + b"9" + FS + b"n" + FS + b"7" + FS
        seeds["keyval"].append(bytes([op]) + pre + b(t))
opts = ["a=1\nb=2", "a = 1 # comment\nb=2 // c\n/* x */c=3", "a=1\\\nb=2", "a=$(b)\nb=3", "a=$(a)", "a=$(b\nb=1", "a=x$(b)\nb=y$(a)", "a\\", "\\", "a=1\\", "novalue", "=", "a=$(b)$(b)\nb=$(b)$(b)x", "/*", "#", "//", "a=/* x", "a=b*/c"]
for op in (0, 16, 32, 48, 1, 2, 3, 19):
    for t in opts:
        m = op % 8
        if m == 0: pre = b"" if op & 16 else b"=" + FS
        elif m == 1: pre = bytes([0, 0, 0])
        else: pre = b""
        seeds["options"].append(bytes([op]) + pre + b(t))
for op in (4, 20, 36, 52):
    for nm in ("a", "x.y", ""):
        seeds["options"].append(bytes([op]) + (b"" if op & 16 else b"_1" + FS) + b(nm) + FS + b"a=1.5\nx.y=true\na_1=3\nb=(1,2)")
        seeds["options"].append(bytes([op]) + (b"" if op & 16 else b"_1" + FS) + b(nm) + FS + b"a=1e999\nx.y=99999999999\na_1=1e-999")
for sepb in (0, 1, 2):
    for v in ["1,2,3", "(1,2,3)", "((1,2),(3,4))", "1-5,7", "a,b", "", "(", "()", "1:3", "(1,2),(3)", "5-1", "1;2;3", "(1,2)(3,4)", "-", "2147483646:2147483647", "2147483640-2147483647", "-2147483648:-2147483646", "1:2147483647", "99999999999:99999999999", "2147483647"]:
        seeds["options"].append(bytes([5, sepb]) + b"v" + FS + b(v))
for pat in ["*", "a*", "*a", "a*b", "ab", "", "**", "a**b", "*a*"]:
    seeds["options"].append(bytes([6]) + b(pat) + FS + b"a\nab\nabab\nba\nb\n\naab")
paths = ["/a/b/c.txt", "c.txt", "noext", "/a/b/", "a.b/c", "", ".", "/", "..", "a\\b\\c.d", "x.tar.gz", "/.hidden"]
for op in range(16):
    for t in paths:
        seeds["path"].append(bytes([op]) + (b"" if op & 8 else bytes([0])) + b(t))
seeds["path"] += [bytes([3]) + b"l1\n\n\nl2\n", bytes([11]) + b"\n\n", bytes([3]) + b""]
tables = ["a\tb\n1\t2\n3\t4\n", "a\tb\nr1\t1\t2\nr2\t3\t4\n", "1\t2\n3\t4\n", "a\n", "", "\n\n", "a\tb\n1\n", "a\tb\n1\t2\t3\t4\n", "\t\t\n\t\t\n", "a,b\n1,2\n", "a\tb\n\t\n", "x\n\n\ny\n", "a\ta\n1\t2\n", "a\tb\nr\t1\t2\nr\t3\t4\n", "\t\n"]
for op in (0, 1, 4, 5, 6, 7, 13, 21, 2, 3):
    for t in tables:
        pre = bytes([op])
        if op & 2: pre += bytes([0])
        if not op & 4 and not op & 8: pre += b";" + FS
        seeds["table"].append(pre + bytes([0, 9, 2, 3, 36, 5, 14, 7]) + FS + b(t))
        seeds["table"].append(pre + FS + b(t))
dists = ["Gamma(n=4,alpha=0.5)", "Gamma(n=4,alpha=0.5,beta=2)", "Constant(value=1)", "Uniform(n=3,begin=0,end=2)", "Gaussian(n=5,mu=0,sigma=1)", "Exponential(n=4,lambda=2)", "Beta(n=4,alpha=2,beta=3)",
         "Simple(values=(1,2,3),probas=(0.2,0.3,0.5))", "Invariant(dist=Gamma(n=4,alpha=1),p=0.1)", "Mixture(probas=(0.3,0.7),dist1=Gamma(n=2,alpha=1),dist2=Constant(value=2))", "TruncExponential(n=4,lambda=1,tp=3)",
         "Gamma(n=0)", "Gamma()", "Gamma", "Simple(values=(1,2),probas=(1))", "Simple(values=(),probas=())", "Mixture(probas=(1))", "Invariant(dist=Invariant(dist=Constant(value=1),p=0.5))", "Foo(n=1)", "Gamma(n=4,alpha=-1)",
         "Simple(values=(1,2,3),probas=(0.2,0.3,0.5),ranges=(V1[0;2],V2[1;3]))", "Gamma(n=4,Gamma.alpha=0.5)", "Uniform(n=3,begin=2,end=0)", "Dirichlet(classes=3)", "Exponential(n=4,lambda=0)", "Beta(n=1,alpha=0.1,beta=0.1)"]
for op in (0, 1):
    for t in dists: seeds["dist"].append(bytes([op]) + b(t))
for t in ["[0;1]", "]0;1[", "[-inf;inf]", "]-inf;+inf[", "[1;0]", "[;]", "[", "", "[0;1", "0;1]", "[a;b]", "[1e5;1e6]", "];[", "[0;1];", "[0,1]", "[ 0 ; 1 ]", "]1;1[", "[1e999;2]", "[0;1e-999]"]:
    seeds["interval"].append(b(t))
for t in ["1+2", "2*(3+4)", "-x", "exp(1)", "log(2)/3", "", "(", ")", "1+", "*", "((1))", "--1", "1e5*2", "exp(", "a+b", "1/0", "exp(log(1))", "(1)(2)", "1-(-2)", "+1", "1e999+1", "2*1e-999", "99999999999999999999"]:
    seeds["formula"].append(b(t))
for t in ["1,2,5-8", "1-3", "3-1", "", ",", "-", "a", "1--2", "1,,2"]:
    seeds["numcalc"].append(bytes([24]) + b(t)); seeds["numcalc"].append(bytes([0]) + b"," + FS + b"-" + FS + b(t)); seeds["numcalc"].append(bytes([0]) + FS + FS + b(t))
for t in ["1,2,3", "seq(from=0,to=1,step=0.1)", "seq(from=0,to=1,size=5)", "seq(from=1,to=10,step=1,scale=log)", "seq(from=0,to=1,step=0)", "seq(from=1,to=0,step=-1)", "seq(from=0,to=1)", "seq", "seq(", "", "seq(from=0,to=1,size=0)", "seq(from=0,to=1,step=0.1,scale=foo)", "1 2 3", "(1,2)", "seq(from=0,to=2,size=3,scale=10^)", "seq(from=a,to=b,step=c)"]:
    seeds["numcalc"].append(bytes([1]) + b(t))
for t in ["grid.number_of_parameters=1\ngrid.parameter1.name=x\ngrid.parameter1.values=1,2,3", "grid.number_of_parameters=2\ngrid.parameter1.name=x\ngrid.parameter1.values=seq(from=0,to=1,step=0.5)", "grid.number_of_parameters=1", ""]:
    seeds["numcalc"].append(bytes([2]) + b(t))
sd = os.path.join(D, "seeds")
shutil.rmtree(sd, ignore_errors=True)
os.makedirs(sd)
tot = 0
for k, v in seeds.items():
    seen = set()
    with open(os.path.join(sd, k + ".hex"), "w") as f:   # one hex-encoded seed per line
        for s in v:
            if s in seen: continue
            seen.add(s)
            f.write(s.hex() + "\n")
            tot += 1
dic = ["(", ")", "=", ",", ";", "[", "]", "$(", "\\\n", "\n", "\t", "#", "//", "/*", "*/", "seq(", "from=", "to=", "step=", "size=", "scale=", "log", "exp", "10^", "Gamma(", "Beta(", "Simple(", "Mixture(", "Invariant(", "Constant(", "Uniform(", "Gaussian(", "Exponential(", "TruncExponential(",
       "n=", "alpha=", "beta=", "mu=", "sigma=", "lambda=", "tp=", "value=", "values=", "probas=", "ranges=", "dist=", "dist1=", "p=", "begin=", "end=", "-inf", "+inf", "inf", "exp(", "log(", "*", "+", "-", "/", "\x1f", "e", "E", ".", "1e-3", "0.5", "::", "param", "grid.number_of_parameters=", "grid.parameter1.values=", "grid.parameter1.name=", "V1[0;2]"]
with open(os.path.join(D, "dict.txt"), "w") as f:
    for i, t in enumerate(dic):
        f.write('kw%d="%s"\n' % (i, "".join("\\x%02x" % c for c in t.encode())))
print("seeds:", tot)
