#!/usr/bin/env python3
"""Writes the grammar-aware seed corpus and the dictionary for the C16 fuzz targets (committed output)."""
import os, shutil
D = os.path.dirname(os.path.abspath(__file__))
FS = b"\x1f"
seeds = {k: [] for k in "text tokenizer keyval options path table dist interval formula numcalc".split()}
def b(x): return x if isinstance(x, bytes) else x.encode()
# text: op byte % 24
texts = ["", " ", "abc", "  hello world \n", "-12.5e+3", "1e5", "-", ".", "e5", "12", "+3", "1.2.3", "a(b(c)d)e", "x[1]y[2]", "((", "))", "a)b", "tab\tsep\r\n\n", "\xff\xfe", "0", "-0", "1e", "1e+", "1e-2", "007", "2147483648", "1e400", "1e999", "1e-999", "99999999999", "-99999999999", "4.9e-324"]
for op in range(24):
    for t in texts[:: 3 if op > 15 else 1]:
        if op in (3, 4): seeds["text"].append(bytes([op, 0, 0]) + b(t))
        elif op == 5: seeds["text"].append(bytes([op, 0]) + b(t))
        elif op == 7: seeds["text"].append(bytes([op, 5, 0]) + b(t)); seeds["text"].append(bytes([op, 0, 1]) + b(t))
        elif op == 8: seeds["text"].append(bytes([op, 2]) + b(t)); seeds["text"].append(bytes([op, 0]) + b(t)); seeds["text"].append(bytes([op, 200]) + b(t))
        elif op == 9: seeds["text"].append(bytes([op, 0, 0]) + b(t)); seeds["text"].append(bytes([op, 1, 1]) + b(t))
        elif op == 10: seeds["text"].append(bytes([op, 0, 0, 1, 1]) + b"(x" + FS + b"y)" + FS + b(t)); seeds["text"].append(bytes([op, 0, 0, 2, 0]) + b"ab(" + FS + b"(" + FS + b(t))
        elif op == 11: seeds["text"].append(bytes([op, 0]) + b(t))
        elif op in (12, 13): seeds["text"].append(bytes([op]) + b"b" + FS + b(t)); seeds["text"].append(bytes([op]) + FS + b(t))
        elif op == 14: seeds["text"].append(bytes([op]) + b"b" + FS + b"XX" + FS + b(t)); seeds["text"].append(bytes([op]) + b"a" + FS + b"aa" + FS + b(t))
        else: seeds["text"].append(bytes([op]) + b(t))
# integers at and next to INT_MIN, INT_MAX, 2^31, 2^32, 2^63 (and scaled mantissas reaching them through the exponent), in every accepted
# notation: plain, with exponent e0 / e+0 / E00 / e1, with a trailing decimal part
def boundary_numbers():
    vals = []
    for c in (2**31, -2**31, 2**32, 2**63, -2**63, 2**15, 2**16):
        for d in (-2, -1, 0, 1, 2): vals.append(c + d)
    out = []
    for v in vals:
        t = str(v)
        out += [t, t + "e0", t + "e+0", t + "e00", t + "E0", t + "E00", t + ".0", t + ".", t + ".0e0", t + "0e-1", "0" + t if v >= 0 else "-0" + t[1:]]
        if v % 10 == 0: out += [str(v // 10) + "e1", str(v // 10) + "e+01"]
    # mantissa x 10^k crossing the int bounds
    out += ["214748364e1", "214748365e1", "-214748364e1", "-214748365e1", "2147483647e00000", "2147483648e0000000000", "21474837e2", "3e9", "2e9", "-3e9", "1e10", "1e18", "1e19", "1e20", "0e99999", "00000000001e9",
            "4294967296e0", "4294967295e0", "9223372036854775808e0", "9223372036854775807e0", "-9223372036854775809e0", "2.147483648e9", "2.147483647e9", "-2.147483649e9", "0.2147483648e10"]
    return out
bnums = boundary_numbers()
for i, t in enumerate(bnums):
    for sci, ch in ((0, "e"), (1, "E"), (3, "d"), (2, ".")):       # in.chr("eE.d-"): byte < 10 -> set[b % 5]
        u = t.replace("E", "e")
        if ("." in u and ch == ".") or (sci and (i + sci) % 3): continue
        seeds["text"].append(bytes([5, sci]) + b(u.replace("e", ch)))
    if i % 4 and not ("e" in t and t.startswith("2147483648")): continue
    seeds["text"].append(bytes([3, 0, 0]) + b(t)); seeds["text"].append(bytes([4, 0, 0]) + b(t)); seeds["text"].append(bytes([4, 0, 1]) + b(t))
    seeds["text"].append(bytes([6]) + b(t)); seeds["text"].append(bytes([15]) + b(t)); seeds["text"].append(bytes([16]) + b(" " + t + " "))
toks = ["a b  c", ",a,,b,", "a,b;c", "", ",,,", "f(a,b),g(c)", "((a)", "a::b::c::", "::", "x", " \t\n", "a(b,c(d,e)),f", ")("]
for op in range(32):
    for t in toks:
        if op & 4:
            pre = b"" if op & 16 else b"(" + FS + b")" + FS
            pre += b"" if op & 8 else b"," + FS
        else:
            pre = b"" if op & 8 else b",;" + FS
        seeds["tokenizer"].append(bytes([op]) + pre + b(t))
    if not op & 8:
        seeds["tokenizer"].append(bytes([op]) + (b"" if not op & 4 or op & 16 else b"(" + FS + b")" + FS) + FS + b"abc")       # empty delimiter
        seeds["tokenizer"].append(bytes([op]) + (b"" if not op & 4 or op & 16 else b"" + FS + b"" + FS) + b"::" + FS + b"a::b::::c")
kvs = ["a=1", "a=1,b=2", "Gamma(n=4,alpha=0.5)", "f(a=g(b=1,c=2),d=3)", "x", "=", "a=", "=b", "a==b", "a=1,=,b", "a = 1 , b = 2", "f(", "f)", ")(", "f(a=1)x", "f()", "  name (k=v)  ", "a=1,b", "f(a=(1,2),b=(3))"]
for op in range(32):
    for t in kvs:
        m = op % 5
        if m == 0: pre = b"" if op & 16 else b"=" + FS
        elif m == 1: pre = b"" if op & 16 else b"," + FS
        elif m == 2: pre = b""
        else: pre = (b"" if op & 16 else b"," + FS) + bytes([2]) + b"a" + FS + b"9" + FS + b"n" + FS + b"7" + FS
        seeds["keyval"].append(bytes([op]) + pre + b(t))
opts = ["a=1\nb=2", "a = 1 # comment\nb=2 // c\n/* x */c=3", "a=1\\\nb=2", "a=$(b)\nb=3", "a=$(a)", "a=$(b\nb=1", "a=x$(b)\nb=y$(a)", "a\\", "\\", "a=1\\", "novalue", "=", "a=$(b)$(b)\nb=$(b)$(b)x", "/*", "#", "//", "a=/* x", "a=b*/c"]
for op in (0, 16, 32, 48, 1, 2, 3, 19):
    for t in opts:
        m = op % 8
        if m == 0: pre = b"" if op & 16 else b"=" + FS
        elif m == 1: pre = bytes([0, 0, 0])
        else: pre = b""
        seeds["options"].append(bytes([op]) + pre + b(t))
for op in (4, 20, 36, 52):
    for nm in ("a", "x.y", ""):
        seeds["options"].append(bytes([op]) + (b"" if op & 16 else b"_1" + FS) + b(nm) + FS + b"a=1.5\nx.y=true\na_1=3\nb=(1,2)")
        seeds["options"].append(bytes([op]) + (b"" if op & 16 else b"_1" + FS) + b(nm) + FS + b"a=1e999\nx.y=99999999999\na_1=1e-999")
for sepb in (0, 1, 2):
    for v in ["1,2,3", "(1,2,3)", "((1,2),(3,4))", "1-5,7", "a,b", "", "(", "()", "1:3", "(1,2),(3)", "5-1", "1;2;3", "(1,2)(3,4)", "-", "2147483646:2147483647", "2147483640-2147483647", "-2147483648:-2147483646", "1:2147483647", "99999999999:99999999999", "2147483647"]:
        seeds["options"].append(bytes([5, sepb]) + b"v" + FS + b(v))
for pat in ["*", "a*", "*a", "a*b", "ab", "", "**", "a**b", "*a*"]:
    seeds["options"].append(bytes([6]) + b(pat) + FS + b"a\nab\nabab\nba\nb\n\naab")
for i in range(0, len(bnums), 6):
    chunk = bnums[i:i + 6]
    seeds["options"].append(bytes([20]) + b"a" + FS + b("a=" + chunk[0] + "\nx.y=" + chunk[1 % len(chunk)] + "\na_1=" + chunk[2 % len(chunk)]))
    seeds["options"].append(bytes([5, 0]) + b"v" + FS + b(",".join(chunk)))
for t in bnums[::7]:
    seeds["formula"].append(b(t)); seeds["formula"].append(b("1+" + t)); seeds["interval"].append(b("[" + t + ";" + t + "]"))
paths = ["/a/b/c.txt", "c.txt", "noext", "/a/b/", "a.b/c", "", ".", "/", "..", "a\\b\\c.d", "x.tar.gz", "/.hidden"]
for op in range(16):
    for t in paths:
        seeds["path"].append(bytes([op]) + (b"" if op & 8 else bytes([0])) + b(t))
seeds["path"] += [bytes([3]) + b"l1\n\n\nl2\n", bytes([11]) + b"\n\n", bytes([3]) + b""]
tables = ["a\tb\n1\t2\n3\t4\n", "a\tb\nr1\t1\t2\nr2\t3\t4\n", "1\t2\n3\t4\n", "a\n", "", "\n\n", "a\tb\n1\n", "a\tb\n1\t2\t3\t4\n", "\t\t\n\t\t\n", "a,b\n1,2\n", "a\tb\n\t\n", "x\n\n\ny\n", "a\ta\n1\t2\n", "a\tb\nr\t1\t2\nr\t3\t4\n", "\t\n"]
for op in (0, 1, 4, 5, 6, 7, 13, 21, 2, 3):
    for t in tables:
        pre = bytes([op])
        if op & 2: pre += bytes([0])
        if not op & 4 and not op & 8: pre += b";" + FS
        seeds["table"].append(pre + bytes([0, 9, 2, 3, 36, 5, 14, 7]) + FS + b(t))
        seeds["table"].append(pre + FS + b(t))
# edit sequences that continue after a rejected edit (bytes >= 0x80: named / invalid edits, see t_table): op = byte % 8, k = byte / 8 % 8, v = bit 6
def eb(op, k, v=0): return 128 + 64 * v + 8 * k + op
import random
rnd = random.Random(16)
named = ["a\tb\nr1\t1\t2\nr2\t3\t4\n", "a\tb\nr0\t1\t2\nr1\t3\t4\nr2\t5\t6\n", "r0\t1\t2\nr1\t3\t4\n", "c0\tc1\tc2\nr0\t1\t2\t3\n", "c0\tc1\n1\t2\n3\t4\n", "1\t2\n3\t4\n", "c0\n", "", "c0\tc1\nr0\t1\t2\nr0\t3\t4\n"]
hand = [
    [eb(0, 1), eb(6, 1), eb(0, 3, 1), eb(6, 3), eb(2, 3)],                 # addRow(name) of the wrong width, reads, good addRow, read, delete by name
    [eb(0, 5), eb(0, 5, 1), eb(2, 5), eb(2, 1, 1)],                        # rejected then accepted row of the same name, deleted again
    [eb(1, 5), eb(1, 5, 1), eb(6, 5), eb(3, 5), eb(3, 0, 1)],              # same on columns
    [eb(0, 1, 1), eb(0, 1, 1), eb(2, 1), eb(2, 1)],                        # duplicate name, unknown name
    [eb(4, 1), eb(4, 0, 1), eb(4, 7), eb(5, 1), eb(5, 0, 1), eb(6, 0)],    # name lists of the wrong length, duplicates
    [eb(7, 0), eb(7, 0, 1), eb(7, 7), eb(0, 0), eb(0, 0, 1)],              # setRow / unnamed addRow / addColumn widths
    [1, 1, 1, 1, eb(0, 2, 1), eb(0, 0), eb(6, 2)],                         # empty the table, then named rows
    [0, 0, 0, 0, eb(0, 0), eb(0, 0, 1), eb(1, 0), eb(1, 1, 1), eb(6, 0)],  # column-less table
    [54, eb(0, 2), eb(0, 7, 1), eb(2, 7), eb(2, 0, 1), eb(3, 1, 1), eb(0, 7, 1)],
]
for _ in range(40):
    hand.append([x for x in (rnd.choice([eb(rnd.randrange(8), rnd.randrange(8), rnd.randrange(2)), eb(rnd.randrange(8), rnd.randrange(4), rnd.randrange(2)), rnd.randrange(64)]) for _ in range(rnd.randrange(3, 16))) if x != 0x1f])
for i, ed in enumerate(hand):
    for j, t in enumerate(named):
        if i >= 9 and (i + j) % 3: continue
        for pre in ((bytes([5]), bytes([4]), bytes([7, 0]), bytes([6, 0])) if i < 9 else (bytes([5]), bytes([7, 0]))):   # tab separated; header / no header; row names auto / column 0
            seeds["table"].append(pre + bytes(ed) + FS + b(t))
dists = ["Gamma(n=4,alpha=0.5)", "Gamma(n=4,alpha=0.5,beta=2)", "Constant(value=1)", "Uniform(n=3,begin=0,end=2)", "Gaussian(n=5,mu=0,sigma=1)", "Exponential(n=4,lambda=2)", "Beta(n=4,alpha=2,beta=3)",
         "Simple(values=(1,2,3),probas=(0.2,0.3,0.5))", "Invariant(dist=Gamma(n=4,alpha=1),p=0.1)", "Mixture(probas=(0.3,0.7),dist1=Gamma(n=2,alpha=1),dist2=Constant(value=2))", "TruncExponential(n=4,lambda=1,tp=3)",
         "Gamma(n=0)", "Gamma()", "Gamma", "Simple(values=(1,2),probas=(1))", "Simple(values=(),probas=())", "Mixture(probas=(1))", "Invariant(dist=Invariant(dist=Constant(value=1),p=0.5))", "Foo(n=1)", "Gamma(n=4,alpha=-1)",
         "Simple(values=(1,2,3),probas=(0.2,0.3,0.5),ranges=(V1[0;2],V2[1;3]))", "Gamma(n=4,Gamma.alpha=0.5)", "Uniform(n=3,begin=2,end=0)", "Dirichlet(classes=3)", "Exponential(n=4,lambda=0)", "Beta(n=1,alpha=0.1,beta=0.1)"]
for op in (0, 1):
    for t in dists: seeds["dist"].append(bytes([op]) + b(t))
for t in ["[0;1]", "]0;1[", "[-inf;inf]", "]-inf;+inf[", "[1;0]", "[;]", "[", "", "[0;1", "0;1]", "[a;b]", "[1e5;1e6]", "];[", "[0;1];", "[0,1]", "[ 0 ; 1 ]", "]1;1[", "[1e999;2]", "[0;1e-999]"]:
    seeds["interval"].append(b(t))
for t in ["1+2", "2*(3+4)", "-x", "exp(1)", "log(2)/3", "", "(", ")", "1+", "*", "((1))", "--1", "1e5*2", "exp(", "a+b", "1/0", "exp(log(1))", "(1)(2)", "1-(-2)", "+1", "1e999+1", "2*1e-999", "99999999999999999999"]:
    seeds["formula"].append(b(t))
for t in ["1,2,5-8", "1-3", "3-1", "", ",", "-", "a", "1--2", "1,,2"]:
    seeds["numcalc"].append(bytes([24]) + b(t)); seeds["numcalc"].append(bytes([0]) + b"," + FS + b"-" + FS + b(t)); seeds["numcalc"].append(bytes([0]) + FS + FS + b(t))
for t in ["1,2,3", "seq(from=0,to=1,step=0.1)", "seq(from=0,to=1,size=5)", "seq(from=1,to=10,step=1,scale=log)", "seq(from=0,to=1,step=0)", "seq(from=1,to=0,step=-1)", "seq(from=0,to=1)", "seq", "seq(", "", "seq(from=0,to=1,size=0)", "seq(from=0,to=1,step=0.1,scale=foo)", "1 2 3", "(1,2)", "seq(from=0,to=2,size=3,scale=10^)", "seq(from=a,to=b,step=c)"]:
    seeds["numcalc"].append(bytes([1]) + b(t))
for t in ["grid.number_of_parameters=1\ngrid.parameter1.name=x\ngrid.parameter1.values=1,2,3", "grid.number_of_parameters=2\ngrid.parameter1.name=x\ngrid.parameter1.values=seq(from=0,to=1,step=0.5)", "grid.number_of_parameters=1", ""]:
    seeds["numcalc"].append(bytes([2]) + b(t))
sd = os.path.join(D, "seeds")
shutil.rmtree(sd, ignore_errors=True)
os.makedirs(sd)
tot = 0
for k, v in seeds.items():
    seen = set()
    with open(os.path.join(sd, k + ".hex"), "w") as f:   # one hex-encoded seed per line
        for s in v:
            if s in seen: continue
            seen.add(s)
            f.write(s.hex() + "\n")
            tot += 1
dic = ["(", ")", "=", ",", ";", "[", "]", "$(", "\\\n", "\n", "\t", "#", "//", "/*", "*/", "seq(", "from=", "to=", "step=", "size=", "scale=", "log", "exp", "10^", "Gamma(", "Beta(", "Simple(", "Mixture(", "Invariant(", "Constant(", "Uniform(", "Gaussian(", "Exponential(", "TruncExponential(",
       "n=", "alpha=", "beta=", "mu=", "sigma=", "lambda=", "tp=", "value=", "values=", "probas=", "ranges=", "dist=", "dist1=", "p=", "begin=", "end=", "-inf", "+inf", "inf", "exp(", "log(", "*", "+", "-", "/", "\x1f", "e", "E", ".", "1e-3", "0.5", "::", "param", "grid.number_of_parameters=", "grid.parameter1.values=", "grid.parameter1.name=", "V1[0;2]",
       "2147483647", "2147483648", "-2147483648", "-2147483649", "4294967295", "4294967296", "9223372036854775807", "9223372036854775808", "-9223372036854775808", "e0", "e+0", "E00", "e00", ".0", "e1", "214748364", "65536", "32768",
       "\xc0", "\x81", "\x88\xc8", "\xc0\x86\xd8\xc2", "\x84\xc4\x85\xc5"]
with open(os.path.join(D, "dict.txt"), "w") as f:
    for i, t in enumerate(dic):
        f.write('kw%d="%s"\n' % (i, "".join("\\x%02x" % c for c in t.encode("latin-1"))))
print("seeds:", tot)
