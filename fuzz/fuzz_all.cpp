// libFuzzer binary for C16: FUZZ_TARGET selects one entry-point group of fuzz/targets.h.
// Outcome classification: returned or bpp::Exception are fine; any other exception aborts with its type.
#include "../fuzz/targets.h"
#include <cstdio>
#include <cstdlib>
#include <iostream>
#include <typeinfo>
#include <cxxabi.h>

static const fz::Target* gTarget = 0;

extern "C" int LLVMFuzzerInitialize(int*, char***)
{
  const char* t = std::getenv("FUZZ_TARGET");
  gTarget = fz::findTarget(t ? t : "");
  if (!gTarget) { std::fprintf(stderr, "FUZZ_TARGET not set or unknown\n"); std::exit(2); }
  static std::shared_ptr<bpp::OutputStream> nullOut(new bpp::NullOutputStream());
  bpp::ApplicationTools::message = nullOut;
  bpp::ApplicationTools::warning = nullOut;
  bpp::ApplicationTools::error = nullOut;
  std::cout.setstate(std::ios_base::badbit); // library code prints "Parsing file ..." to cout
  return 0;
}

extern "C" int LLVMFuzzerTestOneInput(const uint8_t* data, size_t size)
{
  fz::In in(data, size);
  try { gTarget->fn(in); }
  catch (bpp::Exception&) {}
  catch (std::exception& e)
  {
    int st = 0;
    char* d = abi::__cxa_demangle(typeid(e).name(), 0, 0, &st);
    std::fprintf(stderr, "FOREIGN-EXCEPTION type=%s what=%s\n", d ? d : typeid(e).name(), e.what());
    std::abort();
  }
  catch (...)
  {
    std::type_info* t = abi::__cxa_current_exception_type();
    int st = 0;
    char* d = t ? abi::__cxa_demangle(t->name(), 0, 0, &st) : 0;
    std::fprintf(stderr, "FOREIGN-EXCEPTION type=%s\n", d ? d : "unknown");
    std::abort();
  }
  return 0;
}
