#include "vrt.h"

#include <cstdio>
#include <cstdlib>
#include <cstring>
#include <map>
#include <set>
#include <iostream>
#include <typeinfo>
#include <cxxabi.h>
#include <unistd.h>
#include <fcntl.h>

#include <Bpp/Exceptions.h>
#include <Bpp/App/ApplicationTools.h>
#include <Bpp/Io/OutputStream.h>
#ifdef BPP_CORE_VERIF
#include <Bpp/Numeric/Parameter.h>
#endif

namespace vrt
{
// ------------------------------------------------------------------ PRNG
static inline u64 splitmix(u64& x)
{
  u64 z = (x += 0x9E3779B97F4A7C15ULL);
  z = (z ^ (z >> 30)) * 0xBF58476D1CE4E5B9ULL;
  z = (z ^ (z >> 27)) * 0x94D049BB133111EBULL;
  return z ^ (z >> 31);
}
void Rng::reseed(u64 seed)
{
  u64 x = seed;
  for (int i = 0; i < 4; ++i) s_[i] = splitmix(x);
}
static inline u64 rotl(u64 x, int k) { return (x << k) | (x >> (64 - k)); }
u64 Rng::next()
{
  const u64 result = rotl(s_[1] * 5, 7) * 9;
  const u64 t = s_[1] << 17;
  s_[2] ^= s_[0]; s_[3] ^= s_[1]; s_[1] ^= s_[2]; s_[0] ^= s_[3];
  s_[2] ^= t; s_[3] = rotl(s_[3], 45);
  return result;
}
long long Rng::range(long long lo, long long hi)
{
  if (hi <= lo) return lo;
  u64 span = static_cast<u64>(hi - lo) + 1;
  return lo + static_cast<long long>(next() % span);
}
double Rng::gauss()
{
  double u1 = unit(), u2 = unit();
  if (u1 < 1e-300) u1 = 1e-300;
  return std::sqrt(-2.0 * std::log(u1)) * std::cos(6.283185307179586 * u2);
}
u64 mix(u64 a, u64 b)
{
  u64 x = a ^ (b + 0x9E3779B97F4A7C15ULL + (a << 6) + (a >> 2));
  return splitmix(x);
}
u64 hashStr(const std::string& s)
{
  u64 h = 1469598103934665603ULL;
  for (size_t i = 0; i < s.size(); ++i) { h ^= static_cast<unsigned char>(s[i]); h *= 1099511628211ULL; }
  return h;
}

// ------------------------------------------------------------------ journal
namespace
{
int jfd = -1;
std::string jbuf;
bool gReplay = false;
bool inCase = false;
u64 violInCase = 0;
std::map<std::string, u64> clauseCounts;
std::map<std::string, u64> tallies;
std::set<std::string> coverSeen;
std::set<std::string> knownIds;
const size_t MAXFIELD = 6000;

std::string esc(const std::string& s)
{
  std::string o;
  size_t n = s.size() > MAXFIELD ? MAXFIELD : s.size();
  o.reserve(n + 8);
  for (size_t i = 0; i < n; ++i)
  {
    unsigned char c = static_cast<unsigned char>(s[i]);
    if (c == '\\') o += "\\\\";
    else if (c == '\t') o += "\\t";
    else if (c == '\n') o += "\\n";
    else if (c == '\r') o += "\\r";
    else if (c < 0x20 || c >= 0x7f) { char b[8]; std::snprintf(b, sizeof b, "\\x%02x", c); o += b; }
    else o += static_cast<char>(c);
  }
  if (s.size() > MAXFIELD) o += "...<truncated>";
  return o;
}
void jflush()
{
  if (jfd < 0) { jbuf.clear(); return; }
  size_t off = 0;
  while (off < jbuf.size())
  {
    ssize_t w = ::write(jfd, jbuf.data() + off, jbuf.size() - off);
    if (w <= 0) break;
    off += static_cast<size_t>(w);
  }
  jbuf.clear();
}
void jline(const std::string& l, bool flushNow)
{
  jbuf += l;
  jbuf += '\n';
  if (gReplay) std::cerr << "  | " << l << std::endl;
  if (flushNow || jbuf.size() > (1u << 16)) jflush();
}
void dumpAggregates()
{
  for (auto& kv : clauseCounts) if (kv.second) { jline("C\t" + esc(kv.first) + "\t" + std::to_string(kv.second), false); kv.second = 0; }
  for (auto& kv : tallies) if (kv.second) { jline("N\t" + esc(kv.first) + "\t" + std::to_string(kv.second), false); kv.second = 0; }
  jflush();
}
} // namespace

void describe(const std::string& cls, const std::string& descriptor)
{
  jline("D\t" + esc(cls) + "\t" + esc(descriptor), true);
}
void step(const std::string& s) { jline("S\t" + esc(s), true); }
void counted(const char* clause, u64 n) { clauseCounts[clause] += n; }
void violation(const char* clause, const std::string& cls, const std::string& witness)
{
  ++violInCase;
  if (violInCase > 50) return; // a broken case would otherwise flood the journal
  jline(std::string("V\t") + esc(clause) + "\t" + esc(cls) + "\t" + esc(witness), true);
}
bool expect(bool ok, const char* clause, const std::string& cls, const std::string& witness)
{
  ++clauseCounts[clause];
  if (!ok) violation(clause, cls, witness);
  return ok;
}
bool expect(bool ok, const char* clause, const std::string& cls, const std::function<std::string()>& witness)
{
  ++clauseCounts[clause];
  if (!ok) violation(clause, cls, witness());
  return ok;
}
void cover(const std::string& key)
{
  if (coverSeen.insert(key).second) jline("K\t" + esc(key), false);
}
void tally(const std::string& key, u64 n) { tallies[key] += n; }
bool known(const std::string& id) { return knownIds.count(id) != 0; }
bool replaying() { return gReplay; }
void note(const std::string& text) { if (gReplay) std::cerr << "  . " << text << std::endl; }
u64 violationsInCase() { return violInCase; }

// ------------------------------------------------------------------ helpers
std::string hexd(double x)
{
  char b[64];
  std::snprintf(b, sizeof b, "%a", x);
  return b;
}
template<class V> static std::string vecStrT(const V& v, size_t maxn)
{
  std::ostringstream o;
  o.precision(17);
  o << "[";
  for (size_t i = 0; i < v.size() && i < maxn; ++i) { if (i) o << ","; o << v[i]; }
  if (v.size() > maxn) o << ",...(" << v.size() << ")";
  o << "]";
  return o.str();
}
std::string vecStr(const std::vector<double>& v, size_t maxn) { return vecStrT(v, maxn); }
std::string vecStr(const std::vector<int>& v, size_t maxn) { return vecStrT(v, maxn); }
std::string vecStr(const std::vector<size_t>& v, size_t maxn) { return vecStrT(v, maxn); }
std::string vecStr(const std::vector<std::string>& v, size_t maxn) { return vecStrT(v, maxn); }
bool close(double a, double b, double rel, double abs)
{
  if (std::isnan(a) || std::isnan(b)) return false;
  if (std::isinf(a) || std::isinf(b)) return a == b;
  double d = std::fabs(a - b);
  double m = std::fmax(std::fabs(a), std::fabs(b));
  return d <= abs + rel * m;
}
double ulpDist(double a, double b)
{
  if (a == b) return 0;
  if (std::isnan(a) || std::isnan(b) || std::isinf(a) || std::isinf(b)) return std::numeric_limits<double>::infinity();
  double m = std::fmax(std::fabs(a), std::fabs(b));
  double ulp = std::nextafter(m, std::numeric_limits<double>::infinity()) - m;
  return std::fabs(a - b) / ulp;
}
std::string typeName(const std::type_info& ti)
{
  int st = 0;
  char* d = abi::__cxa_demangle(ti.name(), 0, 0, &st);
  std::string r = (st == 0 && d) ? d : ti.name();
  std::free(d);
  return r;
}
Outcome capture(const std::function<void()>& f)
{
  Outcome o;
  o.kind = Outcome::Returned;
  try { f(); }
  catch (bpp::Exception& e) { o.kind = Outcome::BppException; o.type = typeName(typeid(e)); o.what = e.what(); }
  catch (std::exception& e) { o.kind = Outcome::StdException; o.type = typeName(typeid(e)); o.what = e.what(); }
  catch (...)
  {
    o.kind = Outcome::Other;
    std::type_info* t = abi::__cxa_current_exception_type();
    o.type = t ? typeName(*t) : "unknown";
  }
  return o;
}

// ------------------------------------------------------------------ parameter audit
namespace
{
u64 auditCount = 0;
bool auditMuted = false;
std::string auditClause;
#ifdef BPP_CORE_VERIF
void auditSink(const bpp::Parameter* p, const char* site)
{
  ++auditCount;
  if (!p->hasConstraint()) return;
  bool ok = true;
  try { ok = p->getConstraint()->isCorrect(p->getValue()); }
  catch (...) { ok = true; }
  if (!ok && !auditMuted && inCase)
  {
    std::string desc;
    try { desc = p->getConstraint()->getDescription(); } catch (...) {}
    violation(auditClause.c_str(), std::string("site=") + site,
        "parameter '" + p->getName() + "' holds " + str(p->getValue()) + " (" + hexd(p->getValue()) + ") rejected by its constraint " + desc);
  }
}
#endif
}
void installParameterAudit(const char* clause)
{
  auditClause = clause;
#ifdef BPP_CORE_VERIF
  bpp::verif::parameterAudit = &auditSink;
#endif
}
u64 parameterAudits() { return auditCount; }
void parameterAuditMute(bool mute) { auditMuted = mute; }

// ------------------------------------------------------------------ main loop
namespace
{
void usage()
{
  std::cerr << "usage: harness --list --tier quick|thorough\n"
               "       harness --run --tier T --seed S --group G --from a --to b [--journal file] [--known a,b] [--replay]\n";
}
}

int run(int argc, char** argv, const char* property, const std::vector<Group>& groups, const Meta& meta)
{
  std::string mode, tierS = "quick", groupS, journal, knownS;
  u64 seed = 1, from = 0, to = 0;
  for (int i = 1; i < argc; ++i)
  {
    std::string a = argv[i];
    auto val = [&]() -> std::string { if (i + 1 >= argc) { usage(); std::exit(2); } return argv[++i]; };
    if (a == "--list") mode = "list";
    else if (a == "--run") mode = "run";
    else if (a == "--tier") tierS = val();
    else if (a == "--seed") seed = std::strtoull(val().c_str(), 0, 10);
    else if (a == "--group") groupS = val();
    else if (a == "--from") from = std::strtoull(val().c_str(), 0, 10);
    else if (a == "--to") to = std::strtoull(val().c_str(), 0, 10);
    else if (a == "--journal") journal = val();
    else if (a == "--known") knownS = val();
    else if (a == "--replay") gReplay = true;
    else { usage(); return 2; }
  }
  int tier = (tierS == "thorough") ? 1 : 0;
  if (mode == "list")
  {
    std::cout << "property\t" << property << "\n";
    for (const Group& g : groups)
      std::cout << "group\t" << g.name << "\t" << (tier ? g.thorough : g.quick) << "\t" << g.timeoutS << "\t" << (g.exhaustive ? 1 : 0) << "\n";
    for (const std::string& c : meta.requiredClauses) std::cout << "clause\t" << c << "\n";
    std::cout << "rule\t" << esc(meta.rule) << "\n";
    for (const std::string& a : meta.assumptions) std::cout << "assume\t" << esc(a) << "\n";
    return 0;
  }
  if (mode != "run") { usage(); return 2; }
  {
    std::string cur;
    for (char ch : knownS + ",") { if (ch == ',') { if (!cur.empty()) knownIds.insert(cur); cur.clear(); } else cur += ch; }
  }
  const Group* g = 0;
  for (const Group& gg : groups) if (gg.name == groupS) g = &gg;
  if (!g) { std::cerr << "unknown group " << groupS << "\n"; return 2; }
  if (!journal.empty())
  {
    jfd = ::open(journal.c_str(), O_WRONLY | O_CREAT | O_APPEND, 0644);
    if (jfd < 0) { std::perror("journal"); return 2; }
  }
  // silence the library's own chatter
  static std::shared_ptr<bpp::OutputStream> nullOut(new bpp::NullOutputStream());
  bpp::ApplicationTools::message = nullOut;
  bpp::ApplicationTools::warning = nullOut;
  bpp::ApplicationTools::error = nullOut;

  jline(std::string("H\t") + property + "\t" + g->name + "\t" + std::to_string(seed) + "\t" + tierS, true);
  for (u64 idx = from; idx < to; ++idx)
  {
    Case c;
    c.index = idx;
    c.seed = seed;
    c.tier = tier;
    c.replay = gReplay;
    c.group = g->name;
    c.rng.reseed(mix(mix(seed, hashStr(std::string(property) + "/" + g->name)), idx));
    violInCase = 0;
    jline("B\t" + std::to_string(idx), true);
    inCase = true;
    try { g->fn(c); }
    catch (bpp::Exception& e)
    {
      violation("harness.uncaught", "type=" + typeName(typeid(e)), std::string("exception escaped the case function: ") + e.what());
    }
    catch (std::exception& e)
    {
      violation("harness.uncaught", "type=" + typeName(typeid(e)), std::string("exception escaped the case function: ") + e.what());
    }
    catch (...)
    {
      std::type_info* t = abi::__cxa_current_exception_type();
      violation("harness.uncaught", "type=" + (t ? typeName(*t) : std::string("unknown")), "non-standard exception escaped the case function");
    }
    inCase = false;
    jline("E\t" + std::to_string(idx), false);
    if (((idx - from) & 0xff) == 0xff) dumpAggregates();
  }
  tallies["parameter-audits"] += auditCount;
  dumpAggregates();
  jline("X", true);
  if (jfd >= 0) ::close(jfd);
  return 0;
}
} // namespace vrt
