// Harness runtime for the /verif runtime-monitoring checks.
// One harness = one program per property.  It exposes *groups* of independent, indexed,
// seed-replayable cases; bin/check partitions the index ranges over child processes,
// reads the journal each child writes and decides the verdict.
//
// Journal (one record per line, fields separated by TAB, text fields escaped):
//   B <idx>                      case idx begins (flushed to disk before it runs)
//   D <class> <descriptor>       structural class + human readable descriptor of the running case
//   S <step>                     one more step of the running case's history (flushed)
//   V <clause> <class> <witness> oracle clause violated in the running case
//   E <idx>                      case idx ended (process still alive)
//   C <clause> <n>               n comparisons made for clause (aggregated per child)
//   K <key>                      coverage class key reached (once per child)
//   N <key> <n>                  free counter (hook counters, outcome histogram, ...)
#ifndef VERIF_VRT_H
#define VERIF_VRT_H

#include <cstdint>
#include <string>
#include <vector>
#include <sstream>
#include <functional>
#include <cmath>
#include <limits>

namespace vrt
{
typedef std::uint64_t u64;

// SplitMix64 -> xoshiro256**; one independent stream per (seed, group, case index).
class Rng
{
  u64 s_[4];

public:
  Rng(u64 seed = 1) { reseed(seed); }
  void reseed(u64 seed);
  u64 next();
  // uniform integer in [lo, hi] (inclusive)
  long long range(long long lo, long long hi);
  // index in [0,n)
  size_t below(size_t n) { return n == 0 ? 0 : static_cast<size_t>(next() % n); }
  // uniform double in [0,1)
  double unit() { return static_cast<double>(next() >> 11) * (1.0 / 9007199254740992.0); }
  double real(double lo, double hi) { return lo + (hi - lo) * unit(); }
  // log-uniform in [lo,hi], lo>0
  double logReal(double lo, double hi) { return std::exp(real(std::log(lo), std::log(hi))); }
  bool chance(double p) { return unit() < p; }
  double gauss();
  template<class T> const T& pick(const std::vector<T>& v) { return v[below(v.size())]; }
  template<class T> void shuffle(std::vector<T>& v)
  {
    for (size_t i = v.size(); i > 1; --i) { size_t j = below(i); std::swap(v[i - 1], v[j]); }
  }
};

u64 mix(u64 a, u64 b);
u64 hashStr(const std::string& s);

struct Case
{
  u64 index;
  u64 seed;       // VERIF_SEED
  int tier;       // 0 quick, 1 thorough
  bool replay;    // verbose single-case replay
  Rng rng;
  std::string group;
};

typedef void (* CaseFn)(Case&);

struct Group
{
  std::string name;
  u64 quick;      // number of cases in the quick tier
  u64 thorough;   // number of cases in the thorough tier
  CaseFn fn;
  int timeoutS;   // wall watchdog for ONE case run alone (generous); chunk watchdog is derived by the driver
  bool exhaustive; // the index range enumerates a finite space completely (in the tier where count is the full size)
};

// ---- reporting API (valid inside a case function) ----
// structural class (used for abort/hang signatures) + descriptor of the running case
void describe(const std::string& cls, const std::string& descriptor);
// append a step to the running case's history (flushed at once so that an abort is attributable)
void step(const std::string& s);
// oracle comparison: counts one comparison for `clause`; when !ok records a violation with the
// structural witness class `cls` and a human readable witness.  Returns ok.
bool expect(bool ok, const char* clause, const std::string& cls, const std::string& witness);
bool expect(bool ok, const char* clause, const std::string& cls, const std::function<std::string()>& witness);
// count comparisons for a clause without judging (e.g. sanitizer-only clauses: "call returned")
void counted(const char* clause, u64 n = 1);
// record a violation directly
void violation(const char* clause, const std::string& cls, const std::string& witness);
// coverage class key: a distinct, non-trivial class of case reached (rule documented per harness)
void cover(const std::string& key);
// free counter
void tally(const std::string& key, u64 n = 1);
// true when the driver passed this known-finding id (entries of known_findings.json with status "known")
bool known(const std::string& id);
// true in single-case replay mode (harness may print more)
bool replaying();
void note(const std::string& text);  // printed on stderr in replay mode only

// number of violations recorded in the running case so far
u64 violationsInCase();

struct Meta
{
  std::string rule;                          // how cases are generated and what makes a class key non-trivial/distinct
  std::vector<std::string> assumptions;      // what the check assumes or trusts
  std::vector<std::string> requiredClauses;  // clauses that must have been compared at least once (else inconclusive)
};

int run(int argc, char** argv, const char* property, const std::vector<Group>& groups, const Meta& meta = Meta());

// ---- small helpers ----
template<class T> std::string str(const T& t)
{
  std::ostringstream o;
  o.precision(17);
  o << t;
  return o.str();
}
std::string hexd(double x);                 // exact hex-float text of a double
std::string vecStr(const std::vector<double>& v, size_t maxn = 16);
std::string vecStr(const std::vector<int>& v, size_t maxn = 32);
std::string vecStr(const std::vector<size_t>& v, size_t maxn = 32);
std::string vecStr(const std::vector<std::string>& v, size_t maxn = 32);
inline bool sameDouble(double a, double b) { return (a == b) || (std::isnan(a) && std::isnan(b)); }
// |a-b| <= abs + rel*max(|a|,|b|); infinities must match exactly; NaN never close
bool close(double a, double b, double rel, double abs = 0);
double ulpDist(double a, double b);

// demangled dynamic type name of an exception / object
std::string typeName(const std::type_info& ti);

// Install the Parameter audit sink (needs the library built with -DBPP_CORE_VERIF). Every state
// change of every bpp::Parameter is then audited: constraint present => value accepted.
// Offences are recorded as violations of clause `clause` (class = site) in the running case.
void installParameterAudit(const char* clause);
u64 parameterAudits();
// temporarily suspend offence recording (audits still counted)
void parameterAuditMute(bool mute);
} // namespace vrt

// Outcome capture for calls that may legitimately raise.
namespace vrt
{
struct Outcome
{
  enum Kind { Returned, BppException, StdException, Other } kind;
  std::string type;   // dynamic type of the exception
  std::string what;
  bool returned() const { return kind == Returned; }
  bool raisedBpp() const { return kind == BppException; }
  std::string text() const { return kind == Returned ? "returned" : ("raised " + type + ": " + what); }
};
Outcome capture(const std::function<void()>& f);
// is the dynamic exception type `type` equal to / derived-looking name match (exact demangled name)
}

#endif
